"""rs2lean: translate bodies of pure arithmetic/decision Rust functions into Lean 4 definitions.

The subset and its semantics are documented in notes/rs2lean.md; the operators used by the output are in
lean/VlsModel/Prim/Rs.lean.  Everything outside the subset raises RsError (fail closed): no statement,
expression or macro is ever skipped silently.  The only constructs dropped on purpose are the logging macros
(trace!/debug!/info!/warn!/error!) and the *message* arguments of policy_err!; every drop is recorded in the
function's summary (`dropped`).
"""
import json
from rsparse import RsError, FileIndex, Parser, Tok, lex, split_macro_args, INT_SUFFIXES

UMAX = {"u8": "Rs.U8_MAX", "u16": "Rs.U16_MAX", "u32": "Rs.U32_MAX", "u64": "Rs.U64_MAX", "u128": "Rs.U128_MAX",
        "usize": "Rs.USIZE_MAX"}
UBITS = {"u8": 8, "u16": 16, "u32": 32, "u64": 64, "u128": 128, "usize": 64}
IBITS = {"i32": 32, "i64": 64}
IRNG = {"i32": "Rs.I32_MIN Rs.I32_MAX", "i64": "Rs.I64_MIN Rs.I64_MAX"}
LOG_MACROS = ("trace", "debug", "info", "warn", "error", "log")
LEAN_KW = set("""end from at open type instance where then else do let fun match with if in have show by local prefix
variable universe theorem def namespace section structure class inductive mutual deriving import export private
protected partial unsafe macro syntax notation infix return for break continue try catch finally mut using extends
calc Type Prop Sort abbrev example axiom opaque set_option attribute""".split())

INTLIT = ("intlit",)
UNIT = ("unit",)
BOOL = ("bool",)


def lid(name):
    return "«%s»" % name if name in LEAN_KW else name


def is_uint(t): return t[0] == "int" and t[1] in UMAX
def is_sint(t): return t[0] == "int" and t[1] in IBITS
def is_int(t): return t[0] == "int"


# ---------------------------------------------------------------------------------------------- IR
class P:      # pure leaf value
    def __init__(s, term): s.term = term
class MCall:  # monadic term
    def __init__(s, term): s.term = term
class Bind:
    def __init__(s, pat, m, body): s.pat, s.m, s.body = pat, m, body
class Let:
    def __init__(s, pat, term, body): s.pat, s.term, s.body = pat, term, body
class If:
    def __init__(s, c, a, b): s.c, s.a, s.b = c, a, b
class Match:
    def __init__(s, scrut, arms): s.scrut, s.arms = scrut, arms


def monadic(ir):
    if isinstance(ir, P): return False
    if isinstance(ir, MCall): return True
    if isinstance(ir, Bind): return True
    if isinstance(ir, Let): return monadic(ir.body)
    if isinstance(ir, If): return monadic(ir.a) or monadic(ir.b)
    if isinstance(ir, Match): return any(monadic(b) for _, b in ir.arms)
    raise AssertionError(ir)


def inline(ir):
    """single-line pure term"""
    if isinstance(ir, P): return ir.term
    if isinstance(ir, Let): return "(let %s := %s; %s)" % (ir.pat, ir.term, inline(ir.body))
    if isinstance(ir, If): return "(if %s then %s else %s)" % (ir.c, inline(ir.a), inline(ir.b))
    if isinstance(ir, Match):
        return "(match %s with %s)" % (ir.scrut, " ".join("| %s => %s" % (p, inline(b)) for p, b in ir.arms))
    raise AssertionError("inline of a monadic IR")


def emit_p(ir, ind):
    """multi-line pure term, as lines"""
    sp = " " * ind
    if isinstance(ir, P): return [sp + ir.term]
    if isinstance(ir, Let): return [sp + "let %s := %s" % (ir.pat, ir.term)] + emit_p(ir.body, ind)
    if isinstance(ir, If):
        return [sp + "if %s then" % ir.c] + emit_p(ir.a, ind + 2) + [sp + "else"] + emit_p(ir.b, ind + 2)
    if isinstance(ir, Match):
        out = [sp + "match %s with" % ir.scrut]
        for p, b in ir.arms:
            out += [sp + "| %s =>" % p] + emit_p(b, ind + 4)
        return out
    raise AssertionError(ir)


def emit_m(ir, ind):
    """do-sequence lines"""
    sp = " " * ind
    if isinstance(ir, P): return [sp + "pure %s" % ir.term]
    if isinstance(ir, MCall): return [sp + ir.term]
    if isinstance(ir, Let): return [sp + "let %s := %s" % (ir.pat, ir.term)] + emit_m(ir.body, ind)
    if isinstance(ir, Bind):
        if isinstance(ir.m, MCall):
            head = [sp + "let %s ← %s" % (ir.pat, ir.m.term)]
        elif not monadic(ir.m):
            head = [sp + "let %s := %s" % (ir.pat, inline(ir.m))]
        else:
            head = [sp + "let %s ← do" % ir.pat] + emit_m(ir.m, ind + 4)
        return head + emit_m(ir.body, ind)
    if isinstance(ir, If):
        return [sp + "if %s then" % ir.c] + emit_m(ir.a, ind + 2) + [sp + "else"] + emit_m(ir.b, ind + 2)
    if isinstance(ir, Match):
        out = [sp + "match %s with" % ir.scrut]
        for p, b in ir.arms:
            out += [sp + "| %s =>" % p] + emit_m(b, ind + 4)
        return out
    raise AssertionError(ir)


# ---------------------------------------------------------------------------------------------- unit
class FnInfo:
    pass


class Unit:
    """one Rust source file -> one Lean namespace"""

    def __init__(self, repo, rel, ns, const_files=(), externals=None, struct_files=(), views=None, rewrite=None, error_ctors=None, compact_guards=False):
        self.compact_guards = compact_guards   # `if c { policy_err!(..) }` -> one step `Rs.policyErrIf` (no join points)
        self.error_ctors = error_ctors or {}   # error constructor function -> tag prefix (the argument list is appended)
        self.repo, self.rel, self.ns = repo, rel, ns
        src = open(repo.rstrip("/") + "/" + rel).read()
        self.rewrites = []          # (rule name, number of applications): trusted source normalisations, listed in the output
        self.rewrite_failed = {}    # (impl, name) -> why: functions whose normalisation did not apply as declared
        if rewrite is not None:
            src = rewrite(src, self.rewrites, self.rewrite_failed)
        self.fi = FileIndex(rel, src)
        self.struct_src = {n: rel for n in self.fi.structs}
        if views:
            # trusted *views* of library types: struct declarations (Rust syntax) listing the fields the translated
            # code may read; they never override a struct of the file itself
            idx = FileIndex("<views>", views)
            for n, fields in idx.structs.items():
                if n not in self.fi.structs:
                    self.fi.structs[n] = fields; self.struct_src[n] = "trusted view declared in translate/x_fn.py"
        for r in struct_files:      # struct declarations of other files, used as local structures
            idx = FileIndex(r, open(repo.rstrip("/") + "/" + r).read())
            for n, fields in idx.structs.items():
                if n not in self.fi.structs:
                    self.fi.structs[n] = fields; self.struct_src[n] = r
        self.const_idx = [self.fi] + [FileIndex(r, open(repo.rstrip("/") + "/" + r).read()) for r in const_files]
        self.externals = externals or {}   # name -> {"params": [rust type str], "ret": rust type str}
        self.fns = {}        # (impl, name) -> FnInfo  (translated)
        self.order = []      # emission order
        self.failed = dict(self.rewrite_failed)     # (impl, name) -> message  (fail closed)
        self.used_fields = {}  # struct -> ordered list of fields
        self.used_enums = []
        self.in_progress = set()

    # ---- types
    def resolve(self, t, impl=None):
        k = t[0]
        if k == "named":
            n = t[1]
            if n == "Self":
                if impl is None: raise RsError("Self outside impl")
                n = impl
            if n in self.fi.structs: return ("struct", n)
            if n in self.fi.enums and self.fi.enums[n] is not None:
                if n not in self.used_enums: self.used_enums.append(n)
                return ("enum", n)
            if n in ("Mutex", "Arc", "RefCell", "MutexGuard") and len(t[2]) == 1:
                return self.resolve(t[2][0], impl)     # trusted: locking is the identity on the protected value
            if n in ("BTreeMap", "OrderedMap", "Map") and len(t[2]) == 2:
                k = self.resolve(t[2][0], impl)
                if k != ("str",): raise RsError("map with a non-string key is outside the subset")
                return ("map", k, self.resolve(t[2][1], impl))
            return ("opaque", n)
        if k == "opt": return ("opt", self.resolve(t[1], impl))
        if k == "vec": return ("vec", self.resolve(t[1], impl))
        if k == "tuple": return ("tuple", [self.resolve(x, impl) for x in t[1]])
        if k == "result": return ("result", self.resolve(t[1], impl), self.resolve(t[2], impl))
        return t

    def parse_type(self, s, impl=None):
        toks = lex(s) + [Tok("eof", "", 0)]
        return self.resolve(Parser(toks, 0, "<spec>").type_(), impl)

    def struct_field(self, sname, f):
        for fn, ty in self.fi.structs[sname]:
            if fn == f:
                if ty is None: raise RsError("field %s.%s has a type outside the subset" % (sname, f))
                u = self.used_fields.setdefault(sname, [])
                if f not in u: u.append(f)
                return self.resolve(ty, sname)
        raise RsError("no field %s in struct %s" % (f, sname))

    def opaques_of(self, t, acc, seen=None):
        seen = seen if seen is not None else set()
        k = t[0]
        if k == "opaque":
            if t[1] not in acc: acc.append(t[1])
        elif k in ("opt", "vec"): self.opaques_of(t[1], acc, seen)
        elif k == "map": self.opaques_of(t[2], acc, seen)
        elif k == "tuple":
            for x in t[1]: self.opaques_of(x, acc, seen)
        elif k == "result": self.opaques_of(t[1], acc, seen)
        elif k == "struct":
            if t[1] in seen: return acc
            seen.add(t[1])
            for f in self.used_fields.get(t[1], []):
                self.opaques_of(self.struct_field(t[1], f), acc, seen)
        return acc

    def lt(self, t, top=True):
        k = t[0]
        if k == "int": return "Nat" if t[1] in UMAX else "Int"
        if k == "bool": return "Bool"
        if k == "str": return "String"
        if k == "unit": return "Unit"
        if k == "opaque": return t[1]
        if k == "enum": return t[1]
        if k == "opt": return "Option %s" % self.lt(t[1], False) if top else "(Option %s)" % self.lt(t[1], False)
        if k == "vec": return "List %s" % self.lt(t[1], False) if top else "(List %s)" % self.lt(t[1], False)
        if k == "map":
            x = "List (String × %s)" % self.lt(t[2], False)
            return x if top else "(" + x + ")"
        if k == "tuple":
            s = " × ".join(self.lt(x, False) for x in t[1])
            return s if top else "(" + s + ")"
        if k == "struct":
            ops = self.opaques_of(t, [])
            if not ops: return t[1]
            s = t[1] + " " + " ".join(ops)
            return s if top else "(" + s + ")"
        raise RsError("no Lean type for %r" % (t,))

    # ---- constants
    def const_value(self, name, local_consts):
        """(int value, type) of an integer constant, evaluated now; ("expr", ast, type) for other constants"""
        if name in local_consts:
            ty, e = local_consts[name]
            return self.const_eval(e, local_consts), ty
        for idx in self.const_idx:
            if name in idx.consts:
                ty, e = idx.consts[name]
                rt = self.resolve(ty)
                if not is_int(rt): return ("expr", e, rt)
                return self.const_eval(e, {}), rt
        return None

    def const_eval(self, e, lc):
        k = e[0]
        if k == "int": return e[1]
        if k == "paren": return self.const_eval(e[1], lc)
        if k == "cast": return self.const_eval(e[1], lc)
        if k == "path":
            if len(e[1]) == 2 and e[1][0] in UBITS and e[1][1] == "MAX": return 2 ** UBITS[e[1][0]] - 1
            if len(e[1]) == 1 or e[1][0] == "Self":
                r = self.const_value(e[1][-1], lc)
                if r: return r[0]
            raise RsError("constant %s not found" % "::".join(e[1]))
        if k == "binary":
            a, b = self.const_eval(e[2], lc), self.const_eval(e[3], lc)
            op = e[1]
            if op == "+": return a + b
            if op == "-": return a - b
            if op == "*": return a * b
            if op == "/": return a // b
            if op == "%": return a % b
            if op == "<<": return a << b
        raise RsError("constant expression outside the subset: %r" % (e,))

    # ---- functions
    def get_fn(self, impl, name):
        key = (impl, name)
        if key in self.fns: return self.fns[key]
        if key in self.failed: raise RsError(self.failed[key])
        if key in self.in_progress: raise RsError("recursive function %s" % name)
        self.in_progress.add(key)
        snap = ({k: list(v) for k, v in self.used_fields.items()}, list(self.used_enums))
        try:
            f = self.fi.function(impl, name)
            info = FnTranslator(self, f).run()
        except RsError as e:
            self.failed[key] = "%s%s: %s" % ((impl + "::") if impl else "", name, e)
            if len(self.in_progress) == 1:
                self.used_fields, self.used_enums = snap
            raise RsError(self.failed[key])
        finally:
            self.in_progress.discard(key)
        self.fns[key] = info
        self.order.append(key)
        return info

    def try_fn(self, impl, name):
        try:
            return self.get_fn(impl, name)
        except RsError as e:
            self.failed.setdefault((impl, name), str(e))
            return None

    # ---- emission
    def emit(self):
        L = ["import VlsModel.Prim.Rs",
             "/-! Function bodies translated from `%s` by translate/rs2lean.py (semantics: Prim/Rs.lean)." % self.rel,
             "    Structures list only the fields read or written by the translated functions. -/",
             "namespace %s" % self.ns, "open VlsModel", ""]
        if self.rewrites:
            L[3:3] = ["/-! Source normalisations applied before translation (trusted, declared in translate/x_fn.py; each rule must",
                      "    apply exactly the declared number of times, otherwise nothing of this file is translated):"] + \
                     ["    * %s  (%d×)" % (n, c) for n, c in self.rewrites] + ["-/"]
        for en in self.used_enums:
            L.append("inductive %s" % en)
            L.append("  " + " ".join("| %s" % lid(v) for v in self.fi.enums[en]))
            L.append("deriving DecidableEq, Repr")
            L.append("")
        # structures in dependency order
        done = []
        def emit_struct(s):
            if s in done: return
            done.append(s)
            for f in self.used_fields.get(s, []):
                def deps(t):
                    if t[0] == "struct": emit_struct(t[1])
                    elif t[0] in ("opt", "vec"): deps(t[1])
                    elif t[0] == "map": deps(t[2])
                    elif t[0] == "tuple":
                        for x in t[1]: deps(x)
                deps(self.struct_field(s, f))
            ops = self.opaques_of(("struct", s), [])
            L.append("/-- `struct %s` (%s), fields used: %d of %d -/" % (s, self.struct_src.get(s, self.rel), len(self.used_fields.get(s, [])), len(self.fi.structs[s])))
            L.append("structure %s%s where" % (s, (" (" + " ".join(ops) + " : Type)") if ops else ""))
            for f, _ in self.fi.structs[s]:
                if f in self.used_fields.get(s, []):
                    L.append("  %s : %s" % (lid(f), self.lt(self.struct_field(s, f))))
            if not self.used_fields.get(s):
                L.append("  mk ::")
            L.append("deriving DecidableEq, Repr")
            L.append("")
        for s in list(self.used_fields):
            emit_struct(s)
        for key in self.order:
            L += self.fns[key].lean_lines()
            L.append("")
        for key, msg in self.failed.items():
            L.append("-- NOT TRANSLATED (outside the subset, fail closed): %s" % msg.replace("\n", " "))
        L.append("end %s" % self.ns)
        return "\n".join(L) + "\n"


# ---------------------------------------------------------------------------------------------- function
class FnTranslator:
    def __init__(self, unit, f):
        self.u, self.f = unit, f
        self.impl = f["impl"]
        self.n = 0
        self.exts = []       # external function parameters: (lean name, lean type string)
        self.dropped = []
        self.needs_deq = []
        self.local_consts = {}
        self.callees = []

    def fresh(self, base="t"):
        self.n += 1
        return "%s_%d" % (base, self.n)

    def add_ext(self, name, ty):
        # one parameter per external name; the Lean type of a declared external is rendered again at emission time
        # (Unit.ext_specs), when all used fields / opaque parameters of the structures it mentions are known
        if name not in [n for n, _ in self.exts]:
            self.exts.append((name, ty))

    def note_ext_opaque(self, o):
        if not hasattr(self, "ext_ops"): self.ext_ops = []
        if o not in self.ext_ops: self.ext_ops.append(o)

    # ---- entry
    def run(self):
        f, u = self.f, self.u
        env = {}
        params = []
        self.selfk = f["self"]
        if f["self"] in ("val", "valmut"):
            raise RsError("by-value self receiver is outside the subset")
        self.trait_self = False
        if f["self"]:
            if self.impl not in u.fi.structs:
                # default method of a trait: `self` may only appear as the receiver of policy_err!
                if f["self"] != "ref": raise RsError("&mut self in a trait default method")
                self.trait_self = True
                self.selfk = None
            else:
                env["self"] = ("struct", self.impl)
                u.used_fields.setdefault(self.impl, [])
                params.append(("self", ("struct", self.impl)))
        self.mut_params = []
        for pat, ty, ismut, refmut in f["params"]:
            if pat[0] != "pvar": raise RsError("parameter pattern outside the subset")
            t = u.resolve(ty, self.impl)
            env[pat[1]] = t
            params.append((pat[1], t))
            if refmut: self.mut_params.append(pat[1])
        self.params_pre = params
        for mp in self.mut_params:
            if env[mp][0] != "struct": raise RsError("&mut parameter of a non-struct type is outside the subset")
        self.ret = u.resolve(f["ret"], self.impl)
        self.is_result = self.ret[0] == "result"
        self.val_ty = self.ret[1] if self.is_result else self.ret
        self.params = params
        blk = f["body"]
        self.prescan(blk)
        ir = self.stmts(blk[1], blk[2], env, self.fin_return)
        info = FnInfo()
        info.impl, info.name = self.impl, f["name"]
        info.lean_name = (self.impl + "." if self.impl else "") + lid(f["name"])
        info.params, info.ret, info.val_ty = params, self.ret, self.val_ty
        info.is_result = self.is_result
        info.mut_self = self.selfk == "mut"
        info.mut_params = list(self.mut_params)
        info.has_self = bool(params) and params[0][0] == "self"
        info.monadic = self.is_result or monadic(ir)
        info.exts = self.exts
        info.ext_ops = list(getattr(self, "ext_ops", []))
        info.ir = ir
        info.dropped = self.dropped
        info.needs_deq = self.needs_deq
        info.line, info.text, info.vis = f["line"], f["text"], f["vis"]
        info.end_line = f["end_line"]
        info.rel = u.rel
        info.unit = u
        info.callees = self.callees
        info.out_ty = self.out_type()
        info.lean_lines = lambda: fn_lean_lines(info)
        return info

    def lock_alias(self, e):
        """`X.lock().unwrap()` / `.expect(..)` -> X"""
        if e[0] == "mcall" and e[2] in ("unwrap", "expect") and e[1][0] == "mcall" and e[1][2] == "lock" and not e[1][4]:
            return e[1][1]
        return None

    def prescan(self, blk):
        """a `&self` method that mutates through a lock, or calls one that does, returns the new self as well"""
        if self.selfk != "ref": return
        def walk(e, fn):
            if isinstance(e, tuple):
                if e and e[0] == "macro": return
                fn(e)
                for x in e: walk(x, fn)
            elif isinstance(e, list):
                for x in e: walk(x, fn)
        aliases = []
        def f1(e):
            if e and e[0] == "let" and e[1][0] == "pvar" and e[3] is not None and self.lock_alias(e[3]) is not None:
                if self.place_root(self.lock_alias(e[3])) == "self": aliases.append(e[1][1])
        walk(blk, f1)
        if aliases:
            A = self.assigned(blk, [], set(["__none__"]))
            # `assigned` skips names declared by let: look for mutations by hand
            muts = []
            def f2(e):
                if e and e[0] == "mcall" and e[2] in MUT_METHODS and e[1][0] == "path" and e[1][1][0] in aliases: muts.append(1)
                if e and e[0] == "assign":
                    try:
                        if self.place_root(e[2]) in aliases: muts.append(1)
                    except RsError:
                        pass
            walk(blk, f2)
            if muts: self.selfk = "mut"
        calls = []
        def f3(e):
            if e and e[0] == "mcall" and e[1] == ("path", ["self"]) and (self.impl, e[2]) in self.u.fi.fns: calls.append(e[2])
        walk(blk, f3)
        for m in calls:
            if (self.impl, m) == (self.impl, self.f["name"]): continue
            info = self.u.get_fn(self.impl, m)
            if info.mut_self: self.selfk = "mut"

    def out_parts(self):
        parts = []
        if self.selfk == "mut": parts.append(("self", ("struct", self.impl)))
        for mp in self.mut_params:
            parts.append((mp, dict(self.params)[mp]))
        return parts

    def out_type(self):
        parts = [t for _, t in self.out_parts()]
        if self.val_ty != UNIT or not parts: parts.append(self.val_ty)
        return parts[0] if len(parts) == 1 else ("tuple", parts)

    def pack(self, env, term):
        """the value returned by the Lean function for Rust return value `term`"""
        parts = [lid(n) for n, _ in self.out_parts()]
        if self.val_ty != UNIT or not parts: parts.append(term)
        return parts[0] if len(parts) == 1 else "(" + ", ".join(parts) + ")"

    # ---- finalisers
    def fin_return(self, env, tail):
        """tail position of the function: `tail` is an expression AST or None"""
        if tail is None:
            if self.val_ty != UNIT: raise RsError("missing tail expression")
            return P(self.pack(env, "()"))
        return self.tail(tail, env)

    def tail(self, e, env):
        k = e[0]
        if k == "paren": return self.tail(e[1], env)
        if k == "block": return self.stmts(e[1], e[2], env, self.fin_return)
        if k == "return":
            return self.fin_return(env, e[1])
        if k in ("if", "iflet", "match"):
            return self.control(e, env, lambda env2, t: self.fin_return(env2, t))
        if self.is_result:
            return self.result_comp(e, env)
        pre = []
        term, ty = self.expr(e, env, pre, self.val_ty)
        self.check_ty(ty, self.val_ty, "return value")
        return self.wrap(pre, P(self.pack(env, term)))

    def result_comp(self, e, env):
        """IR computing a Result-typed expression in tail position of a Result-returning function"""
        if e[0] == "call" and e[1][0] == "path" and e[1][1] == ["Ok"]:
            pre = []
            term, ty = self.expr(e[2][0], env, pre, self.val_ty)
            self.check_ty(ty, self.val_ty, "Ok value")
            return self.wrap(pre, P(self.pack(env, term)))
        if e[0] == "call" and e[1][0] == "path" and e[1][1] == ["Err"]:
            pre = []
            tag = self.err_tag(e[2][0], env, pre)
            return self.wrap(pre, MCall("Rs.fail %s" % tag))
        if e[0] == "mcall" and e[1] == ("path", ["self"]) and self.impl and (self.impl, e[2]) in self.u.fi.fns:
            info = self.u.get_fn(self.impl, e[2])
            if info.mut_self and info.is_result and self.selfk == "mut" and info.val_ty == self.val_ty:
                pre = []
                a = self.args_for(info, e[4], env, pre)
                for x in info.exts: self.add_ext(*x)
                self.callees.append(info.lean_name)
                return self.wrap(pre, MCall(" ".join([info.lean_name] + [n for n, _ in info.exts] + ["self"] + a)))
        if e[0] in ("call", "mcall"):
            pre = []
            r = self.call_any(e, env, pre, want_result=True)
            if r is not None and r[2] == "comp":
                if self.selfk == "mut" or self.mut_params:
                    raise RsError("tail call of a Result function from a method that returns updated state")
                return self.wrap(pre, MCall(r[0]))
        raise RsError("Result-typed tail expression outside the subset: %s" % e[0])

    def err_tag(self, e, env, pre):
        """Lean String term standing for an error value"""
        if e[0] == "unit": return '"()"'
        if e[0] == "path": return '"%s"' % "::".join(e[1])
        if e[0] == "call" and e[1][0] == "path" and e[1][1][-1] == "policy_error":
            term, ty = self.expr(e[2][0], env, pre, ("str",))
            self.dropped.append("message of policy_error(..)")
            return term
        if e[0] == "call" and e[1][0] == "path" and e[1][1][-1] in self.u.error_ctors and len(e[2]) == 1:
            # declared error constructor carrying a list of indices: tag = "<prefix> " ++ toString list
            term, ty = self.expr(e[2][0], env, pre, None)
            if ty[0] != "vec" or not is_uint(ty[1]): raise RsError("error constructor argument outside the subset")
            return '("%s " ++ toString %s)' % (self.u.error_ctors[e[1][1][-1]], term)
        if e[0] == "mcall" and e[2] == "into":
            return self.err_tag(e[1], env, pre)
        raise RsError("error value outside the subset")

    def check_ty(self, got, want, what):
        if got == INTLIT and is_int(want): return
        if got != want:
            raise RsError("type mismatch in %s: %r vs %r" % (what, got, want))

    def wrap(self, pre, body):
        for ent in reversed(pre):
            if ent[0] == "bind": body = Bind(ent[1], ent[2], body)
            elif ent[0] == "let": body = Let(ent[1], ent[2], body)
            elif ent[0] == "optq":
                body = Match(ent[2], [("some %s" % ent[1], body), ("none", P(self.pack(None, "none")))])
            else: raise AssertionError(ent)
        return body

    # ---- statements
    def has_return(self, e):
        if isinstance(e, tuple):
            if e and e[0] == "return": return True
            if e and e[0] == "closure": return False
            if e and e[0] == "macro": return False
            return any(self.has_return(x) for x in e)
        if isinstance(e, list):
            return any(self.has_return(x) for x in e)
        return False

    def has_try(self, e):
        if isinstance(e, tuple):
            if e and e[0] == "try": return True
            if e and e[0] == "macro" and e[1] in ("policy_err", "transaction_format_err"): return True
            if e and e[0] == "macro": return False
            return any(self.has_try(x) for x in e)
        if isinstance(e, list):
            return any(self.has_try(x) for x in e)
        return False

    def assigned(self, e, acc, declared):
        """variables (declared outside) assigned inside e"""
        if isinstance(e, list):
            declared = set(declared)
            for x in e: self.assigned(x, acc, declared)
            return acc
        if not isinstance(e, tuple) or not e: return acc
        k = e[0]
        if k == "block":
            d = set(declared)
            for s in e[1]: self.assigned(s, acc, d)
            if e[2] is not None: self.assigned(e[2], acc, d)
            return acc
        if k == "let":
            if e[3] is not None: self.assigned(e[3], acc, declared)
            for v in self.pat_vars(e[1]): declared.add(v)
            return acc
        if k == "assign":
            r = self.place_root(e[2])
            if r not in declared and r not in acc: acc.append(r)
            self.assigned(e[3], acc, declared)
            return acc
        if k == "mcall":
            if e[2] in MUT_METHODS or self.is_mut_self_call(e):
                try:
                    r = self.place_root(e[1])
                    if r not in declared and r not in acc: acc.append(r)
                except RsError:
                    pass
        if k == "macro": return acc
        for x in e[1:]:
            if isinstance(x, (tuple, list)): self.assigned(x, acc, declared)
        return acc

    def is_mut_self_call(self, e):
        impl = None
        if e[1] == ("path", ["self"]) and self.impl: impl = self.impl
        elif e[1][0] == "path" and len(e[1][1]) == 1 and e[1][1][0] in getattr(self, "mut_params", []):
            t = dict(self.params_pre).get(e[1][1][0])
            if t and t[0] == "struct": impl = t[1]
        if impl:
            k = self.u.fi.fns.get((impl, e[2]))
            if isinstance(k, int):
                t = self.u.fi.toks
                j = k
                while t[j].s != "(": j += 1
                return t[j + 1].s == "&" and t[j + 2].s == "mut"
        return False

    def pat_vars(self, p):
        k = p[0]
        if k == "pvar": return [p[1]]
        if k == "ptuple": return [v for x in p[1] for v in self.pat_vars(x)]
        if k == "pctor": return [v for x in p[2] for v in self.pat_vars(x)]
        return []

    def place_root(self, e):
        k = e[0]
        if k == "path" and len(e[1]) == 1: return e[1][0]
        if k in ("field", "tfield", "index", "deref", "paren", "ref"): return self.place_root(e[1])
        raise RsError("assignment target outside the subset")

    def stmts(self, items, tail, env, fin):
        """IR of statements `items` followed by `tail`, finished by fin(env, tail)"""
        if not items:
            return fin(env, tail)
        st, rest = items[0], items[1:]
        k = st[0]
        if k == "const":
            self.local_consts[st[1]] = (self.u.resolve(st[2], self.impl), st[3])
            return self.stmts(rest, tail, env, fin)
        if k == "let":
            _, pat, ty, e, line = st
            if e is None: raise RsError("let without initialiser (line %d)" % line)
            want = self.u.resolve(ty, self.impl) if ty is not None else None
            al = self.lock_alias(e)
            if al is not None and pat[0] == "pvar":
                _, at = self.expr(al, env, [], None)
                env2 = dict(env)
                env2[pat[1]] = ("alias", al, at)
                return self.stmts(rest, tail, env2, fin)
            if e[0] in ("if", "iflet", "match") and self.has_return(e):
                raise RsError("return inside a let initialiser (line %d)" % line)
            pre = []
            term, t = self.expr(e, env, pre, want)
            if want is not None:
                self.check_ty(t, want, "let at line %d" % line); t = want
            if t == INTLIT: raise RsError("integer literal without a type (line %d)" % line)
            env2 = dict(env)
            lp = self.bind_pat(pat, t, env2)
            # rename the last temporary instead of an extra let
            if pre and pre[-1][0] in ("bind", "let") and pre[-1][1] == term and pat[0] == "pvar":
                pre[-1] = (pre[-1][0], lp, pre[-1][2])
            else:
                pre.append(("let", lp, term))
            return self.wrap(pre, self.stmts(rest, tail, env2, fin))
        if k == "expr":
            e = st[1]
            return self.stmt_expr(e, rest, tail, env, fin)
        raise RsError("statement outside the subset: %s" % k)

    def bind_pat(self, pat, t, env):
        """Lean pattern text for a Rust irrefutable pattern; extends env"""
        k = pat[0]
        if k == "pvar":
            env[pat[1]] = t; return lid(pat[1])
        if k == "pwild": return "_"
        if k == "ptuple":
            if t[0] != "tuple" or len(t[1]) != len(pat[1]): raise RsError("tuple pattern mismatch")
            return "(" + ", ".join(self.bind_pat(p, x, env) for p, x in zip(pat[1], t[1])) + ")"
        raise RsError("refutable pattern in let")

    def stmt_expr(self, e, rest, tail, env, fin):
        k = e[0]
        cont = lambda env2: self.stmts(rest, tail, env2, fin)
        if k == "paren": return self.stmt_expr(e[1], rest, tail, env, fin)
        if k == "return":
            return self.fin_return(env, e[1])
        if k == "macro":
            pre = []
            self.macro_stmt(e, env, pre)
            return self.wrap(pre, cont(env))
        if k == "assign":
            pre = []
            env2 = self.assign(e, env, pre)
            return self.wrap(pre, cont(env2))
        if k == "if" and self.u.compact_guards and e[3] is None:
            g = self.guard_macro(e[2])
            if g is not None:
                pre = []
                c, ct = self.expr(e[1], env, pre, BOOL)
                self.check_ty(ct, BOOL, "if condition")
                for lg in g[1]:
                    self.dropped.append("%s! at line %d (logging: arguments not evaluated)" % (lg[1], lg[3]))
                m = g[0]
                a = split_macro_args(m[2], self.u.rel)
                if a[0] != ("path", ["self"]): raise RsError("%s! on something else than self" % m[1])
                if not self.is_result: raise RsError("%s! in a function that does not return Result" % m[1])
                ct_ = c if c.startswith("(") or " " not in c else "(" + c + ")"
                if m[1] == "policy_err":
                    if not (self.trait_self or "self" in env): raise RsError("policy_err! without self")
                    tag, t = self.expr(a[1], env, pre, ("str",))
                    self.check_ty(t, ("str",), "policy_err! tag")
                    self.add_ext("policy_filter_err", "String → Bool")
                    self.dropped.append("message arguments of policy_err! at line %d" % m[3])
                    pre.append(("bind", "_", MCall("Rs.policyErrIf policy_filter_err %s %s" % (tag, ct_))))
                else:
                    if a[1][0] != "str": raise RsError("transaction_format_err! without a literal tag")
                    self.dropped.append("tag %s and message arguments of transaction_format_err! at line %d" % (a[1][1], m[3]))
                    pre.append(("bind", "_", MCall("Rs.failIf \"transaction-format\" %s" % ct_)))
                return self.wrap(pre, cont(env))
        if k in ("if", "iflet", "match", "block"):
            if self.has_return(e):
                # the rest of the function is appended to every branch (fail closed on shadowing)
                def k2(env2, t):
                    if t is not None and t[0] not in ("unit",):
                        # value of a unit-typed statement expression: evaluate for effect
                        return self.stmt_expr(t, rest, tail, env2, fin)
                    for v in env2:
                        if v in env and env2[v] != env[v]:
                            raise RsError("variable %s shadowed inside a branch with return" % v)
                    return self.stmts(rest, tail, {v: env2[v] for v in env2 if v in env}, fin)
                if k == "block":
                    return self.stmts(e[1], e[2], env, k2)
                return self.control(e, env, k2)
            # no return inside: join on the assigned variables
            A = self.assigned(e, [], set())
            A = [("self" if (v in env and env[v][0] == "alias") else v) for v in A if v in env]
            A = [v for i, v in enumerate(A) if v not in A[:i]]
            for v in A:
                if v != "self" and v not in env: raise RsError("assignment to unknown variable %s" % v)
            tup = "()" if not A else (lid(A[0]) if len(A) == 1 else "(" + ", ".join(lid(v) for v in A) + ")")
            def fin2(env2, t):
                if t is not None and t[0] != "unit":
                    return self.stmt_expr(t, [], None, env2, fin2)
                return P(tup)
            if k == "block":
                ir = self.stmts(e[1], e[2], env, fin2)
            else:
                ir = self.control(e, env, fin2)
            pat = "_" if not A else tup
            if not A and not monadic(ir):
                return cont(env)   # no effect at all (e.g. only logging)
            return Bind(pat, ir, cont(env))
        if k == "for":
            return self.for_stmt(e, env, cont)
        if k in ("mcall", "call", "try"):
            pre = []
            env2 = self.effect_call(e, env, pre)
            return self.wrap(pre, cont(env2))
        if k == "unit":
            return cont(env)
        raise RsError("expression statement outside the subset: %s" % k)

    def guard_macro(self, blk):
        """`{ [log!(..);]* policy_err!(..) | transaction_format_err!(..) [;] }` -> (macro, [log macros]) else None"""
        if blk[0] != "block": return None
        items = [it for it in blk[1]]
        if blk[2] is not None: items = items + [("expr", blk[2])]
        logs = []
        for it in items[:-1]:
            if it[0] == "expr" and it[1][0] == "macro" and it[1][1] in LOG_MACROS: logs.append(it[1])
            else: return None
        if not items: return None
        last = items[-1]
        if last[0] == "expr" and last[1][0] == "macro" and last[1][1] in ("policy_err", "transaction_format_err"):
            return last[1], logs
        return None

    def control(self, e, env, fin):
        """if / if-let / match whose branches are finished by fin(env, tail_ast)"""
        k = e[0]
        if k == "if":
            pre = []
            c, ct = self.expr(e[1], env, pre, BOOL)
            self.check_ty(ct, BOOL, "if condition")
            a = self.stmts(e[2][1], e[2][2], env, fin)
            if e[3] is None:
                b = fin(env, None)
            elif e[3][0] == "block":
                b = self.stmts(e[3][1], e[3][2], env, fin)
            else:
                b = self.control(e[3], env, fin)
            return self.wrap(pre, If(c, a, b))
        if k == "iflet":
            els = e[4] if e[4] is not None else ("block", [], None)
            arms = [(e[1], None, e[3]), (("pwild",), None, els)]
            return self.match_(e[2], arms, env, fin)
        if k == "match":
            return self.match_(e[1], e[2], env, fin)
        raise AssertionError(k)

    def match_(self, scrut, arms, env, fin):
        pre = []
        if scrut[0] == "tuple":
            parts = [self.expr(x, env, pre, None) for x in scrut[1]]
            sterm = ", ".join(p[0] for p in parts)
            stys = [p[1] for p in parts]
            sty = ("tuple", stys)
        else:
            sterm, sty = self.expr(scrut, env, pre, None)
        out = []
        for pat, guard, body in arms:
            if guard is not None: raise RsError("match guards are outside the subset")
            env2 = dict(env)
            if scrut[0] == "tuple":
                if pat[0] == "pwild":
                    lp = ", ".join("_" for _ in stys)
                elif pat[0] == "ptuple" and len(pat[1]) == len(stys):
                    lp = ", ".join(self.pat(p, t, env2) for p, t in zip(pat[1], stys))
                else:
                    raise RsError("tuple match pattern mismatch")
            else:
                lp = self.pat(pat, sty, env2)
            if body[0] == "block":
                ir = self.stmts(body[1], body[2], env2, fin)
            else:
                ir = self.stmts([], body, env2, fin)
            out.append((lp, ir))
        return self.wrap(pre, Match(sterm, out))

    def pat(self, p, t, env):
        k = p[0]
        if k == "pwild": return "_"
        if k == "pvar":
            env[p[1]] = t; return lid(p[1])
        if k == "plit":
            if not is_int(t): raise RsError("integer pattern on a non-integer")
            return str(p[1])
        if k == "pbool": return "true" if p[1] else "false"
        if k == "ptuple":
            if t[0] != "tuple" or len(t[1]) != len(p[1]): raise RsError("tuple pattern mismatch")
            return "(" + ", ".join(self.pat(x, y, env) for x, y in zip(p[1], t[1])) + ")"
        if k == "pctor":
            name = p[1][-1]
            if name == "Some" and t[0] == "opt" and len(p[2]) == 1:
                return "some " + self.patp(p[2][0], t[1], env)
            raise RsError("constructor pattern outside the subset: %s" % "::".join(p[1]))
        if k == "ppath":
            name = p[1][-1]
            if name == "None" and t[0] == "opt": return "none"
            if t[0] == "enum" and name in self.u.fi.enums[t[1]] and (len(p[1]) == 1 or p[1][-2] in (t[1], "Self")):
                return "." + lid(name)
            raise RsError("path pattern outside the subset: %s" % "::".join(p[1]))
        if k == "por":
            raise RsError("or-patterns are outside the subset")
        raise RsError("pattern outside the subset")

    def patp(self, p, t, env):
        s = self.pat(p, t, env)
        return "(" + s + ")" if " " in s and not s.startswith("(") else s

    # ---- macros
    def macro_stmt(self, e, env, pre):
        name, toks, line = e[1], e[2], e[3]
        if name in LOG_MACROS:
            self.dropped.append("%s! at line %d (logging: arguments not evaluated)" % (name, line))
            return
        if name in ("assert", "debug_assert"):
            a = split_macro_args(toks, self.u.rel)
            c, t = self.expr(a[0], env, pre, BOOL)
            self.check_ty(t, BOOL, "assert!")
            pre.append(("bind", "_", MCall("Rs.assert %s" % c)))
            return
        if name in ("assert_eq", "assert_ne", "debug_assert_eq", "debug_assert_ne"):
            a = split_macro_args(toks, self.u.rel)
            c, t = self.expr(("binary", "==" if name.endswith("eq") else "!=", a[0], a[1]), env, pre, BOOL)
            pre.append(("bind", "_", MCall("Rs.assert %s" % c)))
            return
        if name == "policy_err":
            a = split_macro_args(toks, self.u.rel)
            if a[0] != ("path", ["self"]): raise RsError("policy_err! on something else than self")
            if not (self.trait_self or "self" in env): raise RsError("policy_err! without self")
            tag, t = self.expr(a[1], env, pre, ("str",))
            self.check_ty(t, ("str",), "policy_err! tag")
            if not self.is_result: raise RsError("policy_err! in a function that does not return Result")
            self.add_ext("policy_filter_err", "String → Bool")
            self.dropped.append("message arguments of policy_err! at line %d" % line)
            pre.append(("bind", "_", MCall("Rs.policyErr policy_filter_err %s" % tag)))
            return
        if name == "transaction_format_err":
            # vls-core/src/policy/error.rs: `return Err(transaction_format_error(format!(..)))` - unconditional (the
            # policy filter is not consulted and the tag argument is not part of the error value)
            a = split_macro_args(toks, self.u.rel)
            if a[0] != ("path", ["self"]): raise RsError("transaction_format_err! on something else than self")
            if a[1][0] != "str": raise RsError("transaction_format_err! without a literal tag")
            if not self.is_result: raise RsError("transaction_format_err! in a function that does not return Result")
            self.dropped.append("tag %s and message arguments of transaction_format_err! at line %d" % (a[1][1], line))
            pre.append(("bind", "_", MCall("(Rs.fail \"transaction-format\" : Rs.M Unit)")))
            return
        if name in ("panic", "unreachable", "unimplemented", "todo"):
            pre.append(("bind", "_", MCall("(Rs.panic : Rs.M Unit)")))
            return
        raise RsError("macro %s! is outside the subset (line %d)" % (name, line))

    # ---- places and assignment
    def place_get(self, e, env, pre):
        return self.expr(e, env, pre, None)

    def place_set(self, e, new, env, pre):
        """emit bindings that store Lean term `new` into place e; returns new env"""
        k = e[0]
        if k in ("paren", "deref", "ref"): return self.place_set(e[1], new, env, pre)
        if k == "path" and len(e[1]) == 1:
            v = e[1][0]
            if v not in env: raise RsError("assignment to unknown variable %s" % v)
            if env[v][0] == "alias":
                return self.place_set(env[v][1], new, env, pre)
            pre.append(("let", lid(v), new))
            return env
        if k == "field":
            base, bt = self.expr(e[1], env, [], None)
            if bt[0] != "struct": raise RsError("field assignment on a non-struct")
            self.u.struct_field(bt[1], e[2])
            return self.place_set(e[1], "{ %s with %s := %s }" % (base, lid(e[2]), new), env, pre)
        if k == "index":
            base, bt = self.expr(e[1], env, pre, None)
            if bt[0] != "vec": raise RsError("index assignment on a non-vector")
            i, it = self.expr(e[2], env, pre, ("int", "usize"))
            self.check_ty(it, ("int", "usize"), "index")
            t = self.fresh("v")
            pre.append(("bind", t, MCall("Rs.setIndex %s %s %s" % (base, i, new))))
            return self.place_set(e[1], t, env, pre)
        raise RsError("assignment target outside the subset")

    def assign(self, e, env, pre):
        _, op, l, r = e
        lt_term, lty = self.place_get(l, env, []) if op != "=" or True else (None, None)
        if op == "=":
            term, t = self.expr(r, env, pre, lty)
            self.check_ty(t, lty, "assignment")
            return self.place_set(l, term, env, pre)
        bop = op[:-1]
        term, t = self.expr(("binary", bop, l, r), env, pre, lty)
        return self.place_set(l, term, env, pre)

    def effect_call(self, e, env, pre):
        """expression statement that is a call: mutating Vec methods on a place, &mut self methods, `?` calls"""
        if e[0] == "mcall" and e[2] in MUT_METHODS:
            recv = e[1]
            base, bt = self.place_get(recv, env, pre)
            if bt[0] == "vec":
                m, a = e[2], e[4]
                el = bt[1]
                if m == "resize":
                    n, nt = self.expr(a[0], env, pre, ("int", "usize")); self.check_ty(nt, ("int", "usize"), "resize")
                    x, xt = self.expr(a[1], env, pre, el); self.check_ty(xt, el, "resize")
                    return self.place_set(recv, "(Rs.vecResize %s %s %s)" % (base, n, x), env, pre)
                if m == "insert":
                    i, it = self.expr(a[0], env, pre, ("int", "usize")); self.check_ty(it, ("int", "usize"), "insert")
                    x, xt = self.expr(a[1], env, pre, el); self.check_ty(xt, el, "insert")
                    t = self.fresh("v")
                    pre.append(("bind", t, MCall("Rs.vecInsert %s %s %s" % (base, i, x))))
                    return self.place_set(recv, t, env, pre)
                if m == "push":
                    x, xt = self.expr(a[0], env, pre, el); self.check_ty(xt, el, "push")
                    return self.place_set(recv, "(%s ++ [%s])" % (base, x), env, pre)
                if m == "clear":
                    return self.place_set(recv, "[]", env, pre)
                if m == "truncate":
                    n, nt = self.expr(a[0], env, pre, ("int", "usize"))
                    return self.place_set(recv, "(%s.take %s)" % (base, n), env, pre)
            if bt[0] == "map" and e[2] == "insert":
                k, kt = self.expr(e[4][0], env, pre, ("str",)); self.check_ty(kt, ("str",), "map key")
                x, xt = self.expr(e[4][1], env, pre, bt[2]); self.check_ty(xt, bt[2], "map value")
                return self.place_set(recv, "(Rs.smapInsert %s %s %s)" % (base, k, x), env, pre)
            if bt[0] == "map" and e[2] == "remove":
                k, kt = self.expr(e[4][0], env, pre, ("str",)); self.check_ty(kt, ("str",), "map key")
                return self.place_set(recv, "(Rs.smapRemove %s %s)" % (base, k), env, pre)
            raise RsError("mutating method %s on %r is outside the subset" % (e[2], bt[0]))
        term, t = self.expr(e, env, pre, None)
        if t != UNIT:
            # a discarded value: fine if pure (its bindings stay for their panics)
            pass
        return env

    def for_stmt(self, e, env, cont):
        _, pat, it, body = e
        # `?` / policy_err! / transaction_format_err! inside the body of a loop of a Result-returning function only
        # leave the function with an error: in the outcome monad that is the failure of `List.foldlM`, which stops
        # the loop exactly there.  `return` (a non-error exit) stays outside the subset.
        if self.has_return(body) or (self.has_try(body) and not self.is_result):
            raise RsError("return or ? inside a for loop is outside the subset")
        pre = []
        lst, elt = self.iter_expr(it, env, pre)
        A = [("self" if env[v][0] == "alias" else v) for v in self.assigned(body, [], set()) if v in env]
        A = [v for i, v in enumerate(A) if v not in A[:i]]
        if not A and not self.has_try(body):
            raise RsError("for loop without effect on outer variables")
        tup = "()" if not A else (lid(A[0]) if len(A) == 1 else "(" + ", ".join(lid(v) for v in A) + ")")
        env2 = dict(env)
        xp = self.pat(pat, elt, env2)
        def fin2(envb, t):
            if t is not None and t[0] != "unit":
                return self.stmt_expr(t, [], None, envb, fin2)
            return P(tup)
        bir = self.stmts(body[1], body[2], env2, fin2)
        if not A:
            if not monadic(bir): raise RsError("for loop without effect on outer variables")
            fn = "(fun _ %s => do\n%s)" % (xp, "\n".join(emit_m(bir, 8)))
            pre.append(("bind", "_", MCall("List.foldlM %s () %s" % (fn, lst))))
        elif monadic(bir):
            fn = "(fun %s %s => do\n%s)" % (tup, xp, "\n".join(emit_m(bir, 8)))
            pre.append(("bind", tup, MCall("List.foldlM %s %s %s" % (fn, tup, lst))))
        else:
            pre.append(("let", tup, "List.foldl (fun %s %s => %s) %s %s" % (tup, xp, inline(bir), tup, lst)))
        return self.wrap(pre, cont(env))

    def iter_expr(self, it, env, pre):
        """(Lean list term, element type) of an iterable expression"""
        if it[0] == "paren": return self.iter_expr(it[1], env, pre)
        if it[0] == "range":
            a, at = self.expr(it[1], env, pre, None) if it[1][0] != "int" else (None, INTLIT)
            b, bt = self.expr(it[2], env, pre, None if at == INTLIT else at)
            if it[1][0] == "int":
                a, at = self.expr(it[1], env, pre, bt)
            if bt == INTLIT: bt = at
            if not is_uint(bt): raise RsError("range over a non-unsigned type")
            if it[3]: raise RsError("inclusive range is outside the subset")
            return "(Rs.range %s %s)" % (a, b), bt
        term, t = self.expr(it, env, pre, None)
        if t[0] == "iter": return term, t[1]
        if t[0] == "vec": return term, t[1]
        raise RsError("iteration over %r is outside the subset" % (t[0],))

    # ---- expressions
    def lit(self, v, t):
        if is_sint(t): return "(%d : Int)" % v
        if is_uint(t):
            if v < 0 or v >= 2 ** UBITS[t[1]]: raise RsError("literal out of range")
            return str(v)
        raise RsError("integer literal of non-integer type %r" % (t,))

    def expr(self, e, env, pre, want=None):
        k = e[0]
        if k == "paren" or k == "ref" or k == "deref":
            return self.expr(e[1], env, pre, want)
        if k == "int":
            t = ("int", e[2]) if e[2] else (want if want is not None and is_int(want) else INTLIT)
            if t == INTLIT: return str(e[1]), INTLIT
            return self.lit(e[1], t), t
        if k == "bool": return ("true" if e[1] else "false"), BOOL
        if k == "str": return json.dumps(e[1], ensure_ascii=False), ("str",)
        if k == "unit": return "()", UNIT
        if k == "tuple":
            ws = want[1] if want is not None and want[0] == "tuple" and len(want[1]) == len(e[1]) else [None] * len(e[1])
            parts = [self.expr(x, env, pre, w) for x, w in zip(e[1], ws)]
            tys = [w if p[1] == INTLIT and w is not None else p[1] for p, w in zip(parts, ws)]
            if any(t == INTLIT for t in tys): raise RsError("untyped integer literal in a tuple")
            return "(" + ", ".join(p[0] for p in parts) + ")", ("tuple", tys)
        if k == "path": return self.path(e, env, want)
        if k == "unary": return self.unary(e, env, pre, want)
        if k == "binary": return self.binary(e, env, pre, want)
        if k == "cast": return self.cast(e, env, pre)
        if k == "field":
            base, bt = self.expr(e[1], env, pre, None)
            if bt[0] != "struct": raise RsError("field access .%s on %r" % (e[2], bt[0]))
            ft = self.u.struct_field(bt[1], e[2])
            return "%s.%s" % (base, lid(e[2])), ft
        if k == "tfield":
            base, bt = self.expr(e[1], env, pre, None)
            if bt[0] != "tuple": raise RsError("tuple field on a non-tuple")
            n, i = len(bt[1]), e[2]
            if i >= n: raise RsError("tuple index out of range")
            s = base + ".2" * i + (".1" if i < n - 1 else "")
            return s, bt[1][i]
        if k == "index":
            base, bt = self.expr(e[1], env, pre, None)
            if bt[0] != "vec": raise RsError("indexing a non-vector")
            if e[2][0] == "range": raise RsError("slicing is outside the subset")
            i, it = self.expr(e[2], env, pre, ("int", "usize"))
            self.check_ty(it, ("int", "usize"), "index")
            t = self.fresh("x")
            pre.append(("bind", t, MCall("Rs.index %s %s" % (base, i))))
            return t, bt[1]
        if k in ("if", "iflet", "match", "block"):
            return self.value_control(e, env, pre, want)
        if k == "try": return self.try_(e, env, pre, want)
        if k in ("call", "mcall"):
            r = self.call_any(e, env, pre, want=want)
            if r[2] == "comp": raise RsError("Result-valued call used as a value (only `?` and tail position are supported)")
            return r[0], r[1]
        if k == "macro":
            if e[1] == "format": return self.format_(e, env, pre)
            raise RsError("macro %s! in expression position is outside the subset" % e[1])
        if k == "struct": return self.struct_lit(e, env, pre)
        if k == "array":
            el = want[1] if want is not None and want[0] == "vec" else None
            terms = []
            for x in e[1]:
                term, t = self.expr(x, env, pre, el)
                if t == INTLIT: raise RsError("array literal of untyped integers")
                if el is None: el = t
                self.check_ty(t, el, "array element")
                terms.append(term)
            if el is None: raise RsError("empty array literal without a type")
            return "[" + ", ".join(terms) + "]", ("vec", el)
        if k == "closure": raise RsError("closure outside a supported method argument")
        if k == "return": raise RsError("return in expression position")
        raise RsError("expression outside the subset: %s" % k)

    def struct_lit(self, e, env, pre):
        name = e[1][-1]
        if name == "Self": name = self.impl
        if name not in self.u.fi.structs or e[3] is not None: raise RsError("struct literal outside the subset")
        decl = [f for f, _ in self.u.fi.structs[name]]
        if sorted(decl) != sorted(f for f, _ in e[2]): raise RsError("struct literal does not set every field")
        parts = []
        for f, fe in e[2]:
            ft = self.u.struct_field(name, f)
            term, t = self.expr(fe, env, pre, ft)
            self.check_ty(t, ft, "field %s" % f)
            parts.append("%s := %s" % (lid(f), term))
        return "{ " + ", ".join(parts) + " }", ("struct", name)

    def format_(self, e, env, pre):
        a = split_macro_args(e[2], self.u.rel)
        if a[0][0] != "str": raise RsError("format! without a literal format string")
        pieces = a[0][1].split("{}")
        if "{" in "".join(pieces) or len(pieces) - 1 != len(a) - 1: raise RsError("format! string outside the subset")
        out = []
        for i, pc in enumerate(pieces):
            if pc: out.append(json.dumps(pc, ensure_ascii=False))
            if i < len(a) - 1:
                term, t = self.expr(a[i + 1], env, pre, None)
                if t == ("str",): out.append(term)
                elif is_uint(t): out.append("toString %s" % term)
                else: raise RsError("format! argument type outside the subset")
        return "(" + " ++ ".join(out or ['""']) + ")", ("str",)

    def path(self, e, env, want):
        segs = e[1]
        if len(segs) == 1:
            v = segs[0]
            if v in env:
                if env[v][0] == "alias":
                    return self.expr(env[v][1], env, [], None)
                return lid(v), env[v]
            if v == "None":
                if want is not None and want[0] == "opt": return "none", want
                return "none", ("opt", ("unknown",))
            c = self.u.const_value(v, self.local_consts)
            if c is not None:
                if c[0] == "expr":
                    pre0 = []
                    term, t = self.expr(c[1], {}, pre0, c[2])
                    if pre0: raise RsError("constant %s with an effectful initialiser" % v)
                    self.check_ty(t, c[2], "constant " + v)
                    return "(%s : %s)" % (term, self.u.lt(t)), t
                return self.lit(c[0], c[1]), c[1]
            raise RsError("unknown identifier %s" % v)
        if len(segs) == 2 and segs[0] in UMAX and segs[1] == "MAX": return UMAX[segs[0]], ("int", segs[0])
        if len(segs) == 2 and segs[0] in UMAX and segs[1] == "MIN": return "0", ("int", segs[0])
        if len(segs) == 2 and segs[0] == "i64" and segs[1] in ("MAX", "MIN"): return "Rs.I64_" + segs[1], ("int", "i64")
        en = segs[-2] if segs[-2] != "Self" else self.impl
        if en in self.u.fi.enums and self.u.fi.enums[en] is not None and segs[-1] in self.u.fi.enums[en]:
            self.u.resolve(("named", en, []))
            return "%s.%s" % (en, lid(segs[-1])), ("enum", en)
        if segs[0] == "Self" and len(segs) == 2:
            c = self.u.const_value(segs[1], self.local_consts)
            if c is not None and c[0] != "expr": return self.lit(c[0], c[1]), c[1]
        if len(segs) == 2 and (segs[0] == "Self" or (self.impl is not None and segs[0] == self.impl)):
            # associated constant of the translated impl with a non-integer (e.g. array) initialiser
            c = self.u.const_value(segs[1], self.local_consts)
            if c is not None and c[0] == "expr":
                pre0 = []
                term, t = self.expr(c[1], {}, pre0, c[2])
                if pre0: raise RsError("constant %s with an effectful initialiser" % segs[1])
                self.check_ty(t, c[2], "constant " + segs[1])
                return "(%s : %s)" % (term, self.u.lt(t)), t
            if c is not None: return self.lit(c[0], c[1]), c[1]
        raise RsError("path %s is outside the subset" % "::".join(segs))

    def unary(self, e, env, pre, want):
        op = e[1]
        if op == "!":
            term, t = self.expr(e[2], env, pre, BOOL)
            if t != BOOL: raise RsError("bitwise not is outside the subset")
            return "(!%s)" % term, BOOL
        if op == "-":
            if e[2][0] == "int":
                t = ("int", e[2][2]) if e[2][2] else want
                if t is None or not is_sint(t): raise RsError("negative literal of a non-signed type")
                return "(%d : Int)" % (-e[2][1]), t
            term, t = self.expr(e[2], env, pre, want)
            if not is_sint(t): raise RsError("negation of a non-signed value")
            r = self.fresh()
            pre.append(("bind", r, MCall("Rs.ineg %s %s" % (IRNG[t[1]], term))))
            return r, t
        raise RsError("unary %s" % op)

    def operands(self, l, r, env, pre, want):
        """translate two operands of the same integer type (literal operands take the type of the other)"""
        lw = want if want is not None and is_int(want) else None
        if l[0] == "int" and not l[2]:
            b, bt = self.expr(r, env, pre, lw)
            a, at = self.expr(l, env, pre, bt if bt != INTLIT else lw)
        else:
            a, at = self.expr(l, env, pre, lw)
            b, bt = self.expr(r, env, pre, at if at != INTLIT else lw)
        if at == INTLIT and bt != INTLIT: at = bt
        if bt == INTLIT and at != INTLIT: bt = at
        return a, at, b, bt

    def binary(self, e, env, pre, want):
        _, op, l, r = e
        if op in ("&&", "||"):
            a, at = self.expr(l, env, pre, BOOL)
            pre2 = []
            b, bt = self.expr(r, env, pre2, BOOL)
            self.check_ty(at, BOOL, op); self.check_ty(bt, BOOL, op)
            if not pre2:
                return "(%s %s %s)" % (a, op, b), BOOL
            t = self.fresh("b")
            rhs = self.wrap(pre2, P(b))
            ir = If(a, rhs, P("false")) if op == "&&" else If(a, P("true"), rhs)
            pre.append(("bind", t, ir))
            return t, BOOL
        if op in ("==", "!=", "<", "<=", ">", ">="):
            a, at, b, bt = self._cmp_operands(l, r, env, pre)
            if at != bt:
                if not (at[0] == "opt" and bt[0] == "opt" and (at[1] == ("unknown",) or bt[1] == ("unknown",))):
                    raise RsError("comparison of different types %r and %r" % (at, bt))
                if at[1] == ("unknown",): at = bt
            if at == INTLIT: raise RsError("comparison of two untyped literals")
            if op in ("==", "!="):
                self.note_eq(at)
                return "(%s %s %s)" % (a, op, b), BOOL
            if not is_int(at): raise RsError("ordering comparison on a non-integer type %r" % (at,))
            lop = {"<": "<", "<=": "≤", ">": ">", ">=": "≥"}[op]
            return "(decide (%s %s %s))" % (a, lop, b), BOOL
        if op in ("+", "-", "*", "/", "%", "<<", ">>"):
            if op in ("<<", ">>"):
                a, at = self.expr(l, env, pre, want)
                b, bt = self.expr(r, env, pre, None)
                if bt == INTLIT: bt = ("int", "u32")
                if not is_uint(at) or not is_uint(bt): raise RsError("shift on non-unsigned operands")
                t = self.fresh()
                pre.append(("bind", t, MCall("Rs.%s %d %s %s" % ("ushl" if op == "<<" else "ushr", UBITS[at[1]], a, b))))
                return t, at
            a, at, b, bt = self.operands(l, r, env, pre, want)
            if at == INTLIT and bt == INTLIT:
                raise RsError("arithmetic on two untyped literals")
            if at != bt: raise RsError("arithmetic on different types %r and %r" % (at, bt))
            t = self.fresh()
            if is_uint(at):
                mx = UMAX[at[1]]
                call = {"+": "Rs.uadd %s %s %s" % (mx, a, b), "-": "Rs.usub %s %s" % (a, b),
                        "*": "Rs.umul %s %s %s" % (mx, a, b), "/": "Rs.udiv %s %s" % (a, b),
                        "%": "Rs.urem %s %s" % (a, b)}[op]
            elif is_sint(at):
                rng = IRNG[at[1]]
                call = "Rs.%s %s %s %s" % ({"+": "iadd", "-": "isub", "*": "imul", "/": "idiv", "%": "irem"}[op], rng, a, b)
            else:
                raise RsError("arithmetic on %r" % (at,))
            pre.append(("bind", t, MCall(call)))
            return t, at
        raise RsError("binary operator %s is outside the subset" % op)

    def _cmp_operands(self, l, r, env, pre):
        if l[0] == "int" or r[0] == "int":
            return self.operands(l, r, env, pre, None)
        a, at = self.expr(l, env, pre, None)
        b, bt = self.expr(r, env, pre, at)
        return a, at, b, bt

    def note_eq(self, t):
        for o in self.u.opaques_of(t, []):
            if o not in self.needs_deq: self.needs_deq.append(o)

    def cast(self, e, env, pre):
        to = self.u.resolve(e[2], self.impl)
        if not is_int(to): raise RsError("cast to a non-integer type")
        if e[1][0] == "int" and not e[1][2]:
            return self.lit(e[1][1], to), to
        term, fr = self.expr(e[1], env, pre, None)
        if fr == BOOL:
            return "(if %s then %s else %s)" % (term, self.lit(1, to), self.lit(0, to)), to
        if not is_int(fr): raise RsError("cast from %r" % (fr,))
        if is_uint(fr) and is_uint(to):
            if UBITS[to[1]] >= UBITS[fr[1]]: return term, to
            return "(Rs.utrunc %s %s)" % (UMAX[to[1]], term), to
        if is_uint(fr) and is_sint(to):
            if IBITS[to[1]] > UBITS[fr[1]]: return "(%s : Int)" % term, to
            return "(Rs.itrunc %d (%s : Int))" % (IBITS[to[1]], term), to
        if is_sint(fr) and is_uint(to):
            return "(Rs.utruncI %s %s)" % (UMAX[to[1]], term), to
        if is_sint(fr) and is_sint(to):
            if IBITS[to[1]] >= IBITS[fr[1]]: return term, to
            return "(Rs.itrunc %d %s)" % (IBITS[to[1]], term), to
        raise RsError("cast %r -> %r" % (fr, to))

    def value_control(self, e, env, pre, want):
        """if/match/block used as a value"""
        if self.has_return(e): raise RsError("return inside a value expression")
        box = []
        def fin(env2, t):
            if t is None:
                box.append(UNIT); return P("()")
            pre2 = []
            term, ty = self.expr(t, env2, pre2, want)
            box.append(ty)
            return self.wrap(pre2, P(term))
        if e[0] == "block":
            ir = self.stmts(e[1], e[2], env, fin)
        else:
            ir = self.control(e, env, fin)
        tys = [t for t in box if t != INTLIT]
        ty = tys[0] if tys else (want if want is not None else INTLIT)
        for t in tys:
            if t != ty and not (t[0] == "opt" and ty[0] == "opt"):
                raise RsError("branches of different types %r / %r" % (t, ty))
        for t in tys:
            if t[0] == "opt" and t[1] != ("unknown",): ty = t
        if isinstance(ir, P): return ir.term, ty
        if not monadic(ir): return inline(ir), ty
        v = self.fresh()
        pre.append(("bind", v, ir))
        return v, ty

    def try_(self, e, env, pre, want):
        x = e[1]
        # opt.ok_or(e)? / opt.ok_or_else(|| e)?
        if x[0] == "mcall" and x[2] in ("ok_or", "ok_or_else") and self.is_result:
            o, ot = self.expr(x[1], env, pre, None)
            if ot[0] != "opt": raise RsError("ok_or on a non-Option")
            arg = x[4][0]
            if x[2] == "ok_or_else":
                if arg[0] != "closure" or arg[1]: raise RsError("ok_or_else argument")
                arg = arg[2]
                if arg[0] == "block" and not arg[1]: arg = arg[2]
            pre2 = []
            tag = self.err_tag(arg, env, pre2)
            if pre2: raise RsError("error value with effects")
            v = self.fresh()
            pre.append(("bind", v, MCall("Rs.okOr %s %s" % (o, tag))))
            return v, ot[1]
        if x[0] in ("call", "mcall"):
            r = self.call_any(x, env, pre, want_result=True)
            if r[2] == "comp":
                if not self.is_result: raise RsError("? on a Result in a function that does not return Result")
                v = self.fresh()
                pre.append(("bind", v, MCall(r[0])))
                return v, r[1]
            term, t = r[0], r[1]
        else:
            term, t = self.expr(x, env, pre, None)
        if t[0] == "opt":
            if self.is_result or self.val_ty[0] != "opt": raise RsError("? on an Option in a function that does not return Option")
            if self.selfk == "mut" or self.mut_params: raise RsError("? on Option in a method that returns updated state")
            v = self.fresh()
            pre.append(("optq", v, term))
            return v, t[1]
        raise RsError("? on %r is outside the subset" % (t,))

    # ---- calls
    def closure1(self, c, argtys, env, want=None):
        """translate a closure with pure or effectful body: returns (param patterns, IR of body, type)"""
        if c[0] != "closure": raise RsError("expected a closure")
        if len(c[1]) != len(argtys): raise RsError("closure arity")
        env2 = dict(env)
        pats = [self.patp(p, t, env2) for p, t in zip(c[1], argtys)]
        pre = []
        if self.has_return(c[2]) or self.has_try(c[2]): raise RsError("return or ? inside a closure")
        term, t = self.expr(c[2], env2, pre, want)
        return pats, self.wrap(pre, P(term)), t

    def call_any(self, e, env, pre, want=None, want_result=False):
        """returns (term, type, 'val'|'comp')"""
        if e[0] == "call":
            return self.call(e, env, pre, want)
        return self.mcall(e, env, pre, want)

    def call_translated(self, info, args_terms, env, pre, self_term=None):
        if getattr(info, "mut_params", None): raise RsError("call of a function with &mut parameters is outside the subset")
        for x in info.exts: self.add_ext(*x)
        for o in getattr(info, "ext_ops", []): self.note_ext_opaque(o)
        for o in info.needs_deq:
            if o not in self.needs_deq: self.needs_deq.append(o)
        self.callees.append(info.lean_name)
        parts = [info.lean_name] + [n for n, _ in info.exts]
        if self_term is not None: parts.append(self_term)
        parts += args_terms
        call = " ".join(parts)
        if info.is_result and not info.mut_self:
            return call, info.val_ty, "comp"
        if info.monadic:
            v = self.fresh()
            pre.append(("bind", v, MCall(call)))
            return v, info.out_ty, "val"
        return "(" + call + ")", info.out_ty, "val"

    def args_for(self, info, args, env, pre):
        ps = [p for p in info.params if p[0] != "self"]
        if len(ps) != len(args): raise RsError("arity mismatch calling %s" % info.name)
        out = []
        for (pn, pt), a in zip(ps, args):
            term, t = self.expr(a, env, pre, pt)
            self.check_ty(t, pt, "argument %s of %s" % (pn, info.name))
            out.append(term if term.startswith("(") or " " not in term else "(" + term + ")")
        return out

    def call(self, e, env, pre, want):
        fn, args = e[1], e[2]
        if fn[0] != "path": raise RsError("call of a non-path")
        segs = fn[1]
        name = segs[-1]
        if segs == ["Some"]:
            w = want[1] if want is not None and want[0] == "opt" else None
            term, t = self.expr(args[0], env, pre, w)
            if t == INTLIT: raise RsError("Some(literal) without a type")
            return "(some %s)" % term, ("opt", t), "val"
        if segs in (["Ok"], ["Err"]): raise RsError("Ok/Err outside tail position")
        if segs in (["min"], ["max"], ["cmp", "min"], ["cmp", "max"], ["core", "cmp", "min"], ["core", "cmp", "max"]):
            a, at, b, bt = self.operands(args[0], args[1], env, pre, want)
            if at != bt or not is_int(at): raise RsError("min/max on %r, %r" % (at, bt))
            return "(%s %s %s)" % (name, a, b), at, "val"
        if len(segs) == 2 and segs[0] in UMAX and name == "try_from":
            term, t = self.expr(args[0], env, pre, None)
            if not is_uint(t): raise RsError("try_from from %r" % (t,))
            return "(Rs.utryFrom %s %s)" % (UMAX[segs[0]], term), ("tryres", ("int", segs[0])), "val"
        if len(segs) == 2 and segs[0] in UMAX and name == "from":
            term, t = self.expr(args[0], env, pre, None)
            if not is_uint(t) or UBITS[t[1]] > UBITS[segs[0]]: raise RsError("from %r" % (t,))
            return term, ("int", segs[0]), "val"
        if segs == ["Vec", "new"] and not args:
            if want is not None and want[0] == "vec": return "[]", want, "val"
            return "[]", ("vec", ("unknown",)), "val"
        impl = None
        if len(segs) == 2 and segs[0] in ("Self", self.impl): impl = self.impl
        elif len(segs) != 1: raise RsError("call of %s is outside the subset" % "::".join(segs))
        if name in self.u.externals and impl is None:
            return self.call_external(name, args, env, pre)
        if (impl, name) in self.u.fi.fns:
            info = self.u.get_fn(impl, name)
            if info.params and info.params[0][0] == "self":
                raise RsError("static call of a method")
            a = self.args_for(info, args, env, pre)
            return self.call_translated(info, a, env, pre)
        raise RsError("call of unknown function %s (not in this file, not declared external)" % "::".join(segs))

    def call_external(self, name, args, env, pre, recv=None):
        """`recv` = (term, type) of an already evaluated receiver: an external *method* (spec key "receiver") takes
        its receiver as first parameter.  A spec with "may_panic" is an `Rs.M`-valued parameter (the library function
        may panic), bound like any other partial operation."""
        spec = self.u.externals[name]
        pts = [self.u.parse_type(s, self.impl) for s in spec["params"]]
        rt = self.u.parse_type(spec["ret"], self.impl)
        lead = [recv] if recv is not None else []
        if len(pts) != len(args) + len(lead): raise RsError("external %s arity" % name)
        for t in pts + [rt]:      # opaque types that occur only in the external's signature are type parameters too
            for o in self.u.opaques_of(t, []): self.note_ext_opaque(o)
        terms = []
        for (term, t), pt in zip(lead, pts):
            self.check_ty(t, pt, "receiver of external %s" % name)
            terms.append(term if " " not in term or term.startswith("(") else "(" + term + ")")
        for a, pt in zip(args, pts[len(lead):]):
            term, t = self.expr(a, env, pre, pt)
            self.check_ty(t, pt, "argument of external %s" % name)
            terms.append(term if " " not in term or term.startswith("(") else "(" + term + ")")
        if not hasattr(self.u, "ext_specs"): self.u.ext_specs = {}
        self.u.ext_specs["ext_" + name] = (pts, rt, bool(spec.get("may_panic")))
        if spec.get("may_panic"):
            lty = " → ".join([self.u.lt(t, False) for t in pts] + ["Rs.M " + self.u.lt(rt, False)])
            self.add_ext("ext_" + name, lty)
            v = self.fresh()
            pre.append(("bind", v, MCall("ext_%s %s" % (name, " ".join(terms)))))
            return v, rt, "val"
        lty = " → ".join([self.u.lt(t, False) for t in pts] + [self.u.lt(rt, False)])
        self.add_ext("ext_" + name, lty)
        return "(ext_%s %s)" % (name, " ".join(terms)), rt, "val"

    def mcall(self, e, env, pre, want):
        _, recv, m, turbo, args, line = e
        # methods of the translated impl on self
        if recv == ("path", ["self"]) and self.impl and (self.impl, m) in self.u.fi.fns and m not in ("clone",):
            info = self.u.get_fn(self.impl, m)
            a = self.args_for(info, args, env, pre)
            if info.mut_self:
                if self.selfk != "mut": raise RsError("&mut self method called from a &self method")
                if info.is_result:
                    v = self.fresh("r")
                    call = " ".join([info.lean_name] + [n for n, _ in info.exts] + ["self"] + a)
                    for x in info.exts: self.add_ext(*x)
                    self.callees.append(info.lean_name)
                    if not self.is_result: raise RsError("Result method called outside a Result function")
                    if info.val_ty == UNIT:
                        pre.append(("bind", "self", MCall(call))); return "()", UNIT, "val"
                    pre.append(("bind", "(self, %s)" % v, MCall(call)))
                    return v, info.val_ty, "val"
                term, t, kind = self.call_translated(info, a, env, pre, "self")
                if info.val_ty == UNIT:
                    pre.append(("let", "self", term)); return "()", UNIT, "val"
                v = self.fresh("r")
                pre.append(("let", "(self, %s)" % v, term))
                return v, info.val_ty, "val"
            return self.call_translated(info, a, env, pre, "self")
        if recv[0] == "path" and len(recv[1]) == 1 and recv[1][0] not in env and recv[1][0] != "self":
            raise RsError("method call on unknown %s" % recv[1][0])
        if recv[0] == "path" and len(recv[1]) == 1 and recv[1][0] in env and env[recv[1][0]][0] == "struct" \
                and (env[recv[1][0]][1], m) in self.u.fi.fns and m != "clone":
            v = recv[1][0]
            info = self.u.get_fn(env[v][1], m)
            if info.mut_params: raise RsError("callee with &mut parameters")
            a = self.args_for(info, args, env, pre)
            if info.mut_self:
                if v not in self.mut_params: raise RsError("&mut self method on a receiver that is not a &mut parameter")
                if info.is_result: raise RsError("Result-returning &mut method on a parameter")
                term, t, kind = self.call_translated(info, a, env, pre, lid(v))
                if info.val_ty == UNIT:
                    pre.append(("let", lid(v), term)); return "()", UNIT, "val"
                r = self.fresh("r")
                pre.append(("let", "(%s, %s)" % (lid(v), r), term))
                return r, info.val_ty, "val"
            return self.call_translated(info, a, env, pre, lid(v))
        # place-mutating Option::take
        if m == "take" and not args:
            base, bt = self.expr(recv, env, pre, None)
            if bt[0] != "opt": raise RsError("take on a non-Option")
            v = self.fresh("old")
            pre.append(("let", v, base))
            self.place_set(recv, "none", env, pre)
            return v, bt, "val"
        base, bt = self.expr(recv, env, pre, None)
        k = bt[0]
        if m in self.u.externals and self.u.externals[m].get("receiver") is not None:
            # declared external method: only on a receiver of exactly the declared (opaque or view) type
            want_recv = self.u.parse_type(self.u.externals[m]["receiver"], self.impl)
            if bt == want_recv and not ((k == "struct") and (bt[1], m) in self.u.fi.fns):
                return self.call_external(m, args, env, pre, recv=(base, bt))
        if m in ("clone", "copied", "cloned", "as_ref", "to_owned", "borrow") and not args and k != "iter":
            return base, bt, "val"
        if m == "to_vec" and not args and k == "vec":
            return base, bt, "val"
        if m == "into" and not args:
            if want is not None and is_uint(want) and is_uint(bt) and UBITS[want[1]] >= UBITS[bt[1]]: return base, want, "val"
            if want is not None and want == bt: return base, bt, "val"
            raise RsError(".into() without a known widening target")
        if is_uint(bt) or bt == INTLIT:
            return self.int_method(base, bt, m, args, env, pre, want)
        if k == "opt": return self.opt_method(base, bt, m, args, env, pre, want)
        if k == "tryres": return self.tryres_method(base, bt, m, args, env, pre)
        if k == "vec" or k == "iter": return self.list_method(base, bt, m, turbo, args, env, pre, want)
        if k == "str" and m in ("to_string", "as_str", "to_owned") and not args: return base, bt, "val"
        if k == "map" and m == "get" and len(args) == 1:
            kk, kt = self.expr(args[0], env, pre, ("str",)); self.check_ty(kt, ("str",), "map key")
            return "(Rs.smapGet %s %s)" % (base, kk), ("opt", bt[2]), "val"
        if k == "map" and m == "contains_key" and len(args) == 1:
            kk, kt = self.expr(args[0], env, pre, ("str",)); self.check_ty(kt, ("str",), "map key")
            return "(Rs.smapGet %s %s).isSome" % (base, kk), BOOL, "val"
        raise RsError("method .%s on %r is outside the subset (line %d)" % (m, bt, line))

    def int_method(self, base, bt, m, args, env, pre, want):
        if bt == INTLIT: raise RsError("method on an untyped literal")
        mx = UMAX[bt[1]]
        def arg():
            term, t = self.expr(args[0], env, pre, bt)
            self.check_ty(t, bt, "argument of %s" % m)
            return term
        two = {"checked_add": ("Rs.ucheckedAdd %s" % mx, ("opt", bt)), "checked_sub": ("Rs.ucheckedSub", ("opt", bt)),
               "checked_mul": ("Rs.ucheckedMul %s" % mx, ("opt", bt)), "checked_div": ("Rs.ucheckedDiv", ("opt", bt)),
               "saturating_add": ("Rs.usatAdd %s" % mx, bt), "saturating_sub": ("Rs.usatSub", bt),
               "saturating_mul": ("Rs.usatMul %s" % mx, bt),
               "wrapping_add": ("Rs.uwrapAdd %s" % mx, bt), "wrapping_sub": ("Rs.uwrapSub %s" % mx, bt),
               "wrapping_mul": ("Rs.uwrapMul %s" % mx, bt), "min": ("min", bt), "max": ("max", bt)}
        if m in two and len(args) == 1:
            return "(%s %s %s)" % (two[m][0], base, arg()), two[m][1], "val"
        if m == "abs_diff" and len(args) == 1:
            b = arg()
            return "(if %s ≤ %s then %s - %s else %s - %s)" % (base, b, b, base, base, b), bt, "val"
        raise RsError("integer method .%s is outside the subset" % m)

    def tryres_method(self, base, bt, m, args, env, pre):
        t = bt[1]
        if m == "unwrap_or":
            d, dt = self.expr(args[0], env, pre, t); self.check_ty(dt, t, "unwrap_or")
            return "(%s.getD %s)" % (base, d), t, "val"
        if m in ("unwrap", "expect"):
            v = self.fresh(); pre.append(("bind", v, MCall("Rs.unwrap %s" % base))); return v, t, "val"
        if m == "ok": return base, ("opt", t), "val"
        if m == "is_ok": return "%s.isSome" % base, BOOL, "val"
        if m == "is_err": return "%s.isNone" % base, BOOL, "val"
        raise RsError("method .%s on try_from result" % m)

    def opt_method(self, base, bt, m, args, env, pre, want):
        el = bt[1]
        if m == "is_some": return "%s.isSome" % base, BOOL, "val"
        if m == "is_none": return "%s.isNone" % base, BOOL, "val"
        if m in ("unwrap", "expect"):
            v = self.fresh(); pre.append(("bind", v, MCall("Rs.unwrap %s" % base))); return v, el, "val"
        if m == "unwrap_or":
            d, dt = self.expr(args[0], env, pre, el); self.check_ty(dt, el, "unwrap_or")
            return "(%s.getD %s)" % (base, d), el, "val"
        if m == "unwrap_or_default" and is_uint(el):
            return "(%s.getD 0)" % base, el, "val"
        if m in ("unwrap_or_else", "or_else"):
            pats, ir, t = self.closure1(args[0], [], env, el if m == "unwrap_or_else" else bt)
            rt = el if m == "unwrap_or_else" else bt
            if not monadic(ir):
                fn = "Option.getD" if m == "unwrap_or_else" else "Option.or"
                return "(%s %s %s)" % (fn, base, inline(ir)), rt, "val"
            v = self.fresh()
            some = "x_some"
            pre.append(("bind", v, Match(base, [("some %s" % some, P(some if m == "unwrap_or_else" else "(some %s)" % some)), ("none", ir)])))
            return v, rt, "val"
        if m == "or":
            o, ot = self.expr(args[0], env, pre, bt)
            return "(%s.or %s)" % (base, o), bt, "val"
        if m in ("map", "and_then"):
            pats, ir, t = self.closure1(args[0], [el], env, None)
            if t == INTLIT: raise RsError("closure returning an untyped literal")
            rt = ("opt", t) if m == "map" else t
            if m == "and_then" and t[0] != "opt": raise RsError("and_then closure type")
            if not monadic(ir):
                fn = "Option.map" if m == "map" else "Option.bind"
                if m == "map":
                    return "(Option.map (fun %s => %s) %s)" % (pats[0], inline(ir), base), rt, "val"
                return "(Option.bind %s (fun %s => %s))" % (base, pats[0], inline(ir)), rt, "val"
            v = self.fresh()
            r = self.fresh("r")
            body = Bind(r, ir, P("(some %s)" % r if m == "map" else r))
            pre.append(("bind", v, Match(base, [("some %s" % pats[0], body), ("none", P("none"))])))
            return v, rt, "val"
        if m == "map_or":
            d, dt = self.expr(args[0], env, pre, want)
            pats, ir, t = self.closure1(args[1], [el], env, dt if dt != INTLIT else want)
            if monadic(ir): raise RsError("map_or with an effectful closure")
            if t == INTLIT: t = dt
            return "(match %s with | some %s => %s | none => %s)" % (base, pats[0], inline(ir), d), t, "val"
        raise RsError("Option method .%s is outside the subset" % m)

    def list_method(self, base, bt, m, turbo, args, env, pre, want):
        el = bt[1]
        if m in ("iter", "into_iter") and not args: return base, ("iter", el), "val"
        if bt[0] == "iter" and m in ("copied", "cloned") and not args: return base, bt, "val"
        if m == "len" and not args and bt[0] == "vec": return "%s.length" % base, ("int", "usize"), "val"
        if m == "is_empty" and not args and bt[0] == "vec": return "%s.isEmpty" % base, BOOL, "val"
        if m == "count" and not args and bt[0] == "iter": return "%s.length" % base, ("int", "usize"), "val"
        if m == "collect" and not args and bt[0] == "iter": return base, ("vec", el), "val"
        if m == "rev" and not args and bt[0] == "iter": return "%s.reverse" % base, bt, "val"
        if m == "first" and bt[0] == "vec": return "%s.head?" % base, ("opt", el), "val"
        if m == "last" and bt[0] == "vec": return "%s.getLast?" % base, ("opt", el), "val"
        if m == "contains" and bt[0] == "vec":
            x, xt = self.expr(args[0], env, pre, el); self.check_ty(xt, el, "contains"); self.note_eq(el)
            return "(%s.contains %s)" % (base, x), BOOL, "val"
        if bt[0] != "iter": raise RsError("method .%s on a vector is outside the subset" % m)
        if m == "map":
            pats, ir, t = self.closure1(args[0], [el], env, None)
            if t == INTLIT: raise RsError("closure returning an untyped literal")
            if not monadic(ir):
                return "(%s.map (fun %s => %s))" % (base, pats[0], inline(ir)), ("iter", t), "val"
            v = self.fresh("l")
            fn = "(fun %s => do\n%s)" % (pats[0], "\n".join(emit_m(ir, 8)))
            pre.append(("bind", v, MCall("List.mapM %s %s" % (fn, base))))
            return v, ("iter", t), "val"
        if m in ("filter", "any", "all"):
            pats, ir, t = self.closure1(args[0], [el], env, BOOL)
            if monadic(ir): raise RsError("effectful predicate closure")
            self.check_ty(t, BOOL, m)
            if m == "filter": return "(%s.filter (fun %s => %s))" % (base, pats[0], inline(ir)), bt, "val"
            return "(%s.%s (fun %s => %s))" % (base, m, pats[0], inline(ir)), BOOL, "val"
        if m == "sum" and not args:
            t = self.u.resolve(turbo, self.impl) if turbo is not None else (want if want is not None and is_int(want) else el)
            if t != el or not is_uint(t): raise RsError("sum over %r as %r" % (el, t))
            v = self.fresh("s")
            pre.append(("bind", v, MCall("Rs.usum %s %s" % (UMAX[t[1]], base))))
            return v, t, "val"
        if m == "fold" and len(args) == 2:
            init, it = self.expr(args[0], env, pre, want)
            if it == INTLIT: raise RsError("fold with an untyped initial value")
            pats, ir, t = self.closure1(args[1], [it, el], env, it)
            self.check_ty(t, it, "fold")
            if not monadic(ir):
                return "(List.foldl (fun %s %s => %s) %s %s)" % (pats[0], pats[1], inline(ir), init, base), it, "val"
            v = self.fresh("f")
            fn = "(fun %s %s => do\n%s)" % (pats[0], pats[1], "\n".join(emit_m(ir, 8)))
            pre.append(("bind", v, MCall("List.foldlM %s %s %s" % (fn, init, base))))
            return v, it, "val"
        raise RsError("iterator method .%s is outside the subset" % m)


MUT_METHODS = ("resize", "insert", "push", "clear", "truncate", "extend", "remove", "pop", "retain", "drain", "sort",
               "iter_mut", "push_front", "push_back", "pop_front", "pop_back", "append")


def fn_lean_lines(info):
    u = info.unit
    ops = []
    for _, t in info.params: u.opaques_of(t, ops)
    u.opaques_of(info.out_ty, ops)
    for o in getattr(info, "ext_ops", []):
        if o not in ops: ops.append(o)
    def ext_ty(n, t):
        spec = getattr(u, "ext_specs", {}).get(n)
        if spec is None: return t
        pts, rt, mp = spec
        return " → ".join([u.lt(x, False) for x in pts] + [("Rs.M " if mp else "") + u.lt(rt, False)])
    for n, t in info.exts:
        spec = getattr(u, "ext_specs", {}).get(n)
        if spec is not None:
            for x in spec[0] + [spec[1]]:
                for o in u.opaques_of(x, []):
                    if o not in ops: ops.append(o)
    sig = ""
    if ops: sig += " {%s : Type}" % " ".join(ops)
    for o in info.needs_deq: sig += " [DecidableEq %s]" % o
    for n, t in info.exts: sig += " (%s : %s)" % (n, ext_ty(n, t))
    for n, t in info.params: sig += " (%s : %s)" % (lid(n), u.lt(t))
    rt = u.lt(info.out_ty, not info.monadic)
    text = info.text.replace("/-", "/ -").replace("-/", "- /")
    L = ["/- %s:%d  %s%s" % (info.rel, info.line, (info.impl + "::") if info.impl else "", info.name)]
    # normalised Rust text, wrapped
    words, cur = text.split(" "), "   "
    for w in words:
        if len(cur) + len(w) > 110:
            L.append(cur.rstrip()); cur = "   "
        cur += w + " "
    L.append(cur.rstrip())
    if info.exts:
        L.append("   externals (trusted boundary, explicit parameters): " + ", ".join("%s : %s" % (n, ext_ty(n, t)) for n, t in info.exts))
    if info.dropped:
        L.append("   dropped: " + "; ".join(info.dropped))
    L.append("-/")
    if info.monadic:
        L.append("def %s%s : Rs.M %s := do" % (info.lean_name, sig, rt))
        L += emit_m(info.ir, 2)
    else:
        L.append("def %s%s : %s :=" % (info.lean_name, sig, rt))
        L += emit_p(info.ir, 2)
    return L
