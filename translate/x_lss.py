"""C17: compile the *real* lightning-storage-server value-authentication code into the harness.

`lightning-storage-server` is excluded from the workspace and needs tonic/protoc to build, so its
`lib/src/util.rs` (prepare_value_for_put / process_value_from_get / compute_hmac / add_to_hmac) and
`lib/src/chacha20.rs` are copied *verbatim* on every run into the generated Rust module
`harness/src/props/c17_lss_gen.rs`; only the five `use`/`cfg` lines that tie the file to its crate are
rewritten (crate paths → the wrapper module, `bitcoin_hashes` → the same crate as re-exported by
vls-core, `log::error!` → a no-op macro, the default-on `crypt` feature made unconditional).
Fail-closed: any of the expected lines missing raises.
"""
import os, re, hashlib
from rustsrc import read, ExtractError

HERE = os.path.dirname(os.path.abspath(__file__))
TARGET = os.path.join(os.path.dirname(HERE), "harness", "src", "props", "c17_lss_gen.rs")

REWRITES = [
    ("use crate::chacha20::ChaCha20;", "use super::chacha20::ChaCha20;", 1),
    ("use crate::Value;", "use super::Value;", 1),
    ("use bitcoin_hashes::", "use lightning_signer::bitcoin::hashes::", 2),
    ("use log::error;", "macro_rules! error { ($($t:tt)*) => {{}}; }", 1),
]


def balanced_fn(src, header):
    """verbatim text of the function whose header starts with `header` (balanced braces); fail closed"""
    i = src.find(header)
    if i < 0 or src.count(header) != 1:
        raise ExtractError("lss client/driver.rs: expected exactly one `%s`" % header)
    j = src.find("{", i)
    depth, k = 0, j
    while k < len(src):
        if src[k] == "{":
            depth += 1
        elif src[k] == "}":
            depth -= 1
            if depth == 0:
                return src[i:k + 1]
        k += 1
    raise ExtractError("lss client/driver.rs: unbalanced braces after `%s`" % header)


def extract(repo):
    util = read(repo, "lightning-storage-server/lib/src/util.rs")
    driver = read(repo, "lightning-storage-server/lib/src/client/driver.rs")
    # the list-level verifier of the client driver (used by PrivClient::get and by the conflict path of put): a pure
    # function over (key, Value) lists; the rest of driver.rs needs tonic and is not copied
    rach = balanced_fn(driver, "fn remove_and_check_hmacs(")
    for needle in ("process_value_from_get(", "ClientError::InvalidHmac(", "kvs: &mut Vec<(String, Value)>", "Result<(), ClientError>"):
        if needle not in rach:
            raise ExtractError("lss client/driver.rs: remove_and_check_hmacs no longer mentions `%s`; adapt translate/x_lss.py" % needle)
    if not re.search(r"InvalidHmac\(String,\s*i64\)", driver):
        raise ExtractError("lss client/driver.rs: ClientError::InvalidHmac(String, i64) not found")
    # PrivClient::get / PrivClient::put: the whole bodies, verbatim, behind a mock transport: the one expression that
    # talks to the server and the path to the shared secret are the only things rewritten (each must occur exactly as
    # expected, else fail closed).  `.await` disappears with the transport call, so the functions become synchronous.
    priv = driver[driver.index("impl PrivClient {"):] if "impl PrivClient {" in driver else None
    if priv is None:
        raise ExtractError("lss client/driver.rs: impl PrivClient not found")
    pget = balanced_fn(priv, "pub async fn get(")
    pput = balanced_fn(priv, "pub async fn put(")
    def rewrite(fn, name, edits):
        for old_, new_, cnt in edits:
            if fn.count(old_) != cnt:
                raise ExtractError("lss client/driver.rs: PrivClient::%s: expected %d x `%s`, found %d" % (name, cnt, old_, fn.count(old_)))
            fn = fn.replace(old_, new_)
        if ".await" in fn or "self." in fn:
            raise ExtractError("lss client/driver.rs: PrivClient::%s still refers to self/.await after the rewrite; adapt translate/x_lss.py" % name)
        return fn
    pget = rewrite(pget, "get", [
        ("pub async fn get(\n        &mut self,", "pub fn privclient_get(\n        shared_secret: &[u8],\n        transport: &mut dyn FnMut(String, &[u8]) -> Result<(Vec<(String, Value)>, Vec<u8>), ClientError>,", 1),
        ("self.client.get(key_prefix, &nonce).await?", "transport(key_prefix, &nonce)?", 1),
        ("&self.auth.shared_secret", "shared_secret", 1),
    ])
    pput = rewrite(pput, "put", [
        ("pub async fn put(\n        &mut self,", "pub fn privclient_put(\n        shared_secret: &[u8],\n        transport: &mut dyn FnMut(Vec<(String, Value)>, &[u8]) -> Result<Vec<u8>, ClientError>,", 1),
        ("self.client.put(kvs, &client_hmac).await", "transport(kvs, &client_hmac)", 1),
        ("&self.auth.shared_secret", "shared_secret", 2),
    ])
    for variant in ("InvalidServerHmac()", "PutConflict(Vec<(String, Value)>)"):
        if variant not in driver:
            raise ExtractError("lss client/driver.rs: ClientError::%s not found" % variant)
    chacha = read(repo, "lightning-storage-server/lib/src/chacha20.rs")
    model = read(repo, "lightning-storage-server/lib/src/model.rs")
    cargo = read(repo, "lightning-storage-server/lib/Cargo.toml")
    if not re.search(r"pub struct Value\s*\{[^}]*pub version:\s*i64,[^}]*pub value:\s*Vec<u8>,", model, re.S):
        raise ExtractError("lss model.rs: struct Value { version: i64, value: Vec<u8> } not found")
    if not re.search(r'default\s*=\s*\[\s*"crypt"\s*\]', cargo):
        raise ExtractError("lss Cargo.toml: feature `crypt` is no longer default; adapt translate/x_lss.py")
    src = util
    n_cfg = src.count('#[cfg(feature = "crypt")]')
    if n_cfg < 1:
        raise ExtractError("lss util.rs: no #[cfg(feature = \"crypt\")] found")
    src = src.replace('#[cfg(feature = "crypt")]\n', "")
    for old, new, cnt in REWRITES:
        if src.count(old) != cnt:
            raise ExtractError(f"lss util.rs: expected {cnt} x `{old}`, found {src.count(old)}")
        src = src.replace(old, new)
    for fn in ("prepare_value_for_put", "process_value_from_get", "remove_and_check_hmac", "append_hmac_to_value",
               "crypt_value", "compute_shared_hmac"):
        if not re.search(r"pub fn " + fn + r"\s*\(", src):
            raise ExtractError("lss util.rs: pub fn " + fn + " not found")
    out = ("// GENERATED by translate/x_lss.py from /repo/lightning-storage-server/lib/src/{util,chacha20}.rs on every\n"
           "// run of bin/check (verbatim apart from the crate-path `use` lines).  Do not edit by hand.\n"
           "#![allow(dead_code, unused_imports, unused_macros, unexpected_cfgs, clippy::all)]\n"
           "#[derive(Clone, Debug, PartialEq)]\npub struct Value {\n    pub version: i64,\n    pub value: Vec<u8>,\n}\n\n"
           "pub mod chacha20 {\n" + chacha + "\n}\n\n"
           "pub mod util {\n" + src + "\n}\n\n"
           "/// `remove_and_check_hmacs` of lib/src/client/driver.rs, verbatim; `ClientError` is reduced to the one variant\n"
           "/// the function constructs (the real enum also carries tonic transport errors)\n"
           "pub mod driver {\n"
           "    use super::util::{compute_shared_hmac, prepare_value_for_put, process_value_from_get};\n"
           "    use super::Value;\n"
           "    use lightning_signer::bitcoin::secp256k1::rand::rngs::OsRng;\n"
           "    use lightning_signer::bitcoin::secp256k1::rand::RngCore;\n"
           "    macro_rules! debug { ($($t:tt)*) => {{}}; }\n"
           "    macro_rules! error { ($($t:tt)*) => {{}}; }\n"
           "    #[derive(Debug)]\n"
           "    pub enum ClientError {\n        InvalidHmac(String, i64),\n        InvalidServerHmac(),\n        PutConflict(Vec<(String, Value)>),\n        /// mock transport failure\n        InvalidResponse,\n    }\n"
           "    pub " + rach.replace("\n", "\n    ") + "\n\n"
           "    /// `PrivClient::get`, verbatim behind a mock transport\n"
           "    " + pget.replace("\n    ", "\n") .replace("\n", "\n    ") + "\n\n"
           "    /// `PrivClient::put`, verbatim behind a mock transport\n"
           "    " + pput.replace("\n    ", "\n").replace("\n", "\n    ") + "\n}\n")
    old = open(TARGET).read() if os.path.exists(TARGET) else None
    if old != out:
        with open(TARGET, "w") as fh:
            fh.write(out)
    facts = {"lss_util_sha256": hashlib.sha256(util.encode()).hexdigest()[:16], "crypt_cfg_sites": n_cfg,
             "lss_driver_remove_and_check_hmacs_sha256": hashlib.sha256(rach.encode()).hexdigest()[:16]}
    return {}, {"C17": {"facts": facts, "obligations": []}}
