"""C13/C14/C15: constants of the chain tracker, the channel monitor and channel pruning.

From vls-core/src/chain/tracker.rs: MAX_REORG_SIZE (both cfg variants; the default build uses the
`not(feature = "tracker_size_workaround")` one), the testnet 20-minute rule (`60 * 20`), the per-network
`max_target` shifts; from monitor.rs: MIN_DEPTH, MAX_CLOSING_DEPTH, MAX_COMMITMENT_OUTPUTS; from node.rs:
CHANNEL_STUB_PRUNE_BLOCKS and the regtest allowance; from the pinned rust-bitcoin crate (version taken from
Cargo.lock, source in the cargo registry): DIFFCHANGE_INTERVAL.
"""
import re, os, glob
from rustsrc import read, strip_comments, const_value, int_expr, body_after, ExtractError


def _bitcoin_constants(repo):
    lock = read(repo, "Cargo.lock")
    m = re.search(r'name = "bitcoin"\nversion = "([^"]+)"', lock)
    if not m:
        raise ExtractError("bitcoin crate version not found in Cargo.lock")
    ver = m.group(1)
    home = os.environ.get("CARGO_HOME", os.path.expanduser("~/.cargo"))
    cands = glob.glob(os.path.join(home, "registry", "src", "*", "bitcoin-" + ver, "src", "blockdata", "constants.rs"))
    if not cands:
        raise ExtractError("rust-bitcoin %s sources not found in the cargo registry" % ver)
    src = strip_comments(open(cands[0]).read())
    return ver, int_expr(const_value(src, "DIFFCHANGE_INTERVAL"))


def extract(repo):
    tr = strip_comments(read(repo, "vls-core/src/chain/tracker.rs"))
    mo = strip_comments(read(repo, "vls-core/src/monitor.rs"))
    no = strip_comments(read(repo, "vls-core/src/node.rs"))

    # MAX_REORG_SIZE: two cfg variants
    variants = re.findall(r'#\[cfg\((not\()?feature\s*=\s*"tracker_size_workaround"\)?\)\]\s*pub const MAX_REORG_SIZE\s*:\s*usize\s*=\s*(\d+)\s*;', tr)
    if len(variants) != 2:
        raise ExtractError("MAX_REORG_SIZE: expected two cfg variants, got %r" % (variants,))
    max_reorg = {("default" if neg else "workaround"): int(v) for neg, v in variants}
    if set(max_reorg) != {"default", "workaround"}:
        raise ExtractError("MAX_REORG_SIZE variants unclear: %r" % (variants,))
    if not re.search(r"self\.headers\.truncate\(Self::MAX_REORG_SIZE - 1\)", tr):
        raise ExtractError("add_block no longer truncates the header window to MAX_REORG_SIZE - 1")

    m = re.search(r"header\.time\s*>\s*prev_header\.time\s*\+\s*(\d+(?:\s*\*\s*\d+)*)", tr)
    if not m:
        raise ExtractError("testnet 20-minute rule not found")
    testnet_gap = int_expr(m.group(1))
    if not re.search(r"\(height \+ 1\) % DIFFCHANGE_INTERVAL == 0", tr):
        raise ExtractError("retarget boundary test `(height + 1) % DIFFCHANGE_INTERVAL == 0` not found")

    body = body_after(tr, r"pub fn max_target\s*\(")
    tgt = {}
    for net, mant, a, b in re.findall(r"Network::(\w+)\s*=>\s*(0x[0-9a-fA-F]+)u128\s*<<\s*\((\d+)\s*-\s*(\d+)\)", body):
        tgt[net] = (int(mant, 16), int(a) - int(b) + 128)       # upper 128 bits of a 256-bit big-endian number
    if set(tgt) != {"Regtest", "Testnet", "Bitcoin"}:
        raise ExtractError("max_target: unexpected arms %r" % sorted(tgt))

    # validator majority rule
    va = strip_comments(read(repo, "vls-core/src/policy/validator.rs"))
    if not re.search(r"let required_majority = \(trusted_oracle_pubkeys\.len\(\) \+ 1\) / 2;", va):
        raise ExtractError("validate_block: required_majority expression changed")
    if not re.search(r"if key_matches < required_majority", va):
        raise ExtractError("validate_block: majority comparison changed")

    min_depth = int_expr(const_value(mo, "MIN_DEPTH"))
    max_closing_depth = int_expr(const_value(mo, "MAX_CLOSING_DEPTH"))
    max_commit_outs = int_expr(const_value(mo, "MAX_COMMITMENT_OUTPUTS"))
    # is_done uses MIN_DEPTH for all three events
    isdone = body_after(mo, r"fn is_done\(&self\) -> bool\s*")
    lims = re.findall(r"deep_enough_and_saw_node_forget\(self\.(\w+),\s*(\w+)\)", isdone)
    if lims != [("funding_double_spent_height", "MIN_DEPTH"), ("mutual_closing_height", "MIN_DEPTH"),
                ("closing_swept_height", "MIN_DEPTH")]:
        raise ExtractError("State::is_done: unexpected events/limits %r" % (lims,))
    deep = body_after(mo, r"fn deep_enough_and_saw_node_forget\(")
    if not re.search(r"if depth < limit\s*\{", deep):
        raise ExtractError("deep_enough_and_saw_node_forget: depth comparison changed")

    stub_prune = int_expr(const_value(no, "CHANNEL_STUB_PRUNE_BLOCKS"))
    m = re.search(r"Network::Regtest\s*=>\s*CHANNEL_STUB_PRUNE_BLOCKS\s*\+\s*(\d+)", no)
    if not m:
        raise ExtractError("prune_channels: regtest stub allowance not found")
    stub_regtest_extra = int(m.group(1))
    if not re.search(r"tracker\.height\(\)\.saturating_sub\(stub\.blockheight\)\s*>\s*stub_prune_time", no):
        raise ExtractError("prune_channels: stub age comparison changed")

    # find_or_create_channel: high-water-mark guard, then the capacity guard, then the slot lookup (this order)
    po = strip_comments(read(repo, "vls-core/src/policy/mod.rs"))
    max_channels_default = int_expr(const_value(po, "MAX_CHANNELS"))
    if not re.search(r"fn max_channels\(&self\) -> usize \{\s*MAX_CHANNELS\s*\}", po):
        raise ExtractError("Policy::max_channels: default is no longer MAX_CHANNELS")
    cbody = body_after(no, r"fn find_or_create_channel\(")
    i_hwm = cbody.find("if self.get_state().dbid_high_water_mark >= dbid {")
    i_cap = cbody.find("if channels.len() >= policy.max_channels() {")
    i_get = cbody.find("let maybe_slot = channels.get(&channel_id);")
    if not (0 <= i_hwm < i_cap < i_get):
        raise ExtractError("find_or_create_channel: high-water-mark guard / capacity guard / slot lookup changed shape or order")
    if not re.search(r"self\.find_or_create_channel\(channel_id, arc_self, Some\(dbid\)\)", body_after(no, r"pub fn new_channel\(")):
        raise ExtractError("new_channel no longer passes its dbid to the monotonicity guard")

    # does forget_channel persist the tracker entry (which carries the monitor's forget flag)?
    fbody = body_after(no, r"pub fn forget_channel\(")
    forget_persists_tracker = "update_tracker" in fbody
    if not re.search(r"if channel_id\.oid\(\) > node_state\.dbid_high_water_mark", fbody):
        raise ExtractError("forget_channel: high-water-mark update not found")

    # remove_block: which hash is compared with the streamed block / handed to the proof check
    m = re.search(r"let tip_block_hash = ([\w.()]+);", tr)
    if not m:
        raise ExtractError("remove_block: `let tip_block_hash = ...` not found")
    if m.group(1) == "prev_headers.0.block_hash()":
        remove_expects_tip_hash = False
    elif m.group(1) == "self.tip.0.block_hash()":
        remove_expects_tip_hash = True
    else:
        raise ExtractError("remove_block: unexpected tip_block_hash expression " + m.group(1))
    # fix b36e377: add_block / remove_block abort the stream on Err
    if len(re.findall(r"if res\.is_err\(\) && streamed \{\s*self\.abort_streamed_block\(\);", tr)) != 2:
        raise ExtractError("add_block/remove_block: abort of a refused streamed request not found")

    # apply_backward_change(FundingConfirmed): hard assert, or tolerant of a monitor created after the block (F18)
    back = body_after(mo, r"fn apply_backward_change\(")
    arm = re.search(r"StateChange::FundingConfirmed\(outpoint\) => \{(.*?)adds\.push\(outpoint\);", back, re.S)
    if not arm:
        raise ExtractError("apply_backward_change: FundingConfirmed arm not found")
    if "assert_eq!(self.funding_height, Some(self.height))" not in arm.group(1):
        raise ExtractError("apply_backward_change(FundingConfirmed): height assertion not found")
    funding_undo_tolerant = "if self.funding_height.is_some()" in arm.group(1)

    # on_transaction_end: unilateral close whose commitment info is not available (old revoked commitment):
    # `.expect(..)` (finding F20) or fall back to watching all unattributed outputs
    m = re.search(r"get_spendable_htlc_indices\(&closing_tx, commitment_number\)\s*\.(expect|unwrap_or_else)\(", mo)
    if not m:
        raise ExtractError("on_transaction_end: get_spendable_htlc_indices call not found")
    spendable_fallback = m.group(1) == "unwrap_or_else"

    # handler.rs, arms AddBlock / RemoveBlock / BlockChunk (Model/TrackerHandler.lean): which tracker outcomes are
    # answered by a reply, which abort the process, and that the tracker entry is persisted only after Ok
    ha = strip_comments(read(repo, "vls-protocol-signer/src/handler.rs"))
    def arm(name, nxt):
        m = re.search(r"Message::%s\(m\) => \{(.*?)Message::%s\(" % (name, nxt), ha, re.S)
        if not m:
            raise ExtractError("handler.rs: arm Message::%s not found (or not followed by Message::%s)" % (name, nxt))
        return m.group(1)
    a_add, a_rem, a_chunk = arm("AddBlock", "RemoveBlock"), arm("RemoveBlock", "BlockChunk"), arm("BlockChunk", "GetHeartbeat")
    none_arm = r"None => \{\s*tracker\.abort_streamed_block\(\);\s*return Err\(Status::invalid_argument\("
    for nm, body in (("AddBlock", a_add), ("RemoveBlock", a_rem)):
        if not re.search(none_arm, body):
            raise ExtractError("handler.rs %s: a missing proof is no longer answered by abort_streamed_block + invalid_argument" % nm)
        if len(re.findall(r"\.update_tracker\(", body)) != 1:
            raise ExtractError("handler.rs %s: expected exactly one update_tracker call" % nm)
    i_call, i_ok = a_add.find(".add_block("), a_add.find("Ok(_) => ()")
    i_orph = a_add.find("Err(TrackerError::OrphanBlock(msg)) =>")
    i_panic, i_persist = a_add.find('Err(_e) => panic!("add_block")'), a_add.find(".update_tracker(")
    if not (0 <= i_call < i_ok < i_orph < i_panic < i_persist):
        raise ExtractError("handler.rs AddBlock: Ok / OrphanBlock reply / panic / update_tracker changed shape or order")
    if not re.search(r"Err\(TrackerError::OrphanBlock\(msg\)\) => \{\s*return Ok\(Box::new\(msgs::SignerError \{\s*code: msgs::CODE_ORPHAN_BLOCK", a_add):
        raise ExtractError("handler.rs AddBlock: an orphan block is no longer answered by SignerError{CODE_ORPHAN_BLOCK}")
    i_rm, i_rp = a_rem.find('tracker.remove_block(proof, prev_headers).expect("remove_block");'), a_rem.find(".update_tracker(")
    if not (0 <= i_rm < i_rp):
        raise ExtractError("handler.rs RemoveBlock: `remove_block(..).expect(..)` followed by update_tracker not found")
    if 'tracker.block_chunk(m.hash, m.offset, &m.content.0).expect("block_chunk");' not in a_chunk or "update_tracker" in a_chunk:
        raise ExtractError("handler.rs BlockChunk: arm changed shape")

    btc_ver, diffchange = _bitcoin_constants(repo)

    lean = "namespace VlsModel.Gen.Chain\n"
    lean += f"def maxReorgSize : Nat := {max_reorg['default']}\n"
    lean += f"def maxReorgSizeWorkaround : Nat := {max_reorg['workaround']}\n"
    lean += f"def diffchangeInterval : Nat := {diffchange}\n"
    lean += f"def testnetMinDifficultyGap : Nat := {testnet_gap}\n"
    for net in ("Regtest", "Testnet", "Bitcoin"):
        lean += f"def maxTarget{net} : Nat := {tgt[net][0]} <<< {tgt[net][1]}\n"
    lean += f"def minDepth : Nat := {min_depth}\n"
    lean += f"def maxClosingDepth : Nat := {max_closing_depth}\n"
    lean += f"def maxCommitmentOutputs : Nat := {max_commit_outs}\n"
    lean += f"def channelStubPruneBlocks : Nat := {stub_prune}\n"
    lean += f"def channelStubPruneRegtestExtra : Nat := {stub_regtest_extra}\n"
    lean += f"def maxChannelsDefault : Nat := {max_channels_default}\n"
    lean += f"def forgetPersistsTracker : Bool := {'true' if forget_persists_tracker else 'false'}\n"
    lean += f"def removeExpectsTipHash : Bool := {'true' if remove_expects_tip_hash else 'false'}\n"
    lean += f"def fundingUndoTolerant : Bool := {'true' if funding_undo_tolerant else 'false'}\n"
    lean += f"def spendableFallback : Bool := {'true' if spendable_fallback else 'false'}\n"
    lean += "end VlsModel.Gen.Chain\n"
    facts = {"MAX_REORG_SIZE": max_reorg, "DIFFCHANGE_INTERVAL": diffchange, "rust_bitcoin": btc_ver,
             "testnet_20min_gap_s": testnet_gap, "max_target": {k: "0x%x << %d" % v for k, v in tgt.items()},
             "MIN_DEPTH": min_depth, "MAX_CLOSING_DEPTH": max_closing_depth,
             "MAX_COMMITMENT_OUTPUTS": max_commit_outs, "CHANNEL_STUB_PRUNE_BLOCKS": stub_prune,
             "stub_regtest_extra": stub_regtest_extra, "MAX_CHANNELS": max_channels_default,
             "handler_block_arms": {"AddBlock": "no proof: abort stream + invalid_argument; Ok: persist + reply; OrphanBlock: SignerError reply; other Err: panic",
                                    "RemoveBlock": "no proof: abort stream + invalid_argument; Ok: persist + reply; any Err: expect -> panic",
                                    "BlockChunk": "expect -> panic; no persist"},
             "new_channel_guards": "dbid_high_water_mark >= dbid; channels.len() >= policy.max_channels(); slot lookup",
             "required_majority": "(n + 1) / 2",
             "is_done_events": [e for e, _ in lims],
             "forget_channel_persists_tracker": forget_persists_tracker,
             "unknown_commitment_close_watches_all_outputs": spendable_fallback,
             "funding_undo_tolerant_of_late_monitor": funding_undo_tolerant,
             "remove_block_streamed_hash": "tip" if remove_expects_tip_hash else "previous header (finding F17)"}
    obl = ["Gen.Chain: maxReorgSize >= 1, diffchangeInterval > 0, minDepth > 0 (theorem *_gen_ok)"]
    return {"Chain.lean": lean}, {p: {"facts": facts, "obligations": obl} for p in ("C13", "C14", "C15")}
