"""C06: prune-time constants of node.rs and the fixed keysend expiry (payment_state_from_keysend)."""
import re
from rustsrc import read, strip_comments, body_after, const_value, int_expr, ExtractError


def secs(expr):
    m = re.fullmatch(r"Duration::from_secs\((.*)\)", expr.strip())
    if not m:
        raise ExtractError("not a Duration::from_secs(..) constant: " + expr)
    return int_expr(m.group(1))


def extract(repo):
    src = strip_comments(read(repo, "vls-core/src/node.rs"))
    inv = secs(const_value(src, "INVOICE_PRUNE_TIME"))
    key = secs(const_value(src, "KEYSEND_PRUNE_TIME"))
    body = body_after(src, r"fn\s+payment_state_from_keysend\s*\(")
    m = re.search(r"expiry_duration\s*:\s*(Duration::from_secs\([^)]*\))", body)
    if not m:
        raise ExtractError("payment_state_from_keysend: expiry_duration not found")
    kexp = secs(m.group(1))
    pt = body_after(src, r"fn\s+prune_time\s*\(")
    if not re.search(r"PaymentType::Invoice\s*=>\s*INVOICE_PRUNE_TIME", pt) or \
       not re.search(r"PaymentType::Keysend\s*=>\s*KEYSEND_PRUNE_TIME", pt):
        raise ExtractError("prune_time: unexpected arms")
    # HTLC trim threshold of `validate_commitment_tx` (policy-commitment-outputs-trimmed)
    tu = strip_comments(read(repo, "vls-core/src/util/transaction_utils.rs"))
    min_dust = int_expr(const_value(tu, "MIN_DUST_LIMIT_SATOSHIS"))
    sv = strip_comments(read(repo, "vls-core/src/policy/simple_validator.rs"))
    vb = body_after(sv, r"fn\s+validate_commitment_tx\s*\(")
    for side, w in (("offered", "htlc_timeout_tx_weight"), ("received", "htlc_success_tx_weight")):
        if not re.search(r"let\s+%s_htlc_dust_limit\s*=\s*if\s+setup\.is_zero_fee_htlc\(\)\s*\{\s*MIN_CHAN_DUST_LIMIT_SATOSHIS\s*\}\s*"
                         r"else\s*\{\s*MIN_DUST_LIMIT_SATOSHIS\s*\+\s*\(\s*info\.feerate_per_kw\s+as\s+u64\s*\*\s*%s\(&setup\.features\(\)\)\s*/\s*1000\s*\)\s*\}" % (side, w), vb):
            raise ExtractError("validate_commitment_tx: unexpected shape of %s_htlc_dust_limit" % side)
        if not re.search(r"if\s+htlc\.value_sat\s*<\s*%s_htlc_dust_limit\s*\{\s*policy_err!\(\s*self\s*,\s*\"policy-commitment-outputs-trimmed\"" % side, vb):
            raise ExtractError("validate_commitment_tx: the %s-HTLC trim refusal is not where it was" % side)
    lean = ("namespace VlsModel.Gen.Payments\n"
            f"def minDustLimit : Nat := {min_dust}\n"
            f"def invoicePruneTime : Nat := {inv}\n"
            f"def keysendPruneTime : Nat := {key}\n"
            f"def keysendExpiry : Nat := {kexp}\n"
            "end VlsModel.Gen.Payments\n")
    return {"Payments.lean": lean}, {"C06": {"facts": {"INVOICE_PRUNE_TIME": inv, "KEYSEND_PRUNE_TIME": key,
                                                        "keysend_expiry_secs": kexp,
                                                        "MIN_DUST_LIMIT_SATOSHIS": min_dust,
                                                        "htlc_trim_threshold": "MIN_DUST_LIMIT_SATOSHIS + feerate_per_kw * htlc_{timeout,success}_tx_weight / 1000, strict <, tag policy-commitment-outputs-trimmed"},
                                             "obligations": []}}
