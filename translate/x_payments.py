"""C06: prune-time constants of node.rs and the fixed keysend expiry (payment_state_from_keysend)."""
import re
from rustsrc import read, strip_comments, body_after, const_value, int_expr, ExtractError


def secs(expr):
    m = re.fullmatch(r"Duration::from_secs\((.*)\)", expr.strip())
    if not m:
        raise ExtractError("not a Duration::from_secs(..) constant: " + expr)
    return int_expr(m.group(1))


def extract(repo):
    src = strip_comments(read(repo, "vls-core/src/node.rs"))
    inv = secs(const_value(src, "INVOICE_PRUNE_TIME"))
    key = secs(const_value(src, "KEYSEND_PRUNE_TIME"))
    body = body_after(src, r"fn\s+payment_state_from_keysend\s*\(")
    m = re.search(r"expiry_duration\s*:\s*(Duration::from_secs\([^)]*\))", body)
    if not m:
        raise ExtractError("payment_state_from_keysend: expiry_duration not found")
    kexp = secs(m.group(1))
    pt = body_after(src, r"fn\s+prune_time\s*\(")
    if not re.search(r"PaymentType::Invoice\s*=>\s*INVOICE_PRUNE_TIME", pt) or \
       not re.search(r"PaymentType::Keysend\s*=>\s*KEYSEND_PRUNE_TIME", pt):
        raise ExtractError("prune_time: unexpected arms")
    lean = ("namespace VlsModel.Gen.Payments\n"
            f"def invoicePruneTime : Nat := {inv}\n"
            f"def keysendPruneTime : Nat := {key}\n"
            f"def keysendExpiry : Nat := {kexp}\n"
            "end VlsModel.Gen.Payments\n")
    return {"Payments.lean": lean}, {"C06": {"facts": {"INVOICE_PRUNE_TIME": inv, "KEYSEND_PRUNE_TIME": key,
                                                        "keysend_expiry_secs": kexp},
                                             "obligations": []}}
