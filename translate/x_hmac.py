"""C17: the byte-assembly functions that build and check the HMACs of externally stored state, translated from the
current Rust source into Lean definitions -> lean/VlsModel/Gen/HmacFn.lean (namespaces Core / Lss / LssDrv).

Own, self-contained mini translator (own lexer + parser; no dependency on rsparse/rs2lean) for the small subset these
functions use: straight-line `let`, `engine.input(..)`, `vec.append(..)`, `split_off`, `for` over a record list (also
`iter_mut`), calls of other translated functions (with `&mut` arguments), `?`, `if c { ..; return Err(..) }`, tail
`if a == b { Ok(()) } else { Err(()) }`, struct literals / field assignment of the helper struct.  Semantics of the
library calls: lean/VlsModel/Prim/HmacEng.lean (+ Prim/Rs.lean for the outcome monad).  The MAC is a parameter `mac`.

Fail closed per function: a function outside the subset is not emitted (`-- NOT TRANSLATED: reason`), so the theorem of
lean/VlsModel/Props/C17Fn.lean that mentions it stops building and `bin/check C17` reports the broken obligation.  A
target whose tying theorem is missing from Props/C17Fn.lean raises (configuration error)."""
import os, re, hashlib
from rustsrc import ExtractError

HERE = os.path.dirname(os.path.abspath(__file__))

# area -> (file, [(impl or None, fn, tying theorem)])
AREAS = [
    ("Core", "vls-core/src/persist/mod.rs", [
        (None, "add_to_hmac", "C17_fn_core_add_to_hmac"),
        (None, "compute_shared_hmac", "C17_fn_core_compute_shared_hmac"),
        ("ExternalPersistHelper", "new", "C17_fn_helper_new"),
        ("ExternalPersistHelper", "new_nonce", "C17_fn_helper_new_nonce"),
        ("ExternalPersistHelper", "client_hmac", "C17_fn_helper_client_hmac"),
        ("ExternalPersistHelper", "server_hmac", "C17_fn_helper_server_hmac"),
        ("ExternalPersistHelper", "check_hmac", "C17_fn_helper_check_hmac"),
    ]),
    ("Lss", "lightning-storage-server/lib/src/util.rs", [
        (None, "add_to_hmac", "C17_fn_lss_add_to_hmac"),
        (None, "compute_hmac", "C17_fn_lss_compute_hmac"),
        (None, "compute_shared_hmac", "C17_fn_lss_compute_shared_hmac"),
        (None, "append_hmac_to_value", "C17_fn_lss_append_hmac_to_value"),
        (None, "remove_and_check_hmac", "C17_fn_lss_remove_and_check_hmac"),
        (None, "prepare_value_for_put", "C17_fn_lss_prepare_value_for_put"),
        (None, "process_value_from_get", "C17_fn_lss_process_value_from_get"),
    ]),
    ("LssDrv", "lightning-storage-server/lib/src/client/driver.rs", [
        (None, "remove_and_check_hmacs", "C17_fn_lss_remove_and_check_hmacs"),
    ]),
    # C16: the on-disk record format of the redb store (version ‖ value), the pure part around the redb calls
    # the type conversions of the LSS front end (inside async glue that is not translated): what is sent / taken over
    ("Frontend", "vls-frontend/src/external_persist/lss.rs", [
        ("Client", "put#map", "C17_fn_frontend_put_conv"),
        ("Client", "get#map", "C17_fn_frontend_get_conv"),
    ]),
    # the glue that acts on the verdict of check_hmac when the signer starts (async; the awaits are rewritten, see GLUE_RULES)
    ("Glue", "vls-util/src/persist.rs", [
        ("ExternalPersistWithHelper", "init_state", "C17_fn_init_state"),
    ]),
    ("Redb", "vls-persist/src/kvv/redb.rs", [
        ("RedbKVVStore", "encode_vv", "C16_gen_encode_vv"),
        ("RedbKVVStore", "decode_vv", "C16_gen_decode_vv"),
    ]),
]
# area -> (property, generated file, Props file with the tying theorems); default: C17 / HmacFn.lean / C17Fn.lean
AREA_OUT = {"Redb": ("C16", "KvvBytesFn.lean", "C16Gen.lean")}
# struct declarations read from other files; functions of other areas callable by bare name
STRUCT_FILES = {"Lss": ["lightning-storage-server/lib/src/model.rs"], "LssDrv": ["lightning-storage-server/lib/src/model.rs"],
                "Frontend": ["lightning-storage-server/lib/src/model.rs"]}
IMPORT_FNS = {"LssDrv": "Lss", "Frontend": "Lss", "Glue": "Core"}
STRUCT_FILES["Glue"] = ["vls-core/src/persist/mod.rs"]
# async idioms of an area, rewritten in the source text before parsing (regex, replacement, expected count); fail closed
GLUE_RULES = {"Glue": [
    (r"let client = self\.persist_client\.lock\(\)\.await;", "", 1),            # the handle of the storage client
    (r"\bclient\.get\(([^;]*)\)\.await\.unwrap\(\)", r"client_get(\1)", 1),     # the read: an explicit parameter (transport errors panic)
    (r"\basync fn\b", "fn", None),
]}
# values that only stand for a `&dyn Trait` argument
DYN_CTORS = {"SimpleEntropy": "EntropySource"}
# external calls with a result (after GLUE_RULES): name -> (parameter types, result type)
EXT_CALLS = {"client_get": (["String", "&[u8]"], "(Mutations, Vec<u8>)")}
# functions that are not translated but passed in as explicit parameters (trusted boundary)
EXTERNAL_FNS = {"crypt_value": (["bytes", "bytes", "i64", "bytes"], 3)}   # (param kinds, index of the &mut [u8] that is replaced by the result)
# result types of methods of `&dyn Trait` parameters (declared in other files; the value becomes an explicit parameter)
DYN_METHODS = {"get_secure_random_bytes": "bytes"}
# `use a::B as C` renames of structs
STRUCT_ALIAS = {"LssValue": "Value"}
# closures inside functions that cannot be translated as a whole (async glue): "<fn>#<method the closure is passed to>"
# -> (parameter types, result type); the closure is emitted as the function `<fn>_<method>`
CLOSURES = {("Client", "put#map"): (["(String, (u64, Vec<u8>))"], "(String, Value)"),
            ("Client", "get#map"): (["(String, Value)"], "(String, (u64, Vec<u8>))")}


class HmErr(Exception):
    pass


# ---------------------------------------------------------------------------------------------- lexer
_tok = re.compile(r"""(?P<ws>\s+)|(?P<lc>//[^\n]*)|(?P<bc>/\*.*?\*/)|(?P<str>b?"(?:[^"\\]|\\.)*")
  |(?P<life>'[A-Za-z_]\w*(?!'))|(?P<int>0x[0-9a-fA-F_]+|\d[\d_]*)(?:u8|u16|u32|u64|usize|i64)?|(?P<id>[A-Za-z_]\w*)
  |(?P<p>::|->|=>|==|!=|<=|>=|&&|\|\||\.\.|[-+*/%^!&|=<>@.,;:#$?()\[\]{}])""", re.X | re.S)


def lex(src):
    out, i, line = [], 0, 1
    while i < len(src):
        m = _tok.match(src, i)
        if not m: raise HmErr("lexer: unexpected %r at line %d" % (src[i], line))
        k = m.lastgroup
        if k not in ("ws", "lc", "bc"):
            out.append((k, m.group(k) if k == "int" else m.group(0), line))
        line += m.group(0).count("\n"); i = m.end()
    return out


class Index:
    """functions by (impl, name) -> token index of `fn`; struct declarations"""
    def __init__(self, rel, src):
        self.rel, self.t = rel, lex(src)
        self.fns, self.structs, self.newtypes = {}, {}, {}
        t, stack, i, n = self.t, [], 0, len(self.t)
        while i < n:
            k, s, _ = t[i]
            infn = any(x[0] == "fn" for x in stack)
            if k == "id" and s == "impl" and not infn:
                j, d, name, seen_for = i + 1, 0, None, False
                hdr = []
                while t[j][1] != "{" or d > 0:
                    if t[j][1] == "<": d += 1
                    elif t[j][1] == ">": d -= 1
                    hdr.append((t[j], d)); j += 1
                has_for = any(x[1] == "for" and dd == 0 for x, dd in hdr)
                for x, dd in hdr:
                    if x[1] == "for" and dd == 0: seen_for = True
                    elif x[1] == "where" and dd == 0: break
                    elif x[0] == "id" and dd == 0 and (seen_for or not has_for): name = x[1]
                stack.append(("impl", name)); i = j + 1; continue
            if k == "id" and s in ("mod", "trait") and t[i + 1][0] == "id" and not infn:
                j = i + 2
                while t[j][1] not in ("{", ";"): j += 1
                if t[j][1] == "{":
                    stack.append((s, t[i + 1][1])); i = j + 1; continue
            if k == "id" and s == "struct" and t[i + 1][0] == "id" and not infn:
                name, j, d = t[i + 1][1], i + 2, 0
                while not (t[j][1] in ("{", "(", ";") and d == 0):
                    if t[j][1] == "<": d += 1
                    elif t[j][1] == ">": d -= 1
                    j += 1
                p = Parser(t, j + 1, rel)
                if t[j][1] == "{":
                    fields = []
                    while not p.acc("}"):
                        p.attrs()
                        if p.acc("pub") and p.pk() == "(": p.group()
                        f = p.ident(); p.exp(":")
                        a0 = p.i
                        try: ty = p.type_()
                        except HmErr: ty = None; p.i = a0; p.skip_to(",}")
                        fields.append((f, ty))
                        if not p.acc(","): p.exp("}"); break
                    self.structs.setdefault(name, fields); i = p.i; continue
                if t[j][1] == "(":
                    try:
                        if p.acc("pub") and p.pk() == "(": p.group()
                        ty = p.type_()
                        if p.pk() == ")": self.newtypes.setdefault(name, ty)
                    except HmErr:
                        pass
            if k == "id" and s == "fn" and t[i + 1][0] == "id":
                intest = any(x in (("mod", "tests"), ("mod", "test")) for x in stack)
                if not infn and not intest:
                    impl = next((x[1] for x in reversed(stack) if x[0] in ("impl", "trait")), None)
                    key = (impl, t[i + 1][1])
                    self.fns[key] = "ambiguous" if key in self.fns else i
                j, d = i + 2, 0
                while j < n:
                    x = t[j][1]
                    if x in ("(", "[", "<"): d += 1
                    elif x in (")", "]", ">"): d -= 1
                    elif x in ("{", ";") and d <= 0: break
                    j += 1
                if j < n and t[j][1] == "{":
                    stack.append(("fn", t[i + 1][1])); i = j + 1; continue
                i = j + 1; continue
            if s == "{": stack.append(("blk", None))
            elif s == "}" and stack: stack.pop()
            i += 1


# ---------------------------------------------------------------------------------------------- parser
class Parser:
    def __init__(self, t, i, rel): self.t, self.i, self.rel = t, i, rel
    def err(self, msg):
        x = self.t[self.i] if self.i < len(self.t) else ("eof", "EOF", -1)
        raise HmErr("%s:%d: %s (at %r)" % (self.rel, x[2], msg, x[1]))
    def pk(self, k=0): return self.t[self.i + k][1] if self.i + k < len(self.t) else ""
    def pkk(self, k=0): return self.t[self.i + k][0] if self.i + k < len(self.t) else "eof"
    def nx(self): x = self.t[self.i]; self.i += 1; return x
    def acc(self, s):
        if self.pk() == s and self.pkk() != "str": self.i += 1; return True
        return False
    def exp(self, s):
        if not self.acc(s): self.err("expected %r" % s)
    def ident(self):
        if self.pkk() != "id": self.err("expected identifier")
        return self.nx()[1]
    def group(self):
        op = self.nx()[1]; cl = {"(": ")", "[": "]", "{": "}"}[op]; d = 1
        while d:
            x = self.nx()
            if x[0] == "str": continue
            if x[1] == op: d += 1
            elif x[1] == cl: d -= 1
    def skip_to(self, stops):
        d = 0
        while not (d == 0 and self.pk() in stops):
            if self.pkk() == "eof": self.err("unexpected end of file")
            if self.pk() in ("(", "[", "{", "<"): d += 1
            elif self.pk() in (")", "]", "}", ">"): d -= 1
            self.nx()
    def attrs(self):
        out = []
        while self.pk() == "#":
            self.nx(); self.acc("!"); a = self.i; self.group()
            out.append(" ".join(x[1] for x in self.t[a:self.i]))
        return out

    # types: ("bytes",) ("u8",) ("u64",) ("i64",) ("usize",) ("bool",) ("unit",) ("eng",) ("named",N) ("list",T) ("tuple",[T])
    #        ("result",T,E) ("dyn",N) ; `&mut` is reported through self.last_refmut
    def type_(self):
        self.last_refmut = False
        if self.acc("&"):
            if self.pkk() == "life": self.nx()
            m = self.acc("mut")
            t = self.type_(); self.last_refmut = m
            return t
        if self.acc("("):
            ts = []
            while not self.acc(")"):
                ts.append(self.type_())
                if not self.acc(","): self.exp(")"); break
            self.last_refmut = False
            return ("unit",) if not ts else ts[0] if len(ts) == 1 else ("tuple", ts)
        if self.acc("["):
            t = self.type_()
            if self.acc(";"): self.skip_to("]")
            self.exp("]"); self.last_refmut = False
            return ("bytes",) if t == ("u8",) else ("list", t)
        if self.acc("dyn"):
            return ("dyn", self.ident())
        if self.pk() in ("impl", "fn", "*"): self.err("unsupported type")
        segs, args = [self.ident()], []
        while True:
            if self.pk() == "::" and self.pkk(1) == "id": self.nx(); segs.append(self.ident()); continue
            if self.pk() == "<":
                self.nx()
                while self.pk() != ">":
                    if self.pkk() == "life": self.nx()
                    else: args.append(self.type_())
                    if not self.acc(","): break
                self.exp(">"); continue
            break
        self.last_refmut = False
        n = segs[-1]
        if n in ("u8", "u64", "i64", "usize", "bool"): return (n,)
        if n in ("str", "String"): return ("bytes",)
        if n == "Vec" and len(args) == 1: return ("bytes",) if args[0] == ("u8",) else ("list", args[0])
        if n == "Result" and len(args) == 2: return ("result", args[0], args[1])
        if n == "HmacEngine": return ("eng",)
        if n in ("Arc", "Mutex", "Box", "AsyncMutex") and len(args) == 1: return args[0]
        if n == "BTreeMap" and len(args) == 2 and args[0] == ("bytes",): return ("map", args[1])
        if args: self.err("generic type %s is outside the subset" % n)
        return ("named", n)

    def pattern(self):
        if self.acc("&"): self.acc("mut"); return self.pattern()
        if self.pk() in ("ref", "mut"): self.nx(); return self.pattern()
        if self.acc("("):
            ps = []
            while not self.acc(")"):
                ps.append(self.pattern())
                if not self.acc(","): self.exp(")"); break
            return ("punit",) if not ps else ps[0] if len(ps) == 1 else ("ptuple", ps)
        if self.pk() == "_": self.nx(); return ("pwild",)
        if self.pkk() == "id" and self.pk()[0].islower() and self.pk(1) not in ("::", "(", "{", "@"):
            return ("pvar", self.ident())
        self.err("pattern outside the subset")

    def fn_item(self):
        self.exp("fn"); name = self.ident()
        if self.pk() == "<": self.err("generic function")
        self.exp("(")
        params, selfk = [], None
        while not self.acc(")"):
            if self.pk() == "&" and (self.pk(1) == "self" or (self.pk(1) == "mut" and self.pk(2) == "self")):
                self.nx(); selfk = "mut" if self.acc("mut") else "ref"; self.exp("self")
            elif self.pk() == "self": self.err("by-value self")
            else:
                self.acc("mut"); pn = self.ident(); self.exp(":")
                ty = self.type_(); params.append((pn, ty, self.last_refmut))
            if not self.acc(","): self.exp(")"); break
        ret = ("unit",)
        if self.acc("->"): ret = self.type_()
        if self.pk() != "{": self.err("where clause / unexpected signature")
        return {"name": name, "params": params, "self": selfk, "ret": ret, "body": self.block()}

    def block(self):
        self.exp("{")
        stmts, tail = [], None
        while True:
            cfg = self.attrs()
            if self.acc("}"): break
            if self.acc(";"): continue
            line = self.t[self.i][2]
            if self.acc("let"):
                self.acc("mut"); pat = self.pattern()
                if self.acc(":"): self.type_()
                self.exp("="); e = self.expr(); self.exp(";")
                stmts.append(("let", pat, e, cfg, line)); continue
            if self.pk() in ("fn", "struct", "enum", "impl", "use", "static", "const", "type", "trait", "unsafe", "loop", "while", "match"):
                self.err("%r inside a body is outside the subset" % self.pk())
            if self.acc("for"):
                pat = self.pattern(); self.exp("in"); it = self.expr(nostruct=True); body = self.block()
                stmts.append(("for", pat, it, body, cfg, line)); continue
            if self.acc("return"):
                e = None if self.pk() == ";" else self.expr()
                self.exp(";"); stmts.append(("return", e, cfg, line)); continue
            e = self.expr()
            if self.pk(-1) == "!" : pass
            if self.acc(";"): stmts.append(("expr", e, cfg, line)); continue
            if self.acc("}"): tail = e; break
            if e[0] in ("if", "macro"): stmts.append(("expr", e, cfg, line)); continue
            self.err("expected ';' or '}'")
        return (stmts, tail)

    PREC = {"||": 1, "&&": 2, "==": 3, "!=": 3, "<": 3, ">": 3, "<=": 3, ">=": 3, "+": 8, "-": 8}

    def expr(self, minp=1, nostruct=False):
        l = self.unary(nostruct)
        while self.pkk() == "p" and self.pk() in self.PREC and self.PREC[self.pk()] >= minp:
            op = self.nx()[1]
            r = self.expr(self.PREC[op] + 1, nostruct)
            l = ("bin", op, l, r)
        if self.pk() == "=" and minp == 1:
            self.nx(); r = self.expr(1, nostruct); return ("assign", l, r)
        return l

    def unary(self, ns):
        if self.pkk() == "p" and self.pk() == "&":
            self.nx(); m = self.acc("mut"); return ("ref", self.unary(ns), m)
        if self.pkk() == "p" and self.pk() == "*":
            self.nx(); return self.unary(ns)
        if self.pkk() == "p" and self.pk() in ("!", "-"): self.err("unary %s is outside the subset" % self.pk())
        e = self.postfix(self.primary(ns))
        while self.pk() == "as" and self.pkk() == "id":
            self.nx(); e = ("cast", e, self.type_())
        return e

    def args(self):
        self.exp("("); a = []
        while not self.acc(")"):
            a.append(self.expr())
            if not self.acc(","): self.exp(")"); break
        return a

    def postfix(self, e):
        while True:
            if self.pk() == "?" : self.nx(); e = ("try", e); continue
            if self.pk() == "." and self.pkk() == "p":
                self.nx(); k, s, _ = self.nx()
                if k == "int": e = ("tfield", e, int(s)); continue
                if k != "id" or s == "await": self.err("field/method name")
                if self.pk() == "::": self.err("turbofish method")
                if self.pk() == "(": e = ("mcall", e, s, self.args()); continue
                e = ("field", e, s); continue
            if self.pk() == "[":
                self.nx()
                lo = None if self.pk() == ".." else self.expr(2)
                if not self.acc(".."): self.err("indexing is outside the subset (only slices v[a..b])")
                hi = None if self.pk() == "]" else self.expr(2)
                self.exp("]"); e = ("slice", e, lo, hi); continue
            return e

    def primary(self, ns):
        k, s = self.pkk(), self.pk()
        if k == "int":
            self.nx(); return ("int", int(s.replace("_", ""), 0))
        if k == "str":
            self.nx()
            if s.startswith("b") or "\\" in s: self.err("string literal with a prefix/escape")
            return ("strlit", s[1:-1])
        if s == "(" :
            self.nx(); es = []
            while not self.acc(")"):
                es.append(self.expr())
                if not self.acc(","): self.exp(")"); break
            return ("unit",) if not es else es[0] if len(es) == 1 else ("tuple", es)
        if s == "[":
            self.nx(); first = self.expr()
            if self.acc(";"):
                n = self.expr(); self.exp("]"); return ("rep", first, n)
            es = [first]
            while self.acc(","):
                if self.pk() == "]": break
                es.append(self.expr())
            self.exp("]"); return ("arr", es)
        if s == "|":
            a = self.i; self.nx()
            params = []
            while not self.acc("|"):
                params.append(self.pattern())
                if self.acc(":"): self.type_()
                if not self.acc(","): self.exp("|"); break
            body = self.expr()
            return ("closure", " ".join(x[1] for x in self.t[a:self.i]), body, params)
        if s == "if":
            self.nx()
            if self.pk() == "let": self.err("if let")
            c = self.expr(nostruct=True); then = self.block(); els = None
            if self.acc("else"):
                if self.pk() == "if": self.err("else if")
                els = self.block()
            return ("if", c, then, els)
        if k != "id": self.err("unexpected token in expression")
        segs = [self.ident()]
        while self.pk() == "::":
            self.nx()
            if self.pk() == "<":
                self.nx(); self.type_(); self.exp(">"); continue
            segs.append(self.ident())
        if self.pk() == "!" and self.pk(1) in ("(", "[", "{") and len(segs) == 1:
            self.nx(); a = self.i; self.group()
            first = None
            if segs[0] in ("assert", "debug_assert"):
                q = Parser(self.t[:self.i - 1] + [("eof", "", 0)], a + 1, self.rel)
                first = q.expr()
                if q.pk() not in (",", ""): self.err("assert! argument")
            return ("macro", segs[0], first)
        if self.pk() == "{" and not ns and segs[-1][0].isupper():
            self.nx(); fields = []
            while not self.acc("}"):
                f = self.ident()
                fields.append((f, self.expr() if self.acc(":") else ("path", [f])))
                if not self.acc(","): self.exp("}"); break
            return ("struct", segs[-1], fields)
        if self.pk() == "(":
            return ("call", segs, self.args())
        return ("path", segs)


# ---------------------------------------------------------------------------------------------- translation
LOG = ("error", "warn", "info", "debug", "trace")
KW = set("fun let do if then else match with end at from have show by in def theorem structure where open namespace section "
         "instance class variable mut for return".split())
def lid(n): return "«%s»" % n if n in KW else n
def paren(s):
    """s as an argument term"""
    if re.fullmatch(r"[\w.«»']+", s): return s
    if s[0] in "([" :
        d = 0
        for i, c in enumerate(s):
            if c in "([": d += 1
            elif c in ")]":
                d -= 1
                if d == 0: break
        if i == len(s) - 1: return s
    return "(" + s + ")"


class FnInfo: pass


class Area:
    def __init__(self, repo, name, rel, imports=None):
        self.repo, self.name, self.rel = repo, name, rel
        src = open(os.path.join(repo, rel)).read()
        for rx, rp, want in GLUE_RULES.get(name, []):
            src, n = re.subn(rx, rp, src)
            if want is not None and n != want:
                raise HmErr("%s: idiom /%s/ applies %d times, expected %d" % (rel, rx, n, want))
        self.idx = Index(rel, src)
        self.structs = dict(self.idx.structs); self.newtypes = dict(self.idx.newtypes)
        self.nt_idx = {n: self.idx for n in self.newtypes}
        for r in STRUCT_FILES.get(name, []):
            ix = Index(r, open(os.path.join(repo, r)).read())
            for k, v in ix.structs.items(): self.structs.setdefault(k, v)
            for k, v in ix.newtypes.items():
                if k not in self.newtypes: self.newtypes[k] = v; self.nt_idx[k] = ix
        self.fns, self.failed, self.order, self.used_structs = {}, {}, [], []
        self.imports = imports

    def resolve(self, t, impl=None):
        k = t[0]
        if k == "named":
            n = impl if t[1] == "Self" else STRUCT_ALIAS.get(t[1], t[1])
            if n in self.structs:
                if n not in self.used_structs: self.used_structs.append(n)
                return ("struct", n)
            if n in self.newtypes:
                self.check_newtype(n)
                return self.resolve(self.newtypes[n], impl)
            return ("opaque", n)
        if k == "list": return ("list", self.resolve(t[1], impl))
        if k == "map": return ("map", self.resolve(t[1], impl))
        if k == "tuple": return ("tuple", [self.resolve(x, impl) for x in t[1]])
        if k == "result": return ("result", self.resolve(t[1], impl), self.resolve(t[2], impl))
        return t

    def check_newtype(self, n):
        """a tuple struct `N(Vec<..>)` is used as its content: its `iter` must be `self.0.iter()`"""
        ix = self.nt_idx[n]
        for meth in ("iter", "into_iter"):
            k = ix.fns.get((n, meth))
            if not isinstance(k, int): raise HmErr("newtype %s without an %s method" % (n, meth))
            p = Parser(ix.t, k, ix.rel)
            while p.pk() != "{": p.nx()
            a = p.i; p.group()
            body = " ".join(x[1] for x in ix.t[a:p.i])
            if body != "{ self . 0 . %s ( ) }" % meth: raise HmErr("%s::%s is not `self.0.%s()`: %s" % (n, meth, meth, body))

    def field_ty(self, sname, f):
        for fn, ty in self.structs[sname]:
            if fn == f:
                if ty is None: raise HmErr("field %s.%s has a type outside the subset" % (sname, f))
                return self.resolve(ty, sname)
        raise HmErr("no field %s in %s" % (f, sname))

    def lt(self, t):
        k = t[0]
        if k == "bytes": return "Hm.Bytes"
        if k in ("u8", "u64", "usize"): return "Nat"
        if k == "i64": return "Int"
        if k == "bool": return "Bool"
        if k == "unit": return "Unit"
        if k == "eng": return "Hm.Eng"
        if k == "struct": return ("%s.%s" % (self.structs_area(t[1]), t[1]))
        if k == "list": return "(List %s)" % self.lt(t[1])
        if k == "map": return "(List (Hm.Bytes × %s))" % self.lt(t[1])
        if k == "tuple": return "(" + " × ".join(self.lt(x) for x in t[1]) + ")"
        raise HmErr("type %r is outside the subset" % (t,))

    def structs_area(self, n):
        if self.imports is not None and n in self.imports.used_structs: return self.imports.name
        return self.name

    def get(self, impl, name):
        key = (impl, name)
        if key in self.fns: return self.fns[key]
        if key in self.failed: raise HmErr(self.failed[key])
        try:
            if "#" in name:
                f = self.closure_fn(impl, name)
                info = Tr(self, f).run()
                self.fns[key] = info; self.order.append(key)
                return info
            k = self.idx.fns.get(key)
            if k is None: raise HmErr("function not found")
            if k == "ambiguous": raise HmErr("ambiguous function name")
            p = Parser(self.idx.t, k, self.rel)
            f = p.fn_item(); f["impl"] = impl
            f["text"] = " ".join(x[1] for x in self.idx.t[k:p.i]); f["line"] = self.idx.t[k][2]
            info = Tr(self, f).run()
        except HmErr as e:
            self.failed[key] = str(e); raise
        self.fns[key] = info; self.order.append(key)
        return info

    def closure_fn(self, impl, name):
        """the single closure passed to `.<method>(..)` inside function `<fn>` as a function of its own"""
        base, meth = name.split("#")
        k = self.idx.fns.get((impl, base))
        if not isinstance(k, int): raise HmErr("function %s not found" % base)
        t = self.idx.t
        j = k
        while t[j][1] != "{": j += 1
        p = Parser(t, j, self.rel); p.group(); end = p.i
        hits = [i for i in range(j, end - 3) if t[i][1] == "." and t[i + 1][1] == meth and t[i + 2][1] == "(" and t[i + 3][1] == "|"]
        if len(hits) != 1: raise HmErr("%d closures passed to .%s in %s (exactly one expected)" % (len(hits), meth, base))
        p = Parser(t, hits[0] + 3, self.rel)
        c = p.primary(False)
        if p.pk() != ")": raise HmErr("closure is not the only argument of .%s" % meth)
        ptys, rty = CLOSURES[(impl, name)]
        if len(c[3]) != len(ptys): raise HmErr("closure arity")
        def ty(sx):
            q = Parser(lex(sx) + [("eof", "", 0)], 0, "<spec>"); return q.type_()
        params, stmts = [], []
        for i, (pat, sx) in enumerate(zip(c[3], ptys)):
            params.append(("a%d" % i, ty(sx), False))
            stmts.append(("let", pat, ("path", ["a%d" % i]), [], t[hits[0]][2]))
        return {"name": "%s_%s" % (base, meth), "params": params, "self": None, "ret": ty(rty), "body": (stmts, c[2]),
                "impl": impl, "text": "fn %s ( .. ) { .. . %s ( %s ) .. }" % (base, meth, c[1]), "line": t[hits[0]][2]}

    def lookup_method(self, sname, m):
        if (sname, m) in self.idx.fns: return self, self.get(sname, m)
        if self.imports is not None and (sname, m) in self.imports.idx.fns: return self.imports, self.imports.get(sname, m)
        return None, None

    def lookup_fn(self, name):
        """callee by bare name: this area, then the imported one"""
        if (None, name) in self.idx.fns: return self, self.get(None, name)
        if self.imports is not None and (None, name) in self.imports.idx.fns: return self.imports, self.imports.get(None, name)
        return None, None


class Tr:
    def __init__(self, area, f):
        self.a, self.f, self.impl = area, f, f["impl"]
        self.n = 0; self.mac = False; self.exts = []; self.dropped = []; self.monadic = False

    def fresh(self, b="t"): self.n += 1; return "%s_%d" % (b, self.n)
    def add_ext(self, n, ty):
        if (n, ty) not in self.exts: self.exts.append((n, ty))

    def run(self):
        f, a = self.f, self.a
        env, params, self.muts = {}, [], []
        if f["self"]:
            if self.impl not in a.structs: raise HmErr("self of a non-struct")
            env["self"] = a.resolve(("named", self.impl)); params.append(("self", env["self"]))
            if f["self"] == "mut": self.muts.append("self")
        all_params = [("self", env["self"])] if f["self"] else []
        for pn, ty, refmut in f["params"]:
            t = a.resolve(ty, self.impl)
            env[pn] = t
            all_params.append((pn, t))
            if t[0] != "dyn": params.append((pn, t))
            if refmut: self.muts.append(pn)
        # a `&self` method that takes `self.<field>.lock().unwrap()` mutably returns the new self
        if f["self"] == "ref" and any(st[0] == "let" and self.lock_alias(st[2]) for st in f["body"][0]):
            self.muts.append("self")
        self.aliases = {}
        self.ret = a.resolve(f["ret"], self.impl)
        self.is_result = self.ret[0] == "result"
        self.val_ty = self.ret[1] if self.is_result else self.ret
        self.monadic = self.is_result
        # a first pass decides whether anything monadic occurs (pure functions are emitted as plain terms)
        m0 = self.monadic
        lines = self.block(f["body"], env, 1, top=True)
        if self.monadic != m0:      # something monadic was met on the way: emit again, monadic from the start
            self.n, self.dropped = 0, []
            lines = self.block(f["body"], env, 1, top=True)
        info = FnInfo()
        info.impl, info.name, info.params, info.muts = self.impl, f["name"], params, list(self.muts)
        info.all_params = all_params
        info.lean_name = (self.impl + "." if self.impl else "") + lid(f["name"])
        info.val_ty, info.is_result, info.monadic = self.val_ty, self.is_result, self.monadic
        info.mac, info.exts, info.dropped = self.mac, self.exts, [x for i, x in enumerate(self.dropped) if x not in self.dropped[:i]]
        info.line, info.text, info.area = f["line"], f["text"], a
        outs = [dict(params)[m] for m in self.muts] + ([self.val_ty] if self.val_ty != ("unit",) or not self.muts else [])
        info.out_ty = outs[0] if len(outs) == 1 else ("tuple", outs)
        info.body = lines
        return info

    def lock_alias(self, e):
        """`self.<field>.lock().unwrap()` -> field name"""
        if e[0] == "mcall" and e[2] == "unwrap" and not e[3] and e[1][0] == "mcall" and e[1][2] == "lock" and not e[1][3] \
                and e[1][1][0] == "field" and e[1][1][1] == ("path", ["self"]):
            return e[1][1][2]
        return None

    # the Lean value returned for Rust return value `term`
    def pack(self, term):
        parts = [lid(m) for m in self.muts]
        if self.val_ty != ("unit",) or not parts: parts.append(term)
        return parts[0] if len(parts) == 1 else "(" + ", ".join(parts) + ")"

    did_monadic_emit = False

    def ind(self, d): return "  " * d

    def flush(self, pre, d):
        out = []
        for kind, pat, term in pre:
            if kind == "bind":
                self.monadic = True
                out.append("%slet %s ← %s" % (self.ind(d), pat, term))
            else:
                out.append("%slet %s := %s" % (self.ind(d), pat, term))
        return out

    def ret_lines(self, e, env, d):
        """lines computing the function result from return expression e (None = unit)"""
        if e is not None and e[0] == "if" and e[3] is not None:
            pre = []
            c, ct = self.expr(e[1], env, pre)
            if ct != ("bool",): raise HmErr("if condition is not a bool")
            th = self.block(e[2], env, d + 1, top=True); el = self.block(e[3], env, d + 1, top=True)
            kw = " do" if self.monadic else ""
            return self.flush(pre, d) + ["%sif %s then%s" % (self.ind(d), c, kw)] + th + ["%selse%s" % (self.ind(d), kw)] + el
        if self.is_result:
            if e is not None and e[0] == "call" and e[1] == ["Ok"]:
                pre = []
                term, t = self.expr(e[2][0], env, pre)
                if t != self.val_ty: raise HmErr("Ok value type")
                return self.flush(pre, d) + ["%spure %s" % (self.ind(d), self.pack(term))]
            if e is not None and e[0] == "call" and e[1] == ["Err"]:
                return ["%sRs.fail %s" % (self.ind(d), self.err_tag(e[2][0]))]
            raise HmErr("Result-typed tail expression outside the subset")
        pre = []
        if e is None:
            term, t = "()", ("unit",)
        else:
            term, t = self.expr(e, env, pre)
        if t != self.val_ty: raise HmErr("return type mismatch: %r vs %r" % (t, self.val_ty))
        fin = self.pack(term)
        return self.flush(pre, d) + ["%s%s%s" % (self.ind(d), "pure " if self.monadic else "", paren(fin) if self.monadic else fin)]

    def err_tag(self, e):
        if e[0] == "unit": return '"()"'
        if e[0] == "path": return '"%s"' % "::".join(e[1])
        if e[0] == "call": return '"%s"' % "::".join(e[1])
        raise HmErr("error value outside the subset")

    def block(self, blk, env, d, top=False, fin=None):
        """lines of a block; `top`: the block's tail is the function's return value; else fin(env) gives the last lines"""
        stmts, tail = blk
        env = dict(env)
        out = []
        for i, st in enumerate(stmts):
            k = st[0]
            cfg = st[-2]
            for c in cfg:
                if c.replace(" ", "") != '[cfg(feature="crypt")]': raise HmErr("attribute %s on a statement" % c)
                if "default-feature `crypt` taken as enabled" not in self.dropped:
                    self.dropped.append("default-feature `crypt` taken as enabled")
            if k == "let" and st[1][0] == "pvar" and self.lock_alias(st[2]):
                fld = self.lock_alias(st[2])
                env[st[1][1]] = ("alias", fld, self.a.field_ty(env["self"][1], fld))
                continue
            if k == "let" and st[1][0] == "pvar" and st[2][0] == "call" and len(st[2][1]) == 2 and st[2][1][1] == "new" \
                    and st[2][1][0] in DYN_CTORS and not st[2][2]:
                env[st[1][1]] = ("dyn", DYN_CTORS[st[2][1][0]])
                self.dropped.append("`%s::new()` only stands for the `&dyn %s` argument" % (st[2][1][0], DYN_CTORS[st[2][1][0]]))
                continue
            if k == "let":
                pre = []
                term, t = self.expr(st[2], env, pre)
                pat = self.bind(st[1], t, env)
                pre.append(("let", pat, term))
                out += self.flush(pre, d)
            elif k == "return":
                if not top and fin is not None and not self.is_result: raise HmErr("return inside a loop")
                out += self.ret_lines(st[1], env, d)
                return out
            elif k == "for":
                out += self.for_(st, env, d)
            elif k == "expr":
                e = st[1]
                if e[0] == "macro" and e[1] == "assert":
                    pre = []
                    c, ct = self.expr(e[2], env, pre)
                    if ct != ("bool",): raise HmErr("assert! of a non-bool")
                    pre.append(("bind", "_", "Rs.assert %s" % paren(c)))
                    out += self.flush(pre, d)
                    continue
                if e[0] == "macro":
                    if e[1] not in LOG: raise HmErr("macro %s!" % e[1])
                    self.dropped.append("%s! at line %d (logging)" % (e[1], st[-1]))
                    continue
                if e[0] == "if":
                    # `if c { ..; return Err(..); }` : the rest of the block is the else branch
                    if e[3] is not None or not e[2][0] or e[2][0][-1][0] != "return" or e[2][1] is not None:
                        raise HmErr("if statement outside the subset (only `if c { ..; return ..; }`)")
                    pre = []
                    c, ct = self.expr(e[1], env, pre)
                    if ct != ("bool",): raise HmErr("if condition is not a bool")
                    th = self.block(e[2], env, d + 1, top=True)
                    rest = self.block((stmts[i + 1:], tail), env, d + 1, top=top, fin=fin)
                    kw = " do" if self.monadic else ""
                    return out + self.flush(pre, d) + ["%sif %s then%s" % (self.ind(d), c, kw)] + th + ["%selse%s" % (self.ind(d), kw)] + rest
                pre = []
                self.effect(e, env, pre)
                out += self.flush(pre, d)
            else:
                raise HmErr("statement %s" % k)
        if top:
            return out + self.ret_lines(tail, env, d)
        if tail is not None:
            pre = []
            self.effect(tail, env, pre)
            out += self.flush(pre, d)
        return out + fin(env, d)

    def bind(self, pat, t, env):
        if pat[0] == "pvar": env[pat[1]] = t; return lid(pat[1])
        if pat[0] == "pwild": return "_"
        if pat[0] == "punit": return "()"
        if pat[0] == "ptuple":
            if t[0] != "tuple" or len(t[1]) != len(pat[1]): raise HmErr("tuple pattern mismatch")
            return "(" + ", ".join(self.bind(p, x, env) for p, x in zip(pat[1], t[1])) + ")"
        raise HmErr("pattern")

    def place(self, e):
        """the variable (or self.field) a `&mut` argument / receiver denotes"""
        if e[0] == "ref": return self.place(e[1])
        if e[0] == "path" and len(e[1]) == 1 and getattr(self, "cur_env", {}).get(e[1][0], ("x",))[0] == "alias":
            return ("self", self.cur_env[e[1][0]][1])
        if e[0] == "path" and len(e[1]) == 1: return ("var", e[1][0])
        if e[0] == "field" and e[1] == ("path", ["self"]): return ("self", e[2])
        if e[0] == "field":
            b = self.place(e[1])
            if b[0] == "var": return ("vfield", b[1], e[2])
        raise HmErr("mutated place outside the subset")

    def set_place(self, pl, term, env, pre):
        if pl[0] == "var":
            if pl[1] not in env: raise HmErr("assignment to unknown %s" % pl[1])
            pre.append(("let", lid(pl[1]), term))
        elif pl[0] == "self":
            if "self" not in self.muts: raise HmErr("assignment to a field of &self")
            pre.append(("let", "self", "{ self with %s := %s }" % (lid(pl[1]), term)))
        else:
            pre.append(("let", lid(pl[1]), "{ %s with %s := %s }" % (lid(pl[1]), lid(pl[2]), term)))

    def mutated(self, blk, acc):
        """variables mutated inside a block (syntactic)"""
        def walk(e):
            if isinstance(e, list):
                for x in e: walk(x)
                return
            if not isinstance(e, tuple) or not e: return
            if e[0] == "mcall" and e[2] in ("input", "append", "split_off", "push", "extend_from_slice", "insert"):
                try:
                    pl = self.place(e[1])
                    v = "self" if pl[0] == "self" else pl[1]
                    if v not in acc: acc.append(v)
                except HmErr: pass
            if e[0] == "assign":
                pl = self.place(e[1]); v = "self" if pl[0] == "self" else pl[1]
                if v not in acc: acc.append(v)
            if e[0] == "ref" and e[2]:
                pl = self.place(e[1]); v = "self" if pl[0] == "self" else pl[1]
                if v not in acc: acc.append(v)
            if e[0] == "call":
                ar, info = self.callee(e[1])
                if info is not None:
                    for (pn, _), x in zip([p for p in info.params], e[2]):
                        if pn in info.muts:
                            pl = self.place(x); v = "self" if pl[0] == "self" else pl[1]
                            if v not in acc: acc.append(v)
                elif e[1][-1] in EXTERNAL_FNS:
                    pl = self.place(e[2][EXTERNAL_FNS[e[1][-1]][1]]); v = "self" if pl[0] == "self" else pl[1]
                    if v not in acc: acc.append(v)
            for x in e[1:]:
                if isinstance(x, (tuple, list)): walk(x)
        walk(list(blk[0]) + ([blk[1]] if blk[1] is not None else []))
        return acc

    def for_(self, st, env, d):
        _, pat, it, body, cfg, line = st
        pre = []
        itm = it[0] == "mcall" and it[2] == "iter_mut" and not it[3]
        lst, lt_ = self.expr(it[1] if itm else it, env, pre)
        if lt_[0] != "list": raise HmErr("for over a non-list")
        env2 = dict(env)
        xp = self.bind(pat, lt_[1], env2)
        pv = []
        def pvars(p):
            if p[0] == "pvar": pv.append(p[1])
            elif p[0] == "ptuple":
                for x in p[1]: pvars(x)
        pvars(pat)
        M = self.mutated(body, [])
        outer = [v for v in M if v in env and v not in pv]
        inner = [v for v in M if v in pv]
        was = self.monadic
        if itm:
            if outer: raise HmErr("iter_mut loop that also mutates outer variables")
            pl = self.place(it[1])
            fin = lambda e, dd: ["%s%s%s" % (self.ind(dd), "pure " if self.monadic else "", xp)]
            self.monadic_probe = False
            blines = self.block(body, env2, d + 2, fin=fin)
            if self.monadic:
                blines = self.block(body, env2, d + 2, fin=fin)
                nv = self.fresh("l")
                pre.append(("bind", nv, "List.mapM (fun %s => do\n%s) %s" % (xp, "\n".join(blines), paren(lst))))
            else:
                nv = self.fresh("l")
                pre.append(("let", nv, "List.map (fun %s =>\n%s) %s" % (xp, "\n".join(blines), paren(lst))))
            self.set_place(pl, nv, env, pre)
            return self.flush(pre, d)
        if inner: raise HmErr("loop mutates its pattern variables without iter_mut")
        if not outer: raise HmErr("for loop without effect")
        tup = lid(outer[0]) if len(outer) == 1 else "(" + ", ".join(lid(v) for v in outer) + ")"
        fin = lambda e, dd: ["%s%s%s" % (self.ind(dd), "pure " if self.monadic else "", tup)]
        blines = self.block(body, env2, d + 2, fin=fin)
        if self.monadic and not was:
            blines = self.block(body, env2, d + 2, fin=fin)
        if self.monadic:
            pre.append(("bind", tup, "List.foldlM (fun %s %s => do\n%s) %s %s" % (tup, xp, "\n".join(blines), tup, paren(lst))))
        else:
            pre.append(("let", tup, "List.foldl (fun %s %s =>\n%s) %s %s" % (tup, xp, "\n".join(blines), tup, paren(lst))))
        return self.flush(pre, d)

    def callee(self, segs):
        if len(segs) != 1: return None, None
        if segs[0] == self.f["name"] and self.impl is None: raise HmErr("recursion")
        return self.a.lookup_fn(segs[0])

    def effect(self, e, env, pre):
        """expression statement"""
        k = e[0]
        self.cur_env = env
        if k == "mcall" and e[2] == "insert" and len(e[3]) == 2:
            base, bt = self.expr(e[1], env, pre)
            if bt[0] != "map": raise HmErr("insert on a non-map")
            kk, kt = self.expr(e[3][0], env, pre); vv, vt = self.expr(e[3][1], env, pre)
            if kt != ("bytes",) or vt != bt[1]: raise HmErr("map insert types")
            self.set_place(self.place(e[1]), "Hm.bmapInsert %s %s %s" % (paren(base), paren(kk), paren(vv)), env, pre); return
        if k == "assign":
            term, t = self.expr(e[2], env, pre)
            _, lt_ = self.expr(e[1], env, [])
            if lt_ != t: raise HmErr("assignment type mismatch")
            self.set_place(self.place(e[1]), term, env, pre); return
        if k == "mcall" and e[2] == "input" and len(e[3]) == 1:
            base, bt = self.expr(e[1], env, pre)
            if bt != ("eng",): raise HmErr(".input on a non-engine")
            x, xt = self.expr(e[3][0], env, pre)
            if xt != ("bytes",): raise HmErr("engine input that is not a byte string: %r" % (xt,))
            self.set_place(self.place(e[1]), "%s.input %s" % (paren(base), paren(x)), env, pre); return
        if k == "mcall" and e[2] == "extend_from_slice" and len(e[3]) == 1:
            base, bt = self.expr(e[1], env, pre)
            x, xt = self.expr(e[3][0], env, pre)
            if bt != ("bytes",) or xt != ("bytes",): raise HmErr("extend_from_slice on non-bytes")
            self.set_place(self.place(e[1]), "(%s ++ %s)" % (base, x), env, pre); return
        if k == "mcall" and e[2] == "append" and len(e[3]) == 1:
            base, bt = self.expr(e[1], env, pre)
            x, xt = self.expr(e[3][0], env, pre)
            if bt != ("bytes",) or xt != ("bytes",): raise HmErr("append on non-bytes")
            self.set_place(self.place(e[1]), "(%s ++ %s)" % (base, x), env, pre); return
        term, t = self.expr(e, env, pre)
        if t != ("unit",): raise HmErr("value of an expression statement is dropped")

    def expr(self, e, env, pre):
        k = e[0]
        self.cur_env = env
        if k == "strlit":
            return "[" + ", ".join(str(b) for b in e[1].encode()) + "]", ("bytes",)
        if k == "path" and len(e[1]) == 1 and e[1][0] in env and env[e[1][0]][0] == "alias":
            return "self.%s" % lid(env[e[1][0]][1]), env[e[1][0]][2]
        if k == "ref": return self.expr(e[1], env, pre)
        if k == "int": return str(e[1]), ("intlit",)
        if k == "unit": return "()", ("unit",)
        if k == "path":
            if len(e[1]) == 1 and e[1][0] in env:
                t = env[e[1][0]]
                if t[0] == "dyn": raise HmErr("dyn parameter used as a value")
                return lid(e[1][0]), t
            raise HmErr("unknown identifier %s" % "::".join(e[1]))
        if k == "arr":
            if not all(x[0] == "int" and 0 <= x[1] < 256 for x in e[1]): raise HmErr("array literal that is not a byte list")
            return "[" + ", ".join(str(x[1]) for x in e[1]) + "]", ("bytes",)
        if k == "rep":
            if e[1][0] != "int" or e[2][0] != "int" or not 0 <= e[1][1] < 256: raise HmErr("[x; n] outside the subset")
            return "(List.replicate %d %d)" % (e[2][1], e[1][1]), ("bytes",)
        if k == "tuple":
            ps = [self.expr(x, env, pre) for x in e[1]]
            return "(" + ", ".join(p[0] for p in ps) + ")", ("tuple", [p[1] for p in ps])
        if k == "field":
            base, bt = self.expr(e[1], env, pre)
            if bt[0] != "struct": raise HmErr("field of a non-struct")
            return "%s.%s" % (base, lid(e[2])), self.a.field_ty(bt[1], e[2])
        if k == "tfield":
            base, bt = self.expr(e[1], env, pre)
            if bt[0] != "tuple": raise HmErr("tuple field of a non-tuple")
            n = len(bt[1]); i = e[2]
            return base + ".2" * i + (".1" if i < n - 1 else ""), bt[1][i]
        if k == "struct":
            n = self.impl if e[1] == "Self" else STRUCT_ALIAS.get(e[1], e[1])
            if n not in self.a.structs: raise HmErr("struct literal of unknown %s" % n)
            self.a.resolve(("named", n))
            if sorted(f for f, _ in e[2]) != sorted(f for f, _ in self.a.structs[n]): raise HmErr("struct literal does not set every field")
            parts = []
            for f, fe in e[2]:
                term, t = self.expr(fe, env, pre)
                if t != self.a.field_ty(n, f): raise HmErr("field %s type" % f)
                parts.append("%s := %s" % (lid(f), term))
            return "{ " + ", ".join(parts) + " }", ("struct", n)
        if k == "bin":
            op = e[1]
            l, lt_ = self.expr(e[2], env, pre); r, rt = self.expr(e[3], env, pre)
            if lt_ == ("intlit",): lt_ = rt
            if rt == ("intlit",): rt = lt_
            if lt_ != rt: raise HmErr("operands of %s: %r vs %r" % (op, lt_, rt))
            if op in ("==", "!="):
                if lt_[0] not in ("bytes", "u64", "i64", "usize", "bool"): raise HmErr("comparison of %r" % (lt_,))
                return "(%s %s %s)" % (l, op, r), ("bool",)
            if op in ("<", "<=", ">", ">=") and lt_[0] in ("usize", "u64", "i64"):
                return "(decide (%s %s %s))" % (l, op, r), ("bool",)
            if op == "+" and lt_[0] in ("usize", "u64"):
                v = self.fresh()
                pre.append(("bind", v, "Rs.uadd %s %s %s" % ("Rs.USIZE_MAX" if lt_[0] == "usize" else "Rs.U64_MAX", paren(l), paren(r))))
                return v, lt_
            if op == "-" and lt_[0] in ("usize", "u64"):
                v = self.fresh()
                pre.append(("bind", v, "Rs.usub %s %s" % (paren(l), paren(r))))
                return v, lt_
            raise HmErr("operator %s on %r" % (op, lt_))
        if k == "cast":
            term, t = self.expr(e[1], env, pre)
            to = self.a.resolve(e[2], self.impl)
            if t == to: return term, t
            if t == ("u64",) and to == ("i64",): return "(Rs.itrunc 64 (Int.ofNat %s))" % term, to      # two's complement
            if t == ("i64",) and to == ("u64",): return "(Rs.utruncI Rs.U64_MAX %s)" % term, to
            raise HmErr("cast %r as %r is outside the subset" % (t, to))
        if k == "slice":
            base, bt = self.expr(e[1], env, pre)
            if bt != ("bytes",): raise HmErr("slice of a non-byte-string")
            def bound(x, dflt):
                if x is None: return dflt
                term, t = self.expr(x, env, pre)
                if t not in (("usize",), ("intlit",)): raise HmErr("slice bound")
                return paren(term)
            v = self.fresh("s")
            pre.append(("bind", v, "Hm.slice %s %s %s" % (paren(base), bound(e[2], "0"), bound(e[3], "%s.length" % paren(base)))))
            return v, ("bytes",)
        if k == "try":
            return self.call_like(e[1], env, pre, tried=True)
        if k in ("call", "mcall"):
            return self.call_like(e, env, pre, tried=False)
        raise HmErr("expression %s is outside the subset" % k)

    def call_like(self, e, env, pre, tried):
        tag = None
        if e[0] == "mcall" and e[2] == "map_err" and len(e[3]) == 1 and e[3][0][0] == "closure":
            body = e[3][0][2]
            if body[0] not in ("call", "path"): raise HmErr("map_err closure outside the subset")
            tag = '"%s"' % "::".join(body[1]); self.dropped.append("arguments of the error value %s" % tag)
            e = e[1]
        if e[0] == "mcall":
            if tried or tag: raise HmErr("? on a method call")
            return self.method(e, env, pre)
        segs, args = e[1], e[2]
        if segs == ["HmacEngine", "new"] and len(args) == 1:
            x, xt = self.expr(args[0], env, pre)
            if xt != ("bytes",): raise HmErr("engine key")
            return "(Hm.Eng.new %s)" % x, ("eng",)
        if segs == ["Vec", "with_capacity"] and len(args) == 1:
            n, nt = self.expr(args[0], env, pre)      # the capacity expression is evaluated (its arithmetic can overflow)
            if nt not in (("usize",), ("intlit",)): raise HmErr("capacity")
            return "([] : Hm.Bytes)", ("bytes",)
        if segs == ["u64", "from_be_bytes"] and len(args) == 1:
            a = args[0]
            if not (a[0] == "mcall" and a[2] == "unwrap" and not a[3] and a[1][0] == "mcall" and a[1][2] == "try_into" and not a[1][3]):
                raise HmErr("u64::from_be_bytes of something else than `<bytes>.try_into().unwrap()`")
            x, xt = self.expr(a[1][1], env, pre)
            if xt != ("bytes",): raise HmErr("try_into of a non-byte-string")
            v = self.fresh("a")
            pre.append(("bind", v, "Hm.toArray 8 %s" % paren(x)))
            return "(Hm.fromBe8 %s)" % v, ("u64",)
        if segs == ["Hmac", "from_engine"] and len(args) == 1:
            x, xt = self.expr(args[0], env, pre)
            if xt != ("eng",): raise HmErr("from_engine of a non-engine")
            return x, ("hmac",)
        if segs[-1] in EXTERNAL_FNS and len(segs) == 1:
            kinds, mi = EXTERNAL_FNS[segs[0]]
            if len(args) != len(kinds): raise HmErr("external %s arity" % segs[0])
            terms = []
            for x, kd in zip(args, kinds):
                term, t = self.expr(x, env, pre)
                if t != (kd,): raise HmErr("external %s argument: %r" % (segs[0], t))
                terms.append(paren(term))
            self.add_ext("ext_" + segs[0], " → ".join(self.a.lt((kd,)) for kd in kinds) + " → Hm.Bytes")
            self.set_place(self.place(args[mi]), "ext_%s %s" % (segs[0], " ".join(terms)), env, pre)
            return "()", ("unit",)
        if len(segs) == 1 and segs[0] in EXT_CALLS:
            ptys, rty = EXT_CALLS[segs[0]]
            def ty(sx):
                q = Parser(lex(sx) + [("eof", "", 0)], 0, "<spec>"); return self.a.resolve(q.type_(), self.impl)
            pts, rt = [ty(x) for x in ptys], ty(rty)
            if len(args) != len(pts): raise HmErr("external %s arity" % segs[0])
            terms = []
            for x, pt in zip(args, pts):
                term, t = self.expr(x, env, pre)
                if t != pt: raise HmErr("external %s argument: %r vs %r" % (segs[0], t, pt))
                terms.append(paren(term))
            self.add_ext("ext_" + segs[0], " → ".join([self.a.lt(x) for x in pts] + [self.a.lt(rt)]))
            return "(ext_%s %s)" % (segs[0], " ".join(terms)), rt
        ar, info = self.callee(segs)
        if info is None: raise HmErr("call of unknown function %s" % "::".join(segs))
        if len(args) != len(info.params): raise HmErr("arity of %s" % info.name)
        terms, places = [], []
        for (pn, pt), x in zip(info.params, args):
            term, t = self.expr(x, env, pre)
            if t != pt: raise HmErr("argument %s of %s: %r vs %r" % (pn, info.name, t, pt))
            terms.append(paren(term))
            if pn in info.muts: places.append(self.place(x))
        if info.mac: self.mac = True
        for x in info.exts: self.add_ext(*x)
        call = " ".join(["%s.%s" % (ar.name, info.lean_name)] + (["mac"] if info.mac else []) + [n for n, _ in info.exts] + terms)
        if info.is_result and not tried: raise HmErr("Result of %s used without ?" % info.name)
        if tried and not info.is_result: raise HmErr("? on a non-Result")
        if tried and not self.is_result: raise HmErr("? outside a Result function")
        if tag is not None:
            call = "(%s).mapError (fun _ => Rs.Fail.err %s)" % (call, tag)
        has_val = info.val_ty != ("unit",) or not info.muts
        vs = [self.fresh("m") for _ in places] + ([self.fresh("r")] if has_val else [])
        pat = vs[0] if len(vs) == 1 else "(" + ", ".join(vs) + ")"
        pre.append(("bind" if info.monadic else "let", pat, call))
        for pl, v in zip(places, vs): self.set_place(pl, v, env, pre)
        return (vs[-1] if has_val else "()"), info.val_ty

    def method(self, e, env, pre):
        _, recv, m, args = e
        if recv[0] == "path" and len(recv[1]) == 1 and recv[1][0] in env and env[recv[1][0]][0] == "dyn":
            if m not in DYN_METHODS or args: raise HmErr("method %s of a dyn parameter" % m)
            name = "%s_%s" % (recv[1][0], m)
            self.add_ext(name, self.a.lt((DYN_METHODS[m],)))
            return name, (DYN_METHODS[m],)
        base, bt = self.expr(recv, env, pre)
        k = bt[0]
        if k == "hmac" and m == "to_byte_array" and not args:
            self.mac = True
            return "(Hm.Eng.finish mac %s)" % base, ("bytes",)
        if k == "bytes" and m in ("as_bytes", "to_vec", "clone", "as_slice", "to_owned", "as_ref", "to_string", "as_str") and not args:
            return base, bt
        if k == "bytes" and m == "len" and not args: return "%s.length" % paren(base), ("usize",)
        if k == "bytes" and m == "split_off" and len(args) == 1:
            n, nt = self.expr(args[0], env, pre)
            if nt != ("usize",): raise HmErr("split_off argument")
            v, r = self.fresh("v"), self.fresh("tail")
            pre.append(("bind", "(%s, %s)" % (v, r), "Hm.splitOff %s %s" % (paren(base), paren(n))))
            self.set_place(self.place(recv), v, env, pre)
            return r, ("bytes",)
        if k == "u64" and m == "to_be_bytes" and not args: return "(Hm.beBytes8 %s)" % base, ("bytes",)
        if k == "i64" and m == "to_be_bytes" and not args: return "(Hm.ibeBytes8 %s)" % base, ("bytes",)
        if k == "list" and m in ("iter", "into_iter", "clone") and not args: return base, bt
        if k == "struct" and m == "clone" and not args: return base, bt
        if k == "struct" and self.a.lookup_method(bt[1], m)[1] is not None:
            ar, info = self.a.lookup_method(bt[1], m)
            if info.is_result or [x for x in info.muts if x != "self"]: raise HmErr("Result / &mut-argument method call")
            if len(args) != len(info.all_params) - 1: raise HmErr("arity of %s" % m)
            terms = []
            for (pn, pt), x in zip(info.all_params[1:], args):
                if pt[0] == "dyn":
                    y = x[1] if x[0] == "ref" else x
                    if not (y[0] == "path" and len(y[1]) == 1 and env.get(y[1][0], ("x",))[0] == "dyn"):
                        raise HmErr("argument for the dyn parameter %s of %s" % (pn, m))
                    continue
                term, t = self.expr(x, env, pre)
                if t != pt: raise HmErr("argument %s of %s" % (pn, m))
                terms.append(paren(term))
            if info.mac: self.mac = True
            for x in info.exts: self.add_ext(*x)
            call = " ".join(["%s.%s" % (ar.name, info.lean_name)] + (["mac"] if info.mac else []) + [n for n, _ in info.exts] + [paren(base)] + terms)
            if "self" in info.muts:
                has_val = info.val_ty != ("unit",)
                ns, r = self.fresh("s"), self.fresh("r")
                pre.append(("let", "(%s, %s)" % (ns, r) if has_val else ns, call))
                self.set_place(self.place(recv), ns, env, pre)
                return (r if has_val else "()"), info.val_ty
            return "(%s)" % call, info.val_ty
        raise HmErr("method .%s on %r is outside the subset" % (m, bt))


def emit_fn(info):
    a = info.area
    L = []
    txt, cur = info.text.split(" "), ""
    com = []
    for w in txt:
        if len(cur) + len(w) > 108: com.append(cur); cur = ""
        cur += (" " if cur else "") + w
    com.append(cur)
    L.append("/- %s:%d  %s%s" % (a.rel, info.line, (info.impl + "::") if info.impl else "", info.name))
    L += ["   " + c.replace("-/", "- /").replace("/-", "/ -") for c in com]
    if info.exts: L.append("   externals (trusted boundary, explicit parameters): " + ", ".join("%s : %s" % x for x in info.exts))
    if info.dropped: L.append("   dropped: " + "; ".join(info.dropped))
    L.append("-/")
    sig = (" (mac : Hm.Bytes → Hm.Bytes → Hm.Bytes)" if info.mac else "") + "".join(" (%s : %s)" % x for x in info.exts) + \
        "".join(" (%s : %s)" % (lid(n), a.lt(t)) for n, t in info.params)
    rt = a.lt(info.out_ty)
    if info.monadic:
        L.append("def %s%s : Rs.M %s := do" % (info.lean_name, sig, rt))
    else:
        L.append("def %s%s : %s :=" % (info.lean_name, sig, rt))
    L += info.body
    return L


def extract(repo):
    props_dir = os.path.join(HERE, "..", "lean", "VlsModel", "Props")
    info_out, outputs, areas = {}, {}, {}
    heads = {}
    for name, rel, fns in AREAS:
        prop, outfile, propsfile = AREA_OUT.get(name, ("C17", "HmacFn.lean", "C17Fn.lean"))
        ns = "VlsModel.Gen." + outfile[:-5]
        pf = os.path.join(props_dir, propsfile)
        ptxt = open(pf).read() if os.path.exists(pf) else ""
        ent = info_out.setdefault(prop, {"facts": {"bytes_fn_gen": {}}, "obligations": []})
        facts, obligations = ent["facts"]["bytes_fn_gen"], ent["obligations"]
        out = outputs.setdefault(outfile, [
            "import VlsModel.Prim.HmacEng",
            "/-! Byte-assembly functions translated from the Rust source by translate/x_hmac.py (semantics of the library",
            "    calls: Prim/HmacEng.lean; outcome monad: Prim/Rs.lean).  `&str`/`String`/`[u8; N]`/`Vec<u8>` are byte lists. -/",
            "namespace %s" % ns, "open VlsModel", ""])
        heads[outfile] = ns
        try:
            ar = Area(repo, name, rel, areas.get(IMPORT_FNS.get(name)))
        except (HmErr, OSError) as e:
            raise ExtractError("x_hmac: cannot index %s: %s" % (rel, e))
        areas[name] = ar
        for impl, fn, thm in fns:
            qn = "%s.%s%s" % (name, (impl + "::") if impl else "", fn)
            if not re.search(r"\btheorem\s+" + re.escape(thm) + r"\b", ptxt) and not os.environ.get("X_HMAC_NOCHECK"):
                raise ExtractError("x_hmac: target %s names theorem %s which is not in Props/%s" % (qn, thm, propsfile))
            try:
                info = ar.get(impl, fn)
                facts[qn] = {"file": rel, "line": info.line, "lean": "%s.%s.%s" % (ns, name, info.lean_name),
                             "monadic": info.monadic, "mac_parameter": info.mac, "externals": ["%s : %s" % x for x in info.exts],
                             "dropped": info.dropped, "sha1": hashlib.sha1(info.text.encode()).hexdigest()[:12], "tied_by": thm}
                obligations.append("Gen.%s.%s.%s = hand-written model (theorem %s)" % (outfile[:-5], name, info.lean_name, thm))
            except HmErr as e:
                facts[qn] = {"file": rel, "translated": False, "why": str(e)}
                obligations.append("Gen.%s: %s is NOT TRANSLATED (outside the subset: %s): %s breaks" % (outfile[:-5], qn, e, thm))
        out.append("namespace %s" % name)
        for sname in ar.used_structs:
            if ar.structs_area(sname) != name: continue
            out.append("/-- `struct %s` -/" % sname)
            out.append("structure %s where" % sname)
            for f, ty in ar.structs[sname]:
                try: ft = ar.lt(ar.resolve(ty, sname)) if ty is not None else "Unit"
                except HmErr: ft = "Unit"     # a field of a type outside the subset (never read by the translated functions)
                out.append("  %s : %s" % (lid(f), ft))
            out += ["deriving DecidableEq, Repr", ""]
        for key in ar.order:
            out += emit_fn(ar.fns[key]) + [""]
        for key, why in ar.failed.items():
            out.append("-- NOT TRANSLATED (outside the subset, fail closed): %s%s: %s" % ((key[0] + "::") if key[0] else "", key[1], why))
        out += ["end %s" % name, ""]
    return ({f: "\n".join(L + ["end %s" % heads[f]]) + "\n" for f, L in outputs.items()}, info_out)
