"""C10 / C11: the *shape* of every state-changing request function of `Channel` and `Node`.

For every non-test function of vls-core/src/channel.rs and vls-core/src/node.rs whose body changes
enforcement state, node state, the channel map, the tracker's listeners or a monitor, or calls the
persister, the body is cut into statements (at every `;`, `{`, `}`) and each statement is classified, in
program order, as

  check                 a statement that can refuse: `?`, `return Err(..)`, `policy_err!(..)`
  mutate c false        an infallible change of component c
  mutate c true         a change of component c made by a call that can itself refuse (`..(&mut state ..)?`)
  persist c             a persister call for component c (its own `?` / `expect` is not a check)

with c in {chan, node (allowlist, approved invoices, velocity, high-water mark), issued (issued invoices),
fee (fee velocity), ledger (payments bookkeeping, re-derived at restore), map (channel map), tracker
(listeners), monitor}.  The result is `Gen/ReqShape.lean`: an enumeration
`Fn` of the functions found and `evs : Fn → List Ev`.  The theorems of Props/C10.lean and Props/C11.lean
state, over this table, that no check follows a mutation except at the sites listed (and argued) there,
and that every mutation of a durable component is followed by its persist call — and tie both facts to
the generic frame / durability theorems.

Fail-closed: a method called on `self.enforcement_state` / `state` / `node_state` that is neither in the
read-only list nor in the mutation patterns raises, so new code has to be classified before the check
can pass again.
"""
import re
from rustsrc import read, strip_comments, ExtractError

FILES = [("channel", "vls-core/src/channel.rs"), ("node", "vls-core/src/node.rs")]

# functions that are not requests: constructors / restore paths / test helpers / the persist helpers themselves
EXCLUDE = {
    "set_next_holder_commit_num_for_testing", "set_next_counterparty_commit_num_for_testing",
    "set_next_counterparty_revoke_num_for_testing", "persist", "update_allowlist", "persist_all",
    "maybe_sync_persister", "new_from_persistence", "restore_node", "restore_payments", "new_full", "new", "new_extended",
    "update_velocity_controls",
}

CHAN_MUT = [
    r"self\.enforcement_state\.\w+\s*=[^=]",
    r"self\.enforcement_state\.\w+\.take\(\)",
    r"self\.enforcement_state\.\w+\.as_mut\(\)",
    r"self\.enforcement_state\.set_\w+\(",
    r"\.set_next_\w+\(\s*&mut\s+self\.enforcement_state",
    r"self\s*\.\s*advance_holder_commitment_state\(",
    r"self\.enforcement_state\.\w+\.(insert|remove|push|clear|provide_secret|retain)\(",
]
# read-only uses of the enforcement state (anything else that is not a mutation pattern is an error)
CHAN_RO_METHODS = {
    "claimable_balances", "incoming_payments_summary", "payments_summary", "get_previous_counterparty_point",
    "get_previous_counterparty_commit_info", "get_current_counterparty_commit_info", "minimum_to_holder_value",
    "minimum_to_counterparty_value", "current_holder_commit_info", "current_counterparty_commit_info",
    "previous_counterparty_commit_info", "next_holder_commit_info", "current_counterparty_signatures",
    "counterparty_secrets", "balance", "get_counterparty_secret",
}
# calls that take `&mut EnforcementState` but only read it (checked by hand: validator.rs)
CHAN_RO_MUTREF = ["get_current_holder_commitment_info("]
NODE_MUT = [
    r"\bstate\.(allowlist|invoices)\.(insert|remove|clear|retain)\(",
    r"\bstate\.velocity_control\.(insert|update_spec)\(",
    r"\b(node_)?state\.dbid_high_water_mark\s*=[^=]",
    r"\bstate\.prune_\w+\(",
]
ISSUED_MUT = [r"\bstate\.issued_invoices\.(insert|remove|clear|retain)\("]
FEE_MUT = [r"\bstate\.fee_velocity_control\.(insert|update_spec)\("]
LEDGER_MUT = [
    r"\bstate\.apply_payments\(", r"\bstate\.payments\.(insert|remove|clear|entry|retain)\(", r"\bstate\.htlc_fulfilled\(",
]
NODE_RO_METHODS = {
    "validate_payments", "summary", "len", "get", "contains_key", "iter", "clone", "velocity", "is_empty", "values",
    "keys", "to_string", "contains", "payment_status", "validate_and_apply_payments", "log_prefix",
}
MAP_MUT = [r"\bchannels\.(insert|remove)\("]
TRK_MUT = [r"\btracker\.(add_listener|remove_listener|add_listener_watches|add_block|remove_block)\("]
MON_MUT = [r"self\.monitor\.(forget_channel|add_funding_inputs|add_funding_outpoint|set_\w+)\(", r"\bchan\.forget\(\)", r"\.funding_signed\("]
PERSIST = [
    (r"self\.persist\(\)", "chan"), (r"\.update_channel\(", "chan"), (r"\.new_channel\(\s*&self\.get_id\(\)", "chan"),
    (r"\.delete_channel\(", "chan"), (r"\.update_node\(", "node"), (r"\.update_node_allowlist\(", "node"),
    (r"self\.update_allowlist\(", "node"), (r"\.update_tracker\(", "tracker"),
]
CHECK = [r"\?\s*($|[;),.\]}])", r"\breturn\s+Err\(", r"\bpolicy_err!\(", r"^\s*Err\("]

COMPS = ["chan", "node", "issued", "fee", "ledger", "map", "tracker", "monitor"]


def functions(src):
    """(name, body) for every fn with a body, in source order"""
    out = []
    for m in re.finditer(r"\bfn\s+(\w+)\s*(?:<[^>(]*>)?\s*\(", src):
        depth, j = 0, m.end() - 1
        while j < len(src):
            if src[j] == "(":
                depth += 1
            elif src[j] == ")":
                depth -= 1
                if depth == 0:
                    break
            j += 1
        k, ang = j, 0
        while k < len(src) and not (src[k] == "{" and ang <= 0) and src[k] != ";":
            if src[k] == "<":
                ang += 1
            elif src[k] == ">" and src[k - 1] != "-":
                ang -= 1
            k += 1
        if k >= len(src) or src[k] == ";":
            continue
        d, e = 0, k
        while e < len(src):
            if src[e] == "{":
                d += 1
            elif src[e] == "}":
                d -= 1
                if d == 0:
                    break
            e += 1
        if e >= len(src):
            raise ExtractError("unbalanced braces in fn " + m.group(1))
        out.append((m.group(1), src[k + 1:e]))
    return out


def classify(stmt, fname):
    """events of one statement"""
    s = stmt
    evs = []
    mut = None
    for pats, comp in ((CHAN_MUT, "chan"), (NODE_MUT, "node"), (ISSUED_MUT, "issued"), (FEE_MUT, "fee"), (LEDGER_MUT, "ledger"), (MAP_MUT, "map"),
                       (TRK_MUT, "tracker"), (MON_MUT, "monitor")):
        if any(re.search(p, s) for p in pats):
            mut = comp
            break
    pers = None
    for p, comp in PERSIST:
        if re.search(p, s):
            pers = comp
            break
    fallible = any(re.search(p, s, re.M) for p in CHECK)
    # fail-closed: unknown method on the enforcement state
    for m in re.finditer(r"self\.enforcement_state\.(\w+)\(", s):
        if m.group(1) not in CHAN_RO_METHODS and not any(re.search(p, s) for p in CHAN_MUT):
            raise ExtractError(f"{fname}: unclassified method `{m.group(1)}` on self.enforcement_state; "
                               "add it to translate/x_reqshape.py (read-only list or mutation patterns)")
    if re.search(r"&mut\s+self\.enforcement_state", s) and mut != "chan" and not any(r in s for r in CHAN_RO_MUTREF):
        raise ExtractError(f"{fname}: `&mut self.enforcement_state` passed to an unclassified call: {s.strip()[:80]}")
    if pers:
        return [("persist", pers, False)]
    if mut:
        return [("mutate", mut, fallible)]
    if fallible:
        return [("check", None, False)]
    return evs


def shape(body, fname):
    evs = []
    body = re.sub(r'"(?:\\.|[^"\\])*"', '""', body)      # string literals (format braces, question marks)
    for stmt in re.split(r"[;{}]", body):
        if stmt.strip():
            evs += classify(stmt, fname)
    return evs


def lean_ev(e):
    k, c, f = e
    if k == "check":
        return ".check"
    if k == "persist":
        return f".persist .{c}"
    return f".mutate .{c} {'true' if f else 'false'}"


def extract(repo):
    rows = []
    for tag, rel in FILES:
        src = strip_comments(read(repo, rel))
        cut = src.find("#[cfg(test)]\nmod tests")
        if cut > 0:
            src = src[:cut]
        seen = set()
        for name, body in functions(src):
            if name in EXCLUDE or name in seen:
                continue
            evs = shape(body, name)
            if any(k in ("mutate", "persist") for k, _, _ in evs):
                seen.add(name)
                rows.append((tag, name, evs))
    names = [n for _, n, _ in rows]
    if len(set(names)) != len(names):
        dup = sorted({n for n in names if names.count(n) > 1})
        raise ExtractError("request function names are not unique across channel.rs/node.rs: " + str(dup))
    for must in ("validate_holder_commitment_tx_phase2", "revoke_previous_holder_commitment",
                 "sign_counterparty_commitment_tx_phase2", "validate_counterparty_revocation", "add_allowlist",
                 "add_keysend", "add_invoice", "forget_channel", "setup_channel", "find_or_create_channel"):
        if must not in names:
            raise ExtractError("request function not found (renamed?): " + must)
    lean = ["import VlsModel.Model.ReqShape",
            "/- Shapes (checks, mutations, persist calls in program order) of the state-changing request functions",
            "   of vls-core/src/channel.rs and vls-core/src/node.rs, extracted from the current sources. -/",
            "namespace VlsModel.Gen.ReqShape", "open VlsModel.ReqShape", "",
            "/-- the state-changing functions found -/", "inductive Fn"]
    lean += ["  | " + " | ".join(names), "  deriving DecidableEq, Repr", ""]
    lean.append("def Fn.all : List Fn := [" + ", ".join("." + n for n in names) + "]")
    lean.append("")
    lean.append("/-- `true`: defined in channel.rs (a method of `Channel`), `false`: node.rs -/")
    lean.append("def Fn.isChannel : Fn → Bool")
    for tag, n, _ in rows:
        lean.append(f"  | .{n} => {'true' if tag == 'channel' else 'false'}")
    lean.append("")
    lean.append("/-- program-order events of each function -/")
    lean.append("def evs : Fn → List Ev")
    for _, n, e in rows:
        lean.append(f"  | .{n} => [" + ", ".join(lean_ev(x) for x in e) + "]")
    lean.append("")
    lean.append("end VlsModel.Gen.ReqShape")
    facts = {n: " ".join(("C" if k == "check" else ("P:" + c if k == "persist" else "M:" + c + ("?" if f else ""))) for k, c, f in e)
             for _, n, e in rows}
    obl10 = ["Gen.ReqShape: no check follows a mutation in any request function except at the listed, argued sites (theorem C10_gen_shape_table); tie to the frame theorem: C10_shape_frame"]
    obl11 = ["Gen.ReqShape: every mutation of a durable component (chan, node, tracker) is followed by its persist call (theorem C11_gen_shape_persist); tie: C11_shape_durable"]
    return {"ReqShape.lean": "\n".join(lean) + "\n"}, {
        "C10": {"facts": {"request_shapes": facts}, "obligations": obl10},
        "C11": {"facts": {"request_shapes": facts}, "obligations": obl11},
    }


if __name__ == "__main__":
    out, info = extract("/repo")
    print(out["ReqShape.lean"])
