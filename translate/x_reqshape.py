"""C10 / C11: the *shape* of every state-changing request function of `Channel` and `Node`.

For every non-test function of vls-core/src/channel.rs and vls-core/src/node.rs whose body changes
enforcement state, node state, the channel map, the tracker's listeners or a monitor, or calls the
persister, the body is cut into statements (at every `;`, `{`, `}`) and each statement is classified, in
program order, as

  check                 a statement that can refuse: `?`, `return Err(..)`, `policy_err!(..)`
  mutate c false        an infallible change of component c
  mutate c true         a change of component c made by a call that can itself refuse (`..(&mut state ..)?`)
  persist c             a persister call for component c (its own `?` / `expect` is not a check)

with c in {chan, node (allowlist, approved invoices, velocity, high-water mark), issued (issued invoices),
fee (fee velocity), ledger (payments bookkeeping, re-derived at restore), map (channel map), tracker
(listeners), monitor}.  The result is `Gen/ReqShape.lean`: an enumeration
`Fn` of the functions found and `evs : Fn → List Ev`.  The theorems of Props/C10.lean and Props/C11.lean
state, over this table, that no check follows a mutation except at the sites listed (and argued) there,
and that every mutation of a durable component is followed by its persist call — and tie both facts to
the generic frame / durability theorems.

Fail-closed: a method called on `self.enforcement_state` / `state` / `node_state` that is neither in the
read-only list nor in the mutation patterns raises, so new code has to be classified before the check
can pass again.
"""
import re
from rustsrc import read, strip_comments, ExtractError

FILES = [("channel", "vls-core/src/channel.rs"), ("node", "vls-core/src/node.rs")]

# functions that are not requests: constructors / restore paths / test helpers / the persist helpers themselves
EXCLUDE = {
    "set_next_holder_commit_num_for_testing", "set_next_counterparty_commit_num_for_testing",
    "set_next_counterparty_revoke_num_for_testing", "persist", "update_allowlist", "persist_all",
    "maybe_sync_persister", "new_from_persistence", "restore_node", "restore_payments", "new_full", "new", "new_extended",
    "update_velocity_controls",
}

CHAN_MUT = [
    r"self\.enforcement_state\.\w+\s*=[^=]",
    r"self\.enforcement_state\.\w+\.take\(\)",
    r"self\.enforcement_state\.\w+\.as_mut\(\)",
    r"self\.enforcement_state\.set_\w+\(",
    r"\.set_next_\w+\(\s*&mut\s+self\.enforcement_state",
    r"self\s*\.\s*advance_holder_commitment_state\(",
    r"self\.enforcement_state\.\w+\.(insert|remove|push|clear|provide_secret|retain)\(",
]
# read-only uses of the enforcement state (anything else that is not a mutation pattern is an error)
CHAN_RO_METHODS = {
    "claimable_balances", "incoming_payments_summary", "payments_summary", "get_previous_counterparty_point",
    "get_previous_counterparty_commit_info", "get_current_counterparty_commit_info", "minimum_to_holder_value",
    "minimum_to_counterparty_value", "current_holder_commit_info", "current_counterparty_commit_info",
    "previous_counterparty_commit_info", "next_holder_commit_info", "current_counterparty_signatures",
    "counterparty_secrets", "balance", "get_counterparty_secret",
}
# calls that take `&mut EnforcementState` but only read it (checked by hand: validator.rs)
CHAN_RO_MUTREF = ["get_current_holder_commitment_info("]
# the node state is reached through a guard variable (`state`, `node_state`) or directly (`self.get_state().x`)
ST = r"(?:\b(?:node_)?state|get_state\(\))"
NODE_MUT = [
    ST + r"\.(allowlist|invoices)\.(insert|remove|clear|retain|extend|append)\(",
    ST + r"\.(allowlist|invoices)\s*=[^=]",
    ST + r"\.velocity_control\.(insert|update_spec|clear)\(",
    ST + r"\.dbid_high_water_mark\s*=[^=]",
    ST + r"\.prune_\w+\(",
]
ISSUED_MUT = [ST + r"\.issued_invoices\.(insert|remove|clear|retain|extend|append)\("]
FEE_MUT = [ST + r"\.fee_velocity_control\.(insert|update_spec|clear)\("]
LEDGER_MUT = [
    ST + r"\.apply_payments\(", ST + r"\.payments\.(insert|remove|clear|entry|retain)\(", ST + r"\.htlc_fulfilled\(",
]
NODE_RO_METHODS = {
    "validate_payments", "summary", "len", "get", "contains_key", "iter", "clone", "velocity", "is_empty", "values",
    "keys", "to_string", "contains", "payment_status", "validate_and_apply_payments", "log_prefix",
}
MAP_MUT = [r"\bchannels\.(insert|remove)\("]
TRK_MUT = [r"\btracker\.(add_listener|remove_listener|add_listener_watches|add_block|remove_block)\("]
MON_MUT = [r"self\.monitor\.(forget_channel|add_funding_inputs|add_funding_outpoint|set_\w+)\(", r"\bchan\.forget\(\)", r"\.funding_signed\("]
PERSIST = [
    (r"self\.persist\(\)", "chan"), (r"\.update_channel\(", "chan"), (r"\.new_channel\(\s*&self\.get_id\(\)", "chan"),
    (r"\.delete_channel\(", "chan"), (r"\.update_node\(", "node"), (r"\.update_node_allowlist\(", "node"),
    (r"self\.update_allowlist\(", "node"), (r"\.update_tracker\(", "tracker"),
]
CHECK = [r"\?\s*($|[;),.\]}])", r"\breturn\s+Err\(", r"\bpolicy_err!\(", r"^\s*Err\("]

COMPS = ["chan", "node", "issued", "fee", "ledger", "map", "tracker", "monitor"]


def functions(src):
    """(name, body) for every fn with a body, in source order"""
    out = []
    for m in re.finditer(r"\bfn\s+(\w+)\s*(?:<[^>(]*>)?\s*\(", src):
        depth, j = 0, m.end() - 1
        while j < len(src):
            if src[j] == "(":
                depth += 1
            elif src[j] == ")":
                depth -= 1
                if depth == 0:
                    break
            j += 1
        k, ang = j, 0
        while k < len(src) and not (src[k] == "{" and ang <= 0) and src[k] != ";":
            if src[k] == "<":
                ang += 1
            elif src[k] == ">" and src[k - 1] != "-":
                ang -= 1
            k += 1
        if k >= len(src) or src[k] == ";":
            continue
        d, e = 0, k
        while e < len(src):
            if src[e] == "{":
                d += 1
            elif src[e] == "}":
                d -= 1
                if d == 0:
                    break
            e += 1
        if e >= len(src):
            raise ExtractError("unbalanced braces in fn " + m.group(1))
        out.append((m.group(1), src[k + 1:e]))
    return out


def classify(stmt, fname):
    """events of one statement"""
    s = stmt
    evs = []
    mut = None
    for pats, comp in ((CHAN_MUT, "chan"), (NODE_MUT, "node"), (ISSUED_MUT, "issued"), (FEE_MUT, "fee"), (LEDGER_MUT, "ledger"), (MAP_MUT, "map"),
                       (TRK_MUT, "tracker"), (MON_MUT, "monitor")):
        if any(re.search(p, s) for p in pats):
            mut = comp
            break
    pers = None
    for p, comp in PERSIST:
        if re.search(p, s):
            pers = comp
            break
    fallible = any(re.search(p, s, re.M) for p in CHECK)
    # fail-closed: unknown method on the enforcement state
    for m in re.finditer(r"self\.enforcement_state\.(\w+)\(", s):
        if m.group(1) not in CHAN_RO_METHODS and not any(re.search(p, s) for p in CHAN_MUT):
            raise ExtractError(f"{fname}: unclassified method `{m.group(1)}` on self.enforcement_state; "
                               "add it to translate/x_reqshape.py (read-only list or mutation patterns)")
    if re.search(r"&mut\s+self\.enforcement_state", s) and mut != "chan" and not any(r in s for r in CHAN_RO_MUTREF):
        raise ExtractError(f"{fname}: `&mut self.enforcement_state` passed to an unclassified call: {s.strip()[:80]}")
    if pers:
        return [("persist", pers, False)]
    if mut:
        return [("mutate", mut, fallible)]
    if fallible:
        return [("check", None, False)]
    return evs


def shape(body, fname):
    evs = []
    body = re.sub(r'"(?:\\.|[^"\\])*"', '""', body)      # string literals (format braces, question marks)
    for stmt in re.split(r"[;{}]", body):
        if stmt.strip():
            evs += classify(stmt, fname)
    return evs


# ---- second pass: calls inlined, block structure, handler arms ------------------------------------

HANDLER = "vls-protocol-signer/src/handler.rs"
# receivers through which a function of channel.rs / node.rs / handler.rs is called
RECEIVER = r"(?:\b(?:self|Self|arc_self|node|chan|channel|base|Node|Channel)(?:\.node(?:\(\))?)?\s*(?:\.|::)\s*|(?<![\w.:]))"
NOT_CALLS = {"new", "from", "into", "clone", "map", "ok", "get", "len", "iter", "insert", "remove", "handle", "do_handle",
             "node", "commit", "with_persist", "lock", "unwrap", "expect", "Some", "Ok", "Err", "Box", "format", "min", "max"}


def norm(src):
    """method chains broken over lines: no whitespace in front of a `.`"""
    return re.sub(r"\s+\.(?=[A-Za-z_])", ".", src)


def stmts_with_paths(body):
    """[(statement text, block path, id of the block closed just in front of the statement or None)]: statements
    end at `;`, `{`, `}`; the text in front of a `{` belongs to the enclosing block; every `{` opens a new block"""
    body = re.sub(r'"(?:\\.|[^"\\])*"', '""', body)
    out, path, cur, ctr, closed = [], (), [], 0, None
    for ch in body:
        if ch in ";{}":
            txt = "".join(cur)
            if txt.strip():
                out.append((txt, path, closed))
            if txt.strip() or ch != "}":
                closed = None
            cur = []
            if ch == "{":
                ctr += 1
                path = path + (ctr,)
            elif ch == "}":
                closed = path[-1] if path else None
                path = path[:-1]
        else:
            cur.append(ch)
    txt = "".join(cur)
    if txt.strip():
        out.append((txt, path, closed))
    return out


def raw_shape(body, fname, universe):
    """events with block paths; a statement that calls functions of the universe and is not classified by the
    patterns is a placeholder ("calls", [names], fallible, swallowed): `fallible` = the statement itself can
    refuse (`?`, ..), `swallowed` = the caller visibly discards the callee's error"""
    evs = []
    for stmt, path, closed in stmts_with_paths(norm(body)):
        if re.fullmatch(r"[\s)]*\)\s*\?\s*", stmt) and closed is not None and \
                any(p[:len(path) + 1] == path + (closed,) for _, p in evs):
            continue        # `})?` behind a closure that produced events: propagates their refusal, none of its own
        # match patterns `Ok(x) =>` / `Err(e) =>` are not `Err(..)` values: only what follows the arrow counts
        stmt = re.sub(r"(?m)^\s*(?:Ok|Err)\s*\((?:[^()]|\((?:[^()]|\([^()]*\))*\))*\)\s*=>", " ", stmt)
        if not stmt.strip():
            continue
        own = classify(stmt, fname)
        if own and own[0][0] in ("mutate", "persist"):
            evs.append((own[0], path))
            continue
        calls = []
        for m in re.finditer(RECEIVER + r"(\w+)\s*\(", stmt):
            n = m.group(1)
            if n in universe and n not in NOT_CALLS and n != fname and n not in EXCLUDE:
                calls.append((m.start(), n))
        swallowed = not own and bool(re.search(r"\blet\s+_\s*=|\.ok\(\)|\.unwrap_or", stmt))
        if calls:
            evs.append((("calls", [n for _, n in sorted(calls)], bool(own), swallowed), path))
        elif own:
            evs.append((own[0], path))
    return evs


def expand(name, raws, memo, stack=()):
    """events of a function with every call of a state-changing function replaced by the callee's events (its
    refusing statements included unless the caller discards the error).  A statement that only calls functions
    without effects is one check if it can refuse (itself, or because a callee in it has refusing statements).
    Inlined events carry the call's block path and an instance tag."""
    if name in memo:
        return memo[name]
    if name in stack:
        raise ExtractError("recursive request functions: " + " -> ".join(stack + (name,)))
    out, inst = [], 0
    for ev, path in raws[name]:
        if ev[0] != "calls":
            out.append((ev, path, None))
            continue
        _, names, fallible, swallowed = ev
        callees = [expand(n, raws, memo, stack + (name,)) for n in names]
        effectful = [c for c in callees if any(e[0] in ("mutate", "persist") for e, _, _ in c)]
        if not effectful:
            if not swallowed and (fallible or any(e[0] == "check" or (e[0] == "mutate" and e[2]) for c in callees for e, _, _ in c)):
                out.append((("check", None, False), path, None))
            continue
        for callee in effectful:
            inst += 1
            clean = not py_left_dirty([e for e, _, _ in callee])
            for e, _, _ in callee:
                if swallowed and e[0] == "check":
                    continue
                if swallowed and e[0] == "mutate" and e[2]:
                    e = ("mutate", e[1], False)
                out.append((e, path, (inst, clean)))
    memo[name] = out
    return out


PERSISTED_BY = {"chan": "chan", "node": "node", "tracker": "tracker", "map": "chan", "monitor": "tracker"}


def py_left_dirty(evs):
    """mirror of ReqShape.leftDirty (Lean): components with a persist call of their own, mutated and not written afterwards"""
    dirty = set()
    for e in evs:
        if e[0] == "mutate":
            dirty.add(e[1])
        elif e[0] == "persist":
            dirty = {c for c in dirty if PERSISTED_BY.get(c) != e[1]}
    return sorted(c for c in dirty if c in PERSISTED_BY)


def conditional_persists(evs):
    """own persist calls that sit in a block which does not enclose an earlier mutation they cover: control can
    pass the mutation and reach the end of the function without passing the call.  Events inlined from a callee
    that leaves nothing dirty are a unit of their own (analysed in the callee's row)."""
    out = []
    for i, (e, path, tag) in enumerate(evs):
        if e[0] != "persist" or tag is not None:
            continue
        for (m, mp, mtag) in evs[:i]:
            if m[0] != "mutate" or PERSISTED_BY.get(m[1]) != e[1] or (mtag is not None and mtag[1]):
                continue
            if mp[:len(path)] != path:
                later = [1 for (q, qp, qt) in evs[i + 1:] if q[0] == "persist" and q[1] == e[1] and qt is None and mp[:len(qp)] == qp]
                if not later and (e[1], m[1]) not in out:
                    out.append((e[1], m[1]))
    return out


def handler_arms(src):
    """[(handler tag, message name, arm text)] of the `do_handle` match of RootHandler and ChannelHandler"""
    arms = []
    for tag, impl in (("root", r"impl\s+Handler\s+for\s+RootHandler\s*\{"), ("chan", r"impl\s+Handler\s+for\s+ChannelHandler\s*\{")):
        m = re.search(impl, src)
        if not m:
            raise ExtractError("handler.rs: impl not found: " + impl)
        fm = re.search(r"\bfn\s+do_handle\s*\(", src[m.end():])
        if not fm:
            raise ExtractError("handler.rs: do_handle not found in " + impl)
        start = m.end() + fm.end()
        mm = re.search(r"\bmatch\s+msg\s*\{", src[start:])
        if not mm:
            raise ExtractError("handler.rs: `match msg` not found in do_handle of " + tag)
        i = start + mm.end() - 1
        depth, j = 0, i
        while j < len(src):
            if src[j] == "{":
                depth += 1
            elif src[j] == "}":
                depth -= 1
                if depth == 0:
                    break
            j += 1
        body = src[i + 1:j]
        # arm starts at nesting depth 0 of the match body
        starts, depth = [], 0
        for k, ch in enumerate(body):
            if ch in "{([":
                depth += 1
            elif ch in "})]":
                depth -= 1
            elif depth == 0 and body.startswith("Message::", k) and (k == 0 or not (body[k - 1].isalnum() or body[k - 1] in "_:")):
                am = re.match(r"Message::(\w+)\s*(?:\([^)]*\))?\s*=>", body[k:])
                if am:
                    starts.append((k, am.group(1), k + am.end()))
        if len(starts) < 10:
            raise ExtractError("handler.rs: too few arms found in do_handle of " + tag)
        for n, (k, name, e) in enumerate(starts):
            end = starts[n + 1][0] if n + 1 < len(starts) else len(body)
            arms.append((tag, name, body[e:end]))
    return arms


def lean_ev(e):
    k, c, f = e
    if k == "check":
        return ".check"
    if k == "persist":
        return f".persist .{c}"
    return f".mutate .{c} {'true' if f else 'false'}"


def extract(repo):
    rows = []
    for tag, rel in FILES:
        src = strip_comments(read(repo, rel))
        cut = src.find("#[cfg(test)]\nmod tests")
        if cut > 0:
            src = src[:cut]
        seen = set()
        for name, body in functions(src):
            if name in EXCLUDE or name in seen:
                continue
            evs = shape(body, name)
            if any(k in ("mutate", "persist") for k, _, _ in evs):
                seen.add(name)
                rows.append((tag, name, evs))
    names = [n for _, n, _ in rows]
    if len(set(names)) != len(names):
        dup = sorted({n for n in names if names.count(n) > 1})
        raise ExtractError("request function names are not unique across channel.rs/node.rs: " + str(dup))
    for must in ("validate_holder_commitment_tx_phase2", "revoke_previous_holder_commitment",
                 "sign_counterparty_commitment_tx_phase2", "validate_counterparty_revocation", "add_allowlist",
                 "add_keysend", "add_invoice", "forget_channel", "setup_channel", "find_or_create_channel"):
        if must not in names:
            raise ExtractError("request function not found (renamed?): " + must)
    lean = ["import VlsModel.Model.ReqShape",
            "/- Shapes (checks, mutations, persist calls in program order) of the state-changing request functions",
            "   of vls-core/src/channel.rs and vls-core/src/node.rs, extracted from the current sources. -/",
            "namespace VlsModel.Gen.ReqShape", "open VlsModel.ReqShape", "",
            "/-- the state-changing functions found -/", "inductive Fn"]
    lean += ["  | " + " | ".join(names), "  deriving DecidableEq, Repr", ""]
    lean.append("def Fn.all : List Fn := [" + ", ".join("." + n for n in names) + "]")
    lean.append("")
    lean.append("/-- `true`: defined in channel.rs (a method of `Channel`), `false`: node.rs -/")
    lean.append("def Fn.isChannel : Fn → Bool")
    for tag, n, _ in rows:
        lean.append(f"  | .{n} => {'true' if tag == 'channel' else 'false'}")
    lean.append("")
    lean.append("/-- program-order events of each function -/")
    lean.append("def evs : Fn → List Ev")
    for _, n, e in rows:
        lean.append(f"  | .{n} => [" + ", ".join(lean_ev(x) for x in e) + "]")
    lean.append("")
    # ---- second pass ------------------------------------------------------------------------------
    universe = {}
    row_names = {n for _, n, _ in rows}
    for tag, rel in FILES + [("handler", HANDLER)]:
        src = strip_comments(read(repo, rel))
        cut = src.find("#[cfg(test)]\nmod tests")
        if cut > 0:
            src = src[:cut]
        for name, body in functions(src):
            if name in EXCLUDE or name in NOT_CALLS:
                continue
            direct = any(k in ("mutate", "persist") for k, _, _ in shape(body, name)) if tag != "handler" else False
            # a name defined more than once: the definition with effects of its own is the one the table lists
            if name not in universe or (name in row_names and direct):
                universe[name] = (tag, body)
    hsrc = strip_comments(read(repo, HANDLER))
    arms = handler_arms(hsrc)
    raws = {n: raw_shape(b, n, universe) for n, (_, b) in universe.items()}
    arm_names = []
    for tag, msg, text in arms:
        an = f"{tag}_{msg}"
        if an in raws:
            raise ExtractError("handler arm listed twice: " + an)
        raws[an] = raw_shape(text, an, universe)
        arm_names.append(an)
    memo = {}
    full = {n: expand(n, raws, memo) for n in raws}
    flat = lambda evs: [e for e, _, _ in evs]
    lean.append("/-- the same functions with every call of another state-changing function of channel.rs / node.rs replaced")
    lean.append("    by the callee's events (its refusing statements are kept when the call's error is propagated) -/")
    lean.append("def evsFull : Fn → List Ev")
    for _, n, e in rows:
        lean.append(f"  | .{n} => [" + ", ".join(lean_ev(x) for x in flat(full[n])) + "]")
    lean.append("")
    live_arms = [a for a in arm_names if any(e[0] in ("mutate", "persist") for e in flat(full[a]))]
    for must in ("root_AddBlock", "root_RemoveBlock", "root_NewChannel", "root_ForgetChannel", "chan_ValidateCommitmentTx2",
                 "chan_RevokeCommitmentTx", "chan_SignRemoteCommitmentTx2", "chan_ValidateRevocation", "chan_SetupChannel"):
        if must not in live_arms:
            raise ExtractError("handler arm not found or without effect (renamed?): " + must)
    lean.append("/-- the arms of `do_handle` (vls-protocol-signer/src/handler.rs; `root_` = RootHandler, `chan_` = ChannelHandler)")
    lean.append("    that change state: through a state-changing function of vls-core or on the tracker / persister directly -/")
    lean.append("inductive Arm")
    lean += ["  | " + " | ".join(live_arms), "  deriving DecidableEq, Repr", ""]
    lean.append("def Arm.all : List Arm := [" + ", ".join("." + n for n in live_arms) + "]")
    lean.append("")
    lean.append("/-- events of an arm: its own statements and, at the call site, the events of the vls-core functions it calls -/")
    lean.append("def armEvs : Arm → List Ev")
    for a in live_arms:
        lean.append(f"  | .{a} => [" + ", ".join(lean_ev(x) for x in flat(full[a])) + "]")
    lean.append("")
    cond_fn = [(n, conditional_persists(full[n])) for _, n, _ in rows]
    cond_arm = [(a, conditional_persists(full[a])) for a in live_arms]
    lean.append("/-- persist calls inside a block that does not enclose an earlier mutation they cover (persisted component,")
    lean.append("    mutated component): the call can be skipped after the mutation was made -/")
    lean.append("def condPersistFn : List (Fn × List (Comp × Comp)) := [" + ", ".join(
        f"(.{n}, [" + ", ".join(f"(.{a}, .{b})" for a, b in c) + "])" for n, c in cond_fn if c) + "]")
    lean.append("def condPersistArm : List (Arm × List (Comp × Comp)) := [" + ", ".join(
        f"(.{n}, [" + ", ".join(f"(.{a}, .{b})" for a, b in c) + "])" for n, c in cond_arm if c) + "]")
    lean.append("")
    lean.append("end VlsModel.Gen.ReqShape")
    fmt = lambda e: " ".join(("C" if k == "check" else ("P:" + c if k == "persist" else "M:" + c + ("?" if f else ""))) for k, c, f in e)
    arm_facts = {a: fmt(flat(full[a])) for a in live_arms}
    facts = {n: " ".join(("C" if k == "check" else ("P:" + c if k == "persist" else "M:" + c + ("?" if f else ""))) for k, c, f in e)
             for _, n, e in rows}
    obl10 = ["Gen.ReqShape: no check follows a mutation in any request function except at the listed, argued sites (theorem C10_gen_shape_table); tie to the frame theorem: C10_shape_frame"]
    obl11 = ["Gen.ReqShape: every mutation of a durable component (chan, node, tracker) is followed by its persist call (theorem C11_gen_shape_persist); tie: C11_shape_durable"]
    return {"ReqShape.lean": "\n".join(lean) + "\n"}, {
        "C10": {"facts": {"request_shapes": facts, "handler_arm_shapes": arm_facts}, "obligations": obl10 + [
            "Gen.ReqShape.armEvs / evsFull: late refusing statements of handler arms and of functions with inlined callees are exactly the listed, argued ones (theorems C10_gen_arm_table, C10_gen_shape_table_full)"]},
        "C11": {"facts": {"request_shapes": facts, "handler_arm_shapes": arm_facts}, "obligations": obl11 + [
            "Gen.ReqShape.armEvs / evsFull / condPersist*: no handler arm leaves a persisted component dirty, conditional persist calls are exactly the listed ones (theorems C11_gen_arm_persist, C11_gen_shape_persist_full, C11_gen_cond_persist)"]},
    }


if __name__ == "__main__":
    out, info = extract("/repo")
    txt = out["ReqShape.lean"]
    print(txt[txt.find("def evsFull"):])
