#!/usr/bin/env python3
"""Regression check of the generated function definitions (run by bin/setup right after translate/gen.py; by hand:
`python3 translate/test_gen_stable.py [--repo /repo]`).

1. Every function that TARGETS (x_fn.py) / translate/fn_targets/*.json list **with a tying theorem** must be translated:
   a `-- NOT TRANSLATED` line for such a function is reported here *by name* (area, function, theorem, Props file,
   the translator's reason) instead of surfacing later as an unrelated-looking Lean error in `Props/CxxFn.lean`.
   (On a changed source tree `bin/check Cxx` still reports exactly the properties that rest on the function; this
   script is about the unchanged tree: a translator change or a merge must not lose a tied function.)
2. With `--gen DIR` (default lean/VlsModel/Gen): the `Fn<Area>.lean` files on disk must agree with that — no
   `-- NOT TRANSLATED … <fn>` comment for a tied function (a stale or badly merged generated file).
3. With `--baseline FILE`: the names and sha1 of all translated targets are compared with a stored list
   (`--write-baseline FILE` stores it): every function whose generated text changed, appeared or disappeared is
   listed.  Used while extending rs2lean.py ("no previously translated function changes its text unless intended").

Input: either the JSON that gen.py prints (`--info FILE`, no second translation) or a translation run of its own."""
import sys, os, re, json, argparse, hashlib
HERE = os.path.dirname(os.path.abspath(__file__))
sys.path.insert(0, HERE)


def facts_from_run(repo):
    """{(area, qualified name): {"translated", "why", "tied_by", "property", "sha1"}} by translating every target"""
    import x_fn
    out = {}
    for tg in x_fn.load_targets():
        u = x_fn.unit_for(repo, tg)
        for tup in tg["fns"]:
            impl, name, prop, thm = tup[:4]
            impl = impl or None
            try:
                f = u.try_fn(impl, name)
            except Exception as e:            # a crash is a refusal with a name, never a silent pass
                f = None; u.failed[(impl, name)] = "translator crashed: %r" % (e,)
            qn = (impl + "::" if impl else "") + name
            out[(tg["area"], qn)] = {"translated": f is not None, "why": None if f else u.failed.get((impl, name)),
                                     "tied_by": thm, "property": prop, "props_module": tg.get("props_module") or (prop + "Fn"),
                                     "sha1": hashlib.sha1(f.text.encode()).hexdigest()[:12] if f else None}
    return out


def facts_from_info(path):
    txt = open(path).read().strip()
    info = json.loads(txt.splitlines()[-1])
    out = {}
    for prop, ent in info.items():
        for qn, d in ent.get("facts", {}).get("fn_gen", {}).items():
            area = d.get("area") or (d.get("lean", "").split(".")[2][2:] if d.get("lean") else "?")
            out[(area, qn)] = {"translated": d.get("translated", True), "why": d.get("why"), "tied_by": d.get("tied_by"),
                               "property": prop, "props_module": d.get("props_module") or (prop + "Fn"), "sha1": d.get("sha1")}
    return out


def check(facts, gen_dir=None):
    """list of messages, one per tied function that is not translated"""
    bad = []
    for (area, qn), d in sorted(facts.items()):
        if d["tied_by"] and not d["translated"]:
            bad.append("Gen.Fn%s: %s is NOT TRANSLATED but tied by theorem %s (Props/%s.lean): %s" % (
                area, qn, d["tied_by"], d["props_module"], d["why"]))
    if gen_dir and os.path.isdir(gen_dir):
        tied = {}
        for (area, qn), d in facts.items():
            if d["tied_by"]: tied.setdefault(area, {})[qn] = d
        for area, fns in sorted(tied.items()):
            p = os.path.join(gen_dir, "Fn%s.lean" % area)
            if not os.path.exists(p):
                bad.append("Gen/Fn%s.lean is missing (tied functions: %s)" % (area, ", ".join(sorted(fns)))); continue
            for m in re.finditer(r"^-- NOT TRANSLATED \([^)]*\): ([\w:]+):", open(p).read(), re.M):
                if m.group(1) in fns and fns[m.group(1)]["translated"]:
                    bad.append("Gen/Fn%s.lean on disk has a NOT TRANSLATED line for %s (tied by %s) although the translator "
                               "accepts it: stale generated file, regenerate" % (area, m.group(1), fns[m.group(1)]["tied_by"]))
    return bad


def main():
    ap = argparse.ArgumentParser()
    ap.add_argument("--repo", default=os.environ.get("VERIF_REPO", "/repo"))
    ap.add_argument("--info", help="the JSON printed by translate/gen.py (avoids translating twice)")
    ap.add_argument("--gen", default=os.path.join(HERE, "..", "lean", "VlsModel", "Gen"))
    ap.add_argument("--baseline"); ap.add_argument("--write-baseline")
    a = ap.parse_args()
    facts = facts_from_info(a.info) if a.info else facts_from_run(a.repo)
    bad = check(facts, a.gen)
    for b in bad: print("GEN REGRESSION:", b, file=sys.stderr)
    cur = {"%s.%s" % k: d["sha1"] for k, d in facts.items()}
    if a.write_baseline:
        json.dump(cur, open(a.write_baseline, "w"), indent=0, sort_keys=True)
    if a.baseline:
        old = json.load(open(a.baseline))
        for k in sorted(set(old) | set(cur)):
            if old.get(k) != cur.get(k):
                print("changed: %s  %s -> %s" % (k, old.get(k), cur.get(k)))
    n_tied = sum(1 for d in facts.values() if d["tied_by"])
    print("%d targets, %d with a tying theorem, %d of those not translated" % (len(facts), n_tied, len(bad)))
    sys.exit(1 if bad else 0)


if __name__ == "__main__":
    main()
