"""C05/C07: default SimplePolicy values (per network), weight/dust constants, safe commitment types,
on-chain validator depth, default PolicyFilter rules, and the *shape* of validate_fee
(exact u128 rate against both bounds) -- everything the policy model takes from declarations in the source."""
import re
from rustsrc import read, strip_comments, body_after, const_value, int_expr, ExtractError

NUM_FIELDS = ["min_delay", "max_delay", "max_channel_size_sat", "epsilon_sat", "max_htlcs",
              "max_htlc_value_sat", "min_feerate_per_kw", "max_feerate_per_kw", "max_routing_fee_msat"]
BOOL_FIELDS = ["use_chain_state", "enforce_balance"]


def parse_policy_literal(text):
    """fields of one `SimplePolicy { ... }` literal"""
    m = re.search(r"SimplePolicy\s*\{", text)
    if not m:
        raise ExtractError("make_default_simple_policy: SimplePolicy literal not found")
    body = body_after(text, r"SimplePolicy\s*\{")
    fields = {}
    for fm in re.finditer(r"(\w+)\s*:\s*([^,]+),", body):
        fields[fm.group(1)] = fm.group(2).strip()
    out = {}
    for f in NUM_FIELDS:
        if f not in fields:
            raise ExtractError("default policy: field missing " + f)
        out[f] = int_expr(fields[f])
    for f in BOOL_FIELDS:
        if fields.get(f) not in ("true", "false"):
            raise ExtractError("default policy: boolean field " + f + " = " + str(fields.get(f)))
        out[f] = fields[f] == "true"
    if fields.get("filter") != "PolicyFilter::default()":
        raise ExtractError("default policy: filter is not PolicyFilter::default(): " + str(fields.get("filter")))
    if fields.get("dev_flags") != "None":
        raise ExtractError("default policy: dev_flags is not None")
    return out


def lean_policy(name, v, filter_name):
    return (f"def {name} : RawPolicy :=\n"
            f"  {{ minDelay := {v['min_delay']}, maxDelay := {v['max_delay']}, maxChannelSize := {v['max_channel_size_sat']},\n"
            f"    epsilon := {v['epsilon_sat']}, maxHtlcs := {v['max_htlcs']}, maxHtlcValue := {v['max_htlc_value_sat']},\n"
            f"    useChainState := {str(v['use_chain_state']).lower()}, minFeerate := {v['min_feerate_per_kw']},\n"
            f"    maxFeerate := {v['max_feerate_per_kw']}, maxRoutingFeeMsat := {v['max_routing_fee_msat']},\n"
            f"    enforceBalance := {str(v['enforce_balance']).lower()}, filter := {filter_name} }}\n")


def extract(repo):
    sv = strip_comments(read(repo, "vls-core/src/policy/simple_validator.rs"))
    tu = strip_comments(read(repo, "vls-core/src/util/transaction_utils.rs"))
    pm = strip_comments(read(repo, "vls-core/src/policy/mod.rs"))
    flt = strip_comments(read(repo, "vls-core/src/policy/filter.rs"))
    oc = strip_comments(read(repo, "vls-core/src/policy/onchain_validator.rs"))

    # ---- default policies -------------------------------------------------------------
    body = body_after(sv, r"pub\s+fn\s+make_default_simple_policy\s*\(")
    m = re.search(r"if\s+network\s*==\s*Network::Bitcoin\s*\{", body)
    if not m:
        raise ExtractError("make_default_simple_policy: expected `if network == Network::Bitcoin`")
    main_branch = body_after(body, r"if\s+network\s*==\s*Network::Bitcoin\s*\{")
    rest = body[body.index(main_branch) + len(main_branch):]
    if not re.match(r"\s*\}\s*else\s*\{", rest):
        raise ExtractError("make_default_simple_policy: expected a single else branch")
    else_branch = body_after(rest, r"else\s*\{")
    mainnet = parse_policy_literal(main_branch)
    testnet = parse_policy_literal(else_branch)

    # ---- default filter ---------------------------------------------------------------
    dbody = body_after(flt, r"impl\s+Default\s+for\s+PolicyFilter\s*\{")
    fm = re.search(r"PolicyFilter\s*\{\s*rules\s*:\s*vec!\[(.*?)\]\s*\}", dbody, re.S)
    if not fm:
        raise ExtractError("PolicyFilter::default: unexpected body")
    rules_src = fm.group(1).strip()
    rules = []
    if rules_src:
        for rm in re.finditer(r"FilterRule::new_(warn|error)\(\s*\"([^\"]*)\"\s*\)", rules_src):
            rules.append((rm.group(2), False, rm.group(1)))
        for rm in re.finditer(r"FilterRule\s*\{\s*tag\s*:\s*\"([^\"]*)\"(?:\.to_string\(\)|\.into\(\))?\s*,\s*is_prefix\s*:\s*(true|false)\s*,\s*action\s*:\s*FilterResult::(Warn|Error)\s*,?\s*\}", rules_src):
            rules.append((rm.group(1), rm.group(2) == "true", rm.group(3).lower()))
        if not rules:
            raise ExtractError("PolicyFilter::default: rules present but not understood: " + rules_src)
    # filter semantics: first match wins, fall-through is Error
    fbody = body_after(flt, r"pub\s+fn\s+filter\s*\(")
    if not re.search(r"FilterResult::Error\s*$", fbody.strip()):
        raise ExtractError("PolicyFilter::filter: fall-through is not FilterResult::Error")
    if "tag.starts_with(&rule.tag)" not in fbody or "*tag == rule.tag" not in fbody:
        raise ExtractError("PolicyFilter::filter: unexpected matching expression")
    downgraded = [t for (t, _, a) in rules if a == "warn"]

    # ---- constants --------------------------------------------------------------------
    min_dust = int_expr(const_value(tu, "MIN_DUST_LIMIT_SATOSHIS"))
    min_chan_dust = int_expr(const_value(tu, "MIN_CHAN_DUST_LIMIT_SATOSHIS"))
    base_w = int_expr(const_value(tu, "COMMITMENT_TX_BASE_WEIGHT"))
    anchor_w = int_expr(const_value(tu, "COMMITMENT_TX_BASE_ANCHOR_WEIGHT"))
    per_htlc_w = int_expr(const_value(tu, "COMMITMENT_TX_WEIGHT_PER_HTLC"))
    close_wit_w = int_expr(" ".join(const_value(tu, "EXPECTED_MUTUAL_CLOSE_WITNESS_WEIGHT").split()))
    wbody = body_after(tu, r"fn\s+expected_commitment_tx_weight\s*\(")
    if not re.search(r"base_weight\s*\+\s*num_untrimmed_htlc\s*\*\s*COMMITMENT_TX_WEIGHT_PER_HTLC\s*$", wbody.strip()):
        raise ExtractError("expected_commitment_tx_weight: unexpected formula")
    if not re.search(r"if\s+opt_anchors\s*\{\s*COMMITMENT_TX_BASE_ANCHOR_WEIGHT\s*\}\s*else\s*\{\s*COMMITMENT_TX_BASE_WEIGHT\s*\}", wbody):
        raise ExtractError("expected_commitment_tx_weight: unexpected base selection")
    cbody = body_after(tu, r"fn\s+mutual_close_tx_weight\s*\(")
    if not re.search(r"unsigned_tx\.weight\(\)\.to_wu\(\)\s+as\s+usize\s*\+\s*EXPECTED_MUTUAL_CLOSE_WITNESS_WEIGHT\s*$", cbody.strip()):
        raise ExtractError("mutual_close_tx_weight: unexpected formula")
    max_cltv = int_expr(const_value(pm, "MAX_CLTV_EXPIRY"))

    # validate_fee (fix 3751e9c): the model compares the exact u128 rate against both bounds; fail closed
    # if the source computes or compares anything else (e.g. the u32 estimate / truncation came back).
    fbody = " ".join(body_after(sv, r"fn\s+validate_fee\s*\(").split())
    for want in ("let fee = sum_inputs.checked_sub(sum_outputs)",
                 "let feerate_perkw: u128 = (fee as u128 * 1000 + 999) / weight as u128;",
                 "if feerate_perkw < self.policy.min_feerate_per_kw as u128 {",
                 "if feerate_perkw > self.policy.max_feerate_per_kw as u128 {"):
        if want not in fbody:
            raise ExtractError("validate_fee: expected `" + want + "` (the modelled exact-rate comparison)")
    if "estimate_feerate_per_kw" in fbody:
        raise ExtractError("validate_fee: uses estimate_feerate_per_kw again; the model compares the exact rate")

    # safe commitment types
    sm = re.search(r"const\s+SAFE_COMMITMENT_TYPE\s*:\s*&\[CommitmentType\]\s*=\s*&\[(.*?)\]\s*;", sv, re.S)
    if not sm:
        raise ExtractError("SAFE_COMMITMENT_TYPE not found")
    safe = [s.strip().replace("CommitmentType::", "") for s in sm.group(1).split(",") if s.strip()]
    names = {"Legacy": "legacy", "StaticRemoteKey": "staticRemoteKey", "Anchors": "anchors",
             "AnchorsZeroFeeHtlc": "anchorsZeroFeeHtlc"}
    for s in safe:
        if s not in names:
            raise ExtractError("SAFE_COMMITMENT_TYPE: unknown variant " + s)

    # on-chain policy
    om = re.search(r"OnchainPolicy\s*\{\s*filter\s*,\s*min_funding_depth\s*:\s*(\d+)\s*\}", body_after(oc, r"fn\s+make_onchain_policy\s*\("))
    if not om:
        raise ExtractError("make_onchain_policy: unexpected body")
    min_funding_depth = int(om.group(1))

    # ---- policy tags used on the modelled paths ------------------------------------------
    def tags_of(src, header, allow_var=()):
        """(filterable tags, unfiltered tags) of one function body; a policy_err! whose tag is not a
        string literal must be one of the known variable names in allow_var"""
        body = body_after(src, header)
        filt, hard = [], []
        for m in re.finditer(r"\b(temporary_policy_err|policy_err)!\s*\(\s*(\w+)\s*,\s*(\"[^\"]*\"|\w+)\s*,", body):
            t = m.group(3)
            if t.startswith('"'):
                filt.append(t.strip('"'))
            elif t not in allow_var:
                raise ExtractError("policy_err! with a non-literal tag `%s` in %s" % (t, header))
        for m in re.finditer(r"\bpolicy_error\(\s*\"([^\"]*)\"", body):
            hard.append(m.group(1))
        return body, filt, hard

    # validate_delay builds its tag from the name passed by validate_setup_channel
    dbody, dfilt, _ = tags_of(sv, r"fn\s+validate_delay\s*\(", allow_var=("tag",))
    if dfilt or len(re.findall(r'let\s+tag\s*=\s*format!\("policy-channel-contest-delay-range-\{\}",\s*name\)', dbody)) != 2:
        raise ExtractError("validate_delay: unexpected tag construction")
    sbody, sfilt, shard = tags_of(sv, r"fn\s+validate_setup_channel\s*\(")
    dnames = re.findall(r'self\.validate_delay\(\s*"(\w+)"', sbody)
    if sorted(dnames) != ["counterparty", "holder"]:
        raise ExtractError("validate_setup_channel: unexpected validate_delay calls " + str(dnames))
    setup_tags = sorted(set(sfilt + ["policy-channel-contest-delay-range-" + n for n in dnames]))
    _, vfilt, _ = tags_of(sv, r"fn\s+validate_channel_value\s*\(")
    _, efilt, _ = tags_of(sv, r"fn\s+validate_expiry\s*\(")
    _, ffilt, fhard = tags_of(sv, r"fn\s+validate_fee\s*\(", allow_var=("tag",))
    if ffilt or fhard:
        raise ExtractError("validate_fee: expected only the tag passed by the caller")
    cbody2, cfilt, chard = tags_of(sv, r"fn\s+validate_commitment_tx\s*\(")
    cfee = re.findall(r'self\.validate_fee\(\s*"([^"]*)"', cbody2)
    if len(cfee) != 1 or "self.validate_expiry(" not in cbody2:
        raise ExtractError("validate_commitment_tx: expected one validate_fee call and validate_expiry calls")
    commitment_tags = sorted(set(cfilt + cfee + efilt))
    mbody, mfilt, mhard = tags_of(sv, r"fn\s+validate_mutual_close_tx\s*\(")
    mfee = re.findall(r'self\.validate_fee\(\s*"([^"]*)"', mbody)
    if len(mfee) != 1:
        raise ExtractError("validate_mutual_close_tx: expected one validate_fee call")
    _, dmfilt, _ = tags_of(sv, r"fn\s+decode_and_validate_mutual_close_tx\s*\(")
    mutual_tags = sorted(set(mfilt + mfee))
    mutual_phase1_tags = sorted(set(dmfilt))
    _, ofilt, _ = tags_of(oc, r"fn\s+ensure_funding_buried_and_unspent\s*\(")
    onchain_tags = sorted(set(ofilt))
    size_tags = sorted(set(vfilt))
    hard_tags = sorted(set(shard + chard + mhard))

    # filters built elsewhere in the workspace (front ends); informational, the property is about the
    # library's default policy and whatever non-permissive policy is passed in
    import os
    frontend = []
    for root, dirs, files in os.walk(repo):
        dirs[:] = [d for d in dirs if d not in ("target", ".git", "fuzz")]
        for fn in files:
            if not fn.endswith(".rs") or fn.endswith("_tests.rs"):
                continue
            path = os.path.join(root, fn)
            rel = os.path.relpath(path, repo)
            if rel.startswith("vls-core/src/policy/filter.rs"):
                continue
            try:
                txt = strip_comments(open(path, errors="replace").read())
            except OSError:
                continue
            cut = txt.find("#[cfg(test)]")
            if cut >= 0:
                txt = txt[:cut]
            for m in re.finditer(r'FilterRule::new_warn\(\s*"([^"]*)"', txt):
                frontend.append((rel, m.group(1)))
            if "PolicyFilter::new_permissive()" in txt:
                frontend.append((rel, "*permissive*"))
    frontend = sorted(set(frontend))

    def lean_strs(xs):
        return "[" + ", ".join('"' + x + '"' for x in xs) + "]"

    def lean_rule(r):
        return f"⟨\"{r[0]}\", {str(r[1]).lower()}, .{r[2]}⟩"

    lean = ("namespace VlsModel.Gen.Policy\n"
            "/-- action of a filter rule -/\n"
            "inductive Action | error | warn\nderiving DecidableEq, Repr\n"
            "structure Rule where\n  tag : String\n  isPrefix : Bool\n  action : Action\n"
            "/-- commitment types (`channel.rs`, enum CommitmentType) -/\n"
            "inductive CType | legacy | staticRemoteKey | anchors | anchorsZeroFeeHtlc\nderiving DecidableEq, Repr\n"
            "structure RawPolicy where\n  minDelay : Nat\n  maxDelay : Nat\n  maxChannelSize : Nat\n  epsilon : Nat\n"
            "  maxHtlcs : Nat\n  maxHtlcValue : Nat\n  useChainState : Bool\n  minFeerate : Nat\n  maxFeerate : Nat\n"
            "  maxRoutingFeeMsat : Nat\n  enforceBalance : Bool\n  filter : List Rule\n"
            f"/-- `impl Default for PolicyFilter` -/\ndef defaultFilter : List Rule := [{', '.join(lean_rule(r) for r in rules)}]\n"
            f"/-- tags (or prefixes) the default filter downgrades to a warning -/\ndef defaultDowngraded : List String := [{', '.join(chr(34) + t + chr(34) for t in downgraded)}]\n"
            + lean_policy("defaultMainnet", mainnet, "defaultFilter")
            + lean_policy("defaultTestnet", testnet, "defaultFilter")
            + "/-- tags of the `policy_err!` sites (filterable) on the modelled paths, per function group -/\n"
            + f"def setupPathTags : List String := {lean_strs(setup_tags)}\n"
            + f"def sizePathTags : List String := {lean_strs(size_tags)}\n"
            + f"def commitmentPathTags : List String := {lean_strs(commitment_tags)}\n"
            + f"def onchainPathTags : List String := {lean_strs(onchain_tags)}\n"
            + f"def mutualPathTags : List String := {lean_strs(mutual_tags)}\n"
            + f"def mutualPhase1PathTags : List String := {lean_strs(mutual_phase1_tags)}\n"
            + "/-- tags of unfiltered `policy_error(..)?` sites on the same paths (never downgraded) -/\n"
            + f"def hardPathTags : List String := {lean_strs(hard_tags)}\n"
            + "/-- (file, tag) of warn rules / permissive filters constructed by front ends outside vls-core's default -/\n"
            + "def frontendDowngrades : List (String × String) := [" + ", ".join('("%s", "%s")' % (f, t) for f, t in frontend) + "]\n"
            + f"def minDustLimit : Nat := {min_dust}\n"
            f"def minChanDustLimit : Nat := {min_chan_dust}\n"
            f"def commitmentBaseWeight : Nat := {base_w}\n"
            f"def commitmentBaseAnchorWeight : Nat := {anchor_w}\n"
            f"def commitmentWeightPerHtlc : Nat := {per_htlc_w}\n"
            f"def mutualCloseWitnessWeight : Nat := {close_wit_w}\n"
            f"def maxCltvExpiry : Nat := {max_cltv}\n"
            f"def minFundingDepth : Nat := {min_funding_depth}\n"
            f"def safeCommitmentTypes : List CType := [{', '.join('.' + names[s] for s in safe)}]\n"
            "end VlsModel.Gen.Policy\n")
    facts = {"default_policy_mainnet": mainnet, "default_policy_testnet": testnet,
             "default_filter_rules": rules, "default_filter_downgraded_tags": downgraded,
             "MIN_DUST_LIMIT_SATOSHIS": min_dust, "MIN_CHAN_DUST_LIMIT_SATOSHIS": min_chan_dust,
             "COMMITMENT_TX_BASE_WEIGHT": base_w, "COMMITMENT_TX_BASE_ANCHOR_WEIGHT": anchor_w,
             "COMMITMENT_TX_WEIGHT_PER_HTLC": per_htlc_w, "EXPECTED_MUTUAL_CLOSE_WITNESS_WEIGHT": close_wit_w,
             "MAX_CLTV_EXPIRY": max_cltv, "min_funding_depth": min_funding_depth,
             "policy_err_tags": {"setup": setup_tags, "size": size_tags, "commitment": commitment_tags,
                                 "onchain": onchain_tags, "mutual": mutual_tags, "mutual_phase1": mutual_phase1_tags,
                                 "unfiltered": hard_tags},
             "frontend_filter_constructions": frontend,
             "SAFE_COMMITMENT_TYPE": safe, "validate_fee": "exact rate (fee as u128 * 1000 + 999) / weight compared against min/max as u128"}
    obl = ["Gen.Policy: the default filter of both networks maps every generated policy_err! tag of the modelled paths to Error (theorems C05_default_filter_strict, C07_default_filter_strict)",
           "Gen.Policy: the generated tag lists and the model's tags coincide (theorems C05_gen_tags_covered, C07_gen_tags_covered)",
           "Gen.Policy: weights are positive (theorem C05_gen_weights_pos), so validate_fee never divides by zero",
           "validate_fee has the modelled exact-rate comparison (translator fails closed otherwise)"]
    return {"Policy.lean": lean}, {"C05": {"facts": facts, "obligations": obl},
                                   "C07": {"facts": {k: facts[k] for k in ("default_policy_mainnet", "default_policy_testnet", "default_filter_downgraded_tags", "EXPECTED_MUTUAL_CLOSE_WITNESS_WEIGHT")},
                                           "obligations": obl[:1]}}
