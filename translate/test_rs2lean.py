#!/usr/bin/env python3
"""Self-test of the Rust-body translator (rs2lean.py): small Rust snippets with the Lean text they must produce
(`expect`: every listed fragment occurs in the generated definition, whitespace-normalised) or the refusal they must
cause (`refuse`: a fragment of the RsError message).  Run by translate/x_fn.py on every `bin/check` (a failure makes
the translator fail for every property) and by hand: `python3 translate/test_rs2lean.py [-v]`.

The differential test against rustc is harness/src/props/fn_gen.rs (fixtures: fn_gen_fixture.rs); this file pins the
*shape* of the output and, above all, what stays refused."""
import sys, os, re
sys.path.insert(0, os.path.dirname(os.path.abspath(__file__)))
from rs2lean import Unit, RsError

PRE = """
pub struct S { pub a: u64, pub v: Vec<u32>, pub o: Option<u32> }
pub enum E { A(u32), B { x: u64, y: bool }, C }
"""

UPD_EXT = {"Tx.add": {"params": ["u32"], "ret": "Result<u32, ()>", "updates": True}, "Tx.seal": {"params": [], "ret": "()", "updates": True},
           "Tx.len": {"params": [], "ret": "u32"}}

WC_SRC = "pub struct H { pub node: Arc<Node>, pub id: ChannelId, pub pv: u32 }\n"
WC_EXT = {"Node.with_channel": {"closure": "Channel", "params": ["ChannelId"]},
          "Channel.revoke": {"params": ["u64"], "ret": "Result<(PublicKey, Option<SecretKey>), Status>", "updates": True},
          "Channel.validate": {"params": ["u64"], "ret": "Result<(), Status>", "updates": True},
          "Channel.activate": {"params": [], "ret": "Result<PublicKey, Status>", "updates": True}}

CASES = [
    # ---- accepted: fragments of the generated text
    ("plus", "fn f(a: u64, b: u64) -> u64 { a + b }", ("expect", ["Rs.uadd Rs.U64_MAX a b"])),
    ("bitand", "fn f(a: u32, b: u32) -> u32 { (a & b) | (a ^ 1) }", ("expect", ["(a &&& b)", "|||", "(a ^^^ 1)"])),
    ("bitnot", "fn f(a: u8) -> u8 { !a }", ("expect", ["Rs.unot Rs.U8_MAX a"])),
    ("shift", "fn f(a: u64) -> u64 { a << 8 }", ("expect", ["Rs.ushl 64 a 8"])),
    ("slice", "fn f(v: &[u8], a: usize) -> Vec<u8> { v[a..].to_vec() }", ("expect", ["Rs.slice v a v.length"])),
    ("slice2", "fn f(v: &[u8]) -> Vec<u8> { v[1..3].to_vec() }", ("expect", ["Rs.slice v 1 3"])),
    ("bebytes", "fn f(x: u32) -> Vec<u8> { x.to_be_bytes().to_vec() }", ("expect", ["Rs.toBeBytes 4 x"])),
    ("frombe", "fn f(b: &[u8]) -> u16 { u16::from_be_bytes(b[0..2].try_into().unwrap()) }",
     ("expect", ["Rs.slice b 0 2", "Rs.arrayOfSlice 2", "Rs.fromBeBytes"])),
    ("letelse", "fn f(o: Option<u32>) -> u32 { let Some(x) = o else { return 0; }; x }",
     ("expect", ["match o with", "| some x =>", "| _ =>"])),
    ("guard", "fn f(o: Option<u32>) -> u32 { match o { Some(v) if v > 3 => 1, Some(_) => 2, None => 3 } }",
     ("expect", ["| some v =>", "if (decide (v > 3)) then", "| none =>"])),
    ("orpat", "fn f(x: u32) -> u32 { match x { 0 | 1 => 7, _ => 8 } }", ("expect", ["| 0 | 1 =>"])),
    ("forret", "fn f(v: &[u32]) -> Option<u32> { for x in v.iter() { if *x > 3 { return Some(*x); } } None }",
     ("expect", ["Rs.loopM (ρ := (Option Nat)) v ()", "(.ret (some x))", "(.next ())", "| .inr"])),
    ("forcont", "fn f(v: &[u32]) -> u32 { let mut n = 0u32; for x in v.iter() { if *x == 0 { continue; } n += 1; } n }",
     ("expect", ["Rs.loopB v n", "(.next n)"])),
    ("forbreak", "fn f(v: &[u32]) -> u32 { let mut n = 0u32; for x in v.iter() { if *x == 0 { break; } n += *x; } n }",
     ("expect", ["(.brk n)"])),
    ("fortry", "fn f(v: &[u64]) -> Result<u64, ()> { let mut s = 0u64; for x in v.iter() { s = s.checked_add(*x).ok_or(())?; } Ok(s) }",
     ("expect", ["List.foldlM", "Rs.okOr"])),
    ("while", "fn f(n: u32) -> u32 { let mut i = 0u32; let mut s = 0u32; while i < n { s += i; i += 1; } s }",
     ("expect", ["Rs.range i n", "let i := (max i n)"])),
    ("whilelet", "fn f(v: &mut Vec<u32>) -> u32 { let mut s = 0u32; while let Some(x) = v.pop() { s += x; } s }",
     ("expect", ["v.reverse", "let v := []"])),
    ("denum", "fn f(e: E) -> u64 { match e { E::A(n) => n as u64, E::B { x, .. } => x, E::C => 0 } }",
     ("expect", ["inductive E", "| A (a0 : Nat)", "| B (x : Nat) (y : Bool)", "| .A n =>", "| .B x _ =>", "| .C =>"])),
    ("dctor", "fn f(n: u32) -> E { if n == 0 { E::C } else { E::B { y: true, x: 1 } } }", ("expect", ["E.C", "(E.B 1 true)"])),
    ("mutparam", "fn f(v: &mut Vec<u32>, x: u32) -> usize { v.push(x); v.len() }", ("expect", ["(v ++ [x])", "(v, v.length)"])),
    ("mutcall", "fn g(v: &mut Vec<u32>, x: u32) { v.push(x); }\nfn f(a: u32) -> Vec<u32> { let mut w: Vec<u32> = Vec::new(); g(&mut w, a); w }",
     ("expect", ["let m_1 := g w a", "let w := m_1"])),
    ("deque", "fn f(q: &mut VecDeque<u32>) -> Option<u32> { q.push_front(1); q.pop_back() }",
     ("expect", ["(1 :: q)", "q.getLast?", "q.dropLast"])),
    ("nmap", "fn f(m: &mut BTreeMap<u32, u64>, k: u32) -> Option<u64> { m.insert(k, 1) }",
     ("expect", ["Rs.omapGet m k", "Rs.nmapInsert m k 1"])),
    ("omap", "fn f(m: &mut BTreeMap<K, u64>, k: K) -> bool { m.insert(k, 1); m.contains_key(&k) }",
     ("expect", ["[DecidableEq K]", "Rs.omapInsert m k 1", "(Rs.omapGet m k).isSome"])),
    ("set", "fn f(s: &mut BTreeSet<u32>, k: u32) -> bool { s.insert(k) }", ("expect", ["Rs.nsetInsert s k", "(!(s.contains k))"])),
    ("structpat", "fn f(s: &S) -> u64 { let S { a, .. } = s; *a }", ("expect", ["let a := s_1.a"])),
    ("somealias", "impl S { fn f(&mut self) { let p = self.o.as_mut().unwrap(); *p = 3; } }",
     ("expect", ["Rs.unwrap self.o", "{ self with o := (some 3) }"]), ("S", "f")),
    ("traitdefault", "trait T { fn req(&self, x: u32) -> u32; fn d(&self, x: u32) -> u32 { self.req(x) + 1 } }",
     ("expect", ["(ext_req : SelfT → Nat → Nat)", "(self : SelfT)", "ext_req self x"]), ("T", "d")),
    ("opaque-sum", "fn f(m: &BTreeMap<K, u64>) -> u64 { m.values().sum::<u64>() }", ("expect", ["Rs.usum Rs.U64_MAX (m.map (fun kv => kv.2))"])),
    ("findalias", "pub struct T { pub id: u32, pub on: bool }\nimpl T { fn set(&mut self, b: bool) { self.on = b; } }\npub struct W { pub ts: Vec<T> }\nimpl W { fn f(&mut self, id: u32) { let h = self.ts.iter_mut().find(|h| h.id == id).expect(\"x\"); h.set(true); } }",
     ("expect", ["Rs.unwrap (self.ts.findIdx? (fun h => (h.id == id)))", "Rs.index self.ts i_1", "T.set", "Rs.setIndex self.ts i_1"]), ("W", "f")),
    ("copyslice", "fn f(p: &[u8], x: u64) -> Vec<u8> { let mut n = [0u8; 4 + 8]; n[0..4].copy_from_slice(p); n[4..].copy_from_slice(&x.to_le_bytes()); n.to_vec() }",
     ("expect", ["List.replicate 12 0", "Rs.copyFromSlice n 0 4 p", "Rs.copyFromSlice n 4 n.length (Rs.toLeBytes 8 x)"])),
    ("newtype", "pub struct Id(pub Vec<u8>);\nimpl Id { fn mk(v: &[u8]) -> Self { Self(v.to_vec()) }\n fn len(self) -> usize { self.0.len() } }",
     ("expect", ["def Id.len (self : List Nat) : Nat", "self.length"]), ("Id", "len")),
    ("lockexpr", "pub struct G { pub st: Mutex<S> }\nimpl G { fn get(&self) -> MutexGuard<'_, S> { self.st.lock().expect(\"l\") }\n fn f(&self) -> u64 { let s = self.get(); s.a + self.st.lock().unwrap().a } }",
     ("expect", ["let s := (G.get self)", "Rs.uadd Rs.U64_MAX s.a self.st.a"]), ("G", "f")),
    ("extfield", "pub struct C<L> { pub local: L, pub n: u64 }\nimpl<L> C<L> { fn f(&self, k: &str) -> Result<u64, Error> { let v = self.local.get_version(k)?; Ok(v.unwrap_or(0) + self.n) } }",
     ("expect", ["(ext_local_get_version : L → String → (Rs.M (Option Nat)))", "let v ← ext_local_get_version self.«local» k"]), ("C", "f"),
     {"local.get_version": {"params": ["&str"], "ret": "Result<Option<u64>, Error>"}}),
    ("litfold", "fn f(x: u64) -> u64 { x << 8 * 7 }", ("expect", ["Rs.ushl 64 x 56"])),
    # ---- round 10 (b8): a diverging macro as the whole tail of a Result-returning function
    ("newtype-opaque", "pub struct A<'a, W: Writer + 'a>(pub &'a mut W);\nimpl<'a, W: Writer + 'a> A<'a, W> { fn f(&mut self, buf: &[u8]) -> Result<usize, Error> { self.0.write_all(buf)?; Ok(buf.len()) } }",
     ("expect", ["(self : W)", "ext_W_write_all self buf", "pure (self, buf.length)"]), ("A", "f"),
     {"W.write_all": {"params": ["W", "&[u8]"], "ret": "Result<W, Error>", "monadic": True, "updates_receiver": True}}),
    ("resultpanic", "fn f(x: u64) -> Result<u64, ()> { unimplemented!() }", ("expect", ["(Rs.panic : Rs.M Nat)"])),
    # ---- round 9 (b1819): atomics, byte-string literals, literal-bound &str, let-bound try_into, receiver-updating externals
    ("atomic", "pub struct C { pub n: AtomicU32, pub k: AtomicUsize }\nimpl C { fn f(&self) -> u32 { self.n.fetch_add(1, Ordering::AcqRel) } }",
     ("expect", ["def C.f (self : C) : C × Nat", "let old_1 := self.n", "{ self with n := (Rs.uwrapAdd Rs.U32_MAX old_1 1) }", "(self, old_1)"]), ("C", "f")),
    ("atomic2", "pub struct C { pub k: AtomicUsize }\nimpl C { fn g(&self, v: usize) -> usize { self.k.store(v, Ordering::SeqCst); self.k.load(Ordering::Relaxed) } }",
     ("expect", ["{ self with k := v }", "(self, self.k)"]), ("C", "g")),
    ("bstr", "fn f(v: &mut Vec<u8>) { v.extend_from_slice(b\"ab\"); }", ("expect", ["(v ++ [97, 98])"])),
    ("strlet", "fn f() -> Vec<u8> { let info = \"ab\"; info.as_bytes().to_vec() }", ("expect", ["[97, 98]"])),
    ("r-strlet-rebound", "fn f(c: bool) -> Vec<u8> { let info = \"ab\"; let info = if c { \"cd\" } else { info }; info.as_bytes().to_vec() }",
     ("refuse", "not a literal")),
    ("r-strlet-assigned", "fn f(c: bool) -> Vec<u8> { let mut info = \"ab\"; if c { info = \"cd\"; } info.as_bytes().to_vec() }",
     ("refuse", "not a literal")),
    ("tryinto-let", "fn f(b: &[u8]) -> (u8, [u8; 4]) { let a = b[1..5].try_into().unwrap(); (b[0], a) }",
     ("expect", ["Rs.slice b 1 5", "Rs.arrayOfSlice 4"])),
    ("tryinto-ann", "fn f(b: &[u8]) -> u8 { let a: [u8; 2] = b[0..2].try_into().unwrap(); a[1] }", ("expect", ["Rs.arrayOfSlice 2"])),
    ("r-tryinto-untyped", "fn f(b: &[u8]) -> u8 { let a = b[0..2].try_into().unwrap(); g(a) }", ("refuse", "without a known array type")),
    ("updrecv", "fn f(e: Eng, x: &[u8]) -> Eng { let mut h = e; h.input(x); h.input(b\"s\"); h }",
     ("expect", ["(ext_Eng_input : Eng → (List Nat) → Eng)", "let h := (ext_Eng_input h x)", "let h := (ext_Eng_input h [115])"]), (None, "f"),
     {"Eng.input": {"params": ["Eng", "&[u8]"], "ret": "Eng", "updates_receiver": True}}),
    ("fieldname", "pub struct P { pub id: Option<u32>, pub id0: u32 }\nimpl P { fn id(&self) -> u32 { self.id.unwrap_or(self.id0) } }",
     ("expect", ["def P.id_fn (self : P) : Nat", "self.id.getD self.id0"]), ("P", "id")),
    ("updrecv-mutparam", "fn f<W: Write>(w: &mut W, x: u16) -> Result<(), Error> { w.write_all(&x.to_be_bytes())?; Ok(()) }",
     ("expect", ["(ext_W_write_all : W → (List Nat) → (Rs.M W))", "let t_1 ← ext_W_write_all w (Rs.toBeBytes 2 x)", "let w := t_1", "pure w"]), (None, "f"),
     {"W.write_all": {"params": ["W", "&[u8]"], "ret": "Result<W, Error>", "monadic": True, "updates_receiver": True}}),
    ("updrecv-value", "fn f<R: Read>(r: &mut R) -> Result<u32, Error> { let a = r.read_u16_be()?; let b = r.read_u16_be()?; Ok(a as u32 + b as u32) }",
     ("expect", ["let t_1 ← ext_R_read_u16_be r", "let (rcv_2, val_3) := t_1", "let r := rcv_2", "(r, "]), (None, "f"),
     {"R.read_u16_be": {"params": ["R"], "ret": "Result<(R, u16), Error>", "monadic": True, "updates_receiver": True}}),
    ("r-mutparam-opaque", "fn f<W: Write>(w: &mut W, x: u16) -> Result<(), Error> { w.write_all(&x.to_be_bytes())?; Ok(()) }",
     ("refuse", "opaque")),
    ("r-updrecv-undeclared", "fn f(e: Eng, x: &[u8]) -> Eng { let mut h = e; h.input(x); h }", ("refuse", "input")),
    ("entry2", "pub struct H { pub p: K2, pub v: u64 }\nfn f(hs: &[H]) -> BTreeMap<K2, u64> { let mut m = BTreeMap::new(); for h in hs { m.entry(h.p).and_modify(|e| *e += h.v).or_insert(h.v); } m }",
     ("expect", ["match (Rs.omapGet m h.p) with", "| some e =>", "Rs.uadd Rs.U64_MAX e h.v", "Rs.omapInsert m h.p e", "Rs.omapInsert m h.p h.v"])),
    ("entryloop", "fn f(a: BTreeMap<K2, u64>, b: BTreeMap<K2, u64>) -> BTreeMap<K2, u64> { let mut m = a; for (k, v) in b { m.entry(k).and_modify(|e| *e = max(*e, v)).or_insert(v); } m }",
     ("expect", ["List.foldl", "(max e v)", "Rs.omapInsert m k v"])),
    ("mapretain", "fn f(a: BTreeMap<K2, u64>, b: BTreeMap<K2, u64>) -> BTreeMap<K2, u64> { let mut m = a; m.retain(|k, _| b.contains_key(k)); m }",
     ("expect", ["m.filter (fun (k, _) => (Rs.omapGet b k).isSome)"])),
    ("lockcallee", "pub struct G { pub st: Mutex<S> }\nimpl G { fn bump(&self, x: u64) -> Result<(), ()> { let mut s = self.st.lock().unwrap(); if x == 0 { return Err(()); } s.a = x; Ok(()) }\n fn all(&self, xs: Vec<u64>) -> Result<(), ()> { for x in xs.into_iter() { self.bump(x)?; } Ok(()) } }",
     ("expect", ["List.foldlM (fun self x => do", "let self ← G.bump self x"]), ("G", "all")),
    ("lock2", "pub struct G { pub log: Mutex<Option<Vec<u32>>> }\nimpl G { fn f(&self, x: u32) { let mut o = self.log.lock().unwrap(); let l = o.as_mut().expect(\"tx\"); l.push(x); }\n fn g(&self) { let mut o = self.log.lock().unwrap(); o.take(); } }",
     ("expect", ["def G.f (self : G) (x : Nat) : Rs.M G", "{ self with log := (some (x_", "pure self"]), ("G", "f")),
    ("lock3", "pub struct G { pub log: Mutex<Option<Vec<u32>>> }\nimpl G { fn g(&self) -> Option<Vec<u32>> { let mut o = self.log.lock().unwrap(); o.take() } }",
     ("expect", ["G × (Option (List Nat))", "{ self with log := none }"]), ("G", "g")),
    # (b1315, round 9) `let x = &mut self.f;` is a write-through alias (it used to be a copy whose writes were lost)
    ("mutalias", "pub struct D { pub n: u32, pub v: Vec<u32> }\npub struct P { pub d: D, pub k: bool }\nimpl P { fn f(&mut self, x: u32) { let st = &mut self.d; st.n = x; st.v.push(x); } }",
     ("expect", ["{ self with d := { self.d with n := x } }", "self.d.v ++ [x]", "self"]), ("P", "f")),
    # (b1315, round 9) a write through an alias declared inside a branch is carried out of the branch
    ("aliasjoin", "pub struct P { pub o: Option<Vec<u32>>, pub n: u32 }\nimpl P { fn f(&mut self, x: u32) { if self.o.is_some() { let v = self.o.as_mut().unwrap(); v.push(x); } self.n += 1; } }",
     ("expect", ["let self ← do", "{ self with o := (some"]), ("P", "f")),
    ("r-mutalias-index", "pub struct P { pub v: Vec<u32> }\nimpl P { fn f(&mut self) { let e = &mut self.v[0]; *e = 1; } }",
     ("refuse", "not a field path"), ("P", "f")),
    ("vecunder", "fn f(v: &[u32]) -> usize { let w: Vec<_> = v.iter().map(|x| *x).collect(); w.len() }", ("expect", ["w.length"])),
    # (round 9) `&mut` parameter of an opaque type + declared state-updating externals (`"updates": true`)
    ("updext", "fn f(t: &mut Tx, x: u32) -> Result<u32, ()> { let n = t.add(x)?; if n > 3 { t.seal(); } Ok(n) }",
     ("expect", ["(ext_Tx_add : Tx → Nat → (Rs.M (Tx × Nat)))", "(ext_Tx_seal : Tx → Tx)", "let (s_1, r_2) ← ext_Tx_add t x", "let t := s_1",
                 "ext_Tx_seal t", "pure (t, n)"]), (None, "f"), UPD_EXT),
    ("updext-tail", "fn f(t: &mut Tx, x: u32) -> Result<u32, ()> { t.add(x) }",
     ("expect", ["let (s_1, r_2) ← ext_Tx_add t x", "pure (t, r_2)"]), (None, "f"), UPD_EXT),
    ("updext-pure", "fn f(t: &mut Tx, x: u32) -> u32 { t.seal(); t.len() + x }",
     ("expect", ["let s_1 := ext_Tx_seal t", "(ext_Tx_len t)", "pure (t, t_2)"]), (None, "f"), UPD_EXT),
    ("weak", "pub struct N { pub a: u64 }\npub struct C { pub node: Weak<N> }\nimpl C { fn get_node(&self) -> Arc<N> { self.node.upgrade().unwrap() }\n fn f(&self) -> u64 { self.get_node().a } }",
     ("expect", ["node : Option N", "Rs.unwrap self.node", "C.get_node self"]), ("C", "f")),
    ("lock-opaque", "pub struct C { pub tr: Arc<Mutex<Tracker>> }\nimpl C { fn f(&self) -> u32 { self.tr.lock().unwrap().height() } }",
     ("expect", ["(ext_Tracker_height : Tracker → Nat)", "(ext_Tracker_height self.tr)"]), ("C", "f"), {"Tracker.height": {"params": [], "ret": "u32"}}),
    ("implinto", "fn f(prefix: impl Into<String>, n: u64) -> String { format!(\"{}/{}\", prefix.into(), n) }", ("expect", ["(«prefix» : String)", "«prefix» ++ \"/\" ++ toString n"])),
    ("declinto", "fn f(x: Src) -> Dst { let d: Dst = x.into(); d }", ("expect", ["(ext_Src_into : Src → Dst)", "(ext_Src_into x)"]), (None, "f"),
     {"Src.into": {"params": [], "ret": "Dst"}}),
    ("declproj", "fn f(k: PubKey) -> Vec<u8> { k.0 }", ("expect", ["(ext_PubKey_0 : PubKey → (List Nat))", "(ext_PubKey_0 k)"]), (None, "f"),
     {"PubKey.0": {"params": [], "ret": "Vec<u8>"}}),
    ("traitdefault-mut", "trait T { fn bump(&mut self, x: u32) -> u32; fn set(&mut self, x: u32); fn d(&mut self, x: u32) -> u32 { self.set(x); self.bump(x) + 1 } }",
     ("expect", ["(ext_set : SelfT → Nat → SelfT)", "(ext_bump : SelfT → Nat → (SelfT × Nat))", "let self := ext_set self x", "let (self, r_1) := ext_bump self x",
                 "pure (self, t_2)"]), ("T", "d")),
    ("traitdefault-mut-res", "trait T { fn tr(&mut self, x: u32) -> Result<u32, ()>; fn e(&mut self, x: u32) -> Result<u32, ()> { let y = self.tr(x)?; Ok(y) } }",
     ("expect", ["(ext_tr : SelfT → Nat → Rs.M (SelfT × Nat))", "let (self, r_1) ← ext_tr self x", "pure (self, y)"]), ("T", "e")),
    # (round 9) closure externals (`Node::with_channel(&id, |chan| ..)`), `return Err(e)?;`, `Box::new`, `let:` with any initialiser
    ("withclosure", WC_SRC + "impl H { fn f(&self, n: u64) -> Result<PublicKey, Status> { if self.pv < 5 { return Err(Status::invalid_argument(format!(\"x\")))?; }\n"
     " let (p, s) = self.node.with_channel(&self.id, |chan| { chan.validate(n)?; if n > 0 { chan.revoke(n + 1) } else { Ok((chan.activate()?, None)) } })?; Ok(p) } }",
     ("expect", ["def H.f__with_channel_1", "(n : Nat) (chan : Channel) : Rs.M (Channel × (PublicKey × (Option SecretKey)))",
                 "let s_1 ← ext_Channel_validate chan n", "← ext_Channel_revoke chan t_2", "none))",
                 "(ext_Node_with_channel : {T : Type} → Node → ChannelId → (Channel → Rs.M (Channel × T)) → Rs.M T)",
                 "Rs.fail \"Status::invalid_argument\"",
                 "ext_Node_with_channel self.node self.id (H.f__with_channel_1 ext_Channel_validate ext_Channel_revoke ext_Channel_activate n)"]),
     ("H", "f"), WC_EXT),
    ("mutexnew", "pub struct G { pub st: Mutex<S>, pub n: u64 }\nimpl G { fn new(s: S, n: u64) -> Self { Self { st: Mutex::new(s), n } } }",
     ("expect", ["{ st := s, n := n }"]), ("G", "new")),
    ("letlit-logonly", "pub struct P { pub a: u64, pub b: u32 }\nfn f(x: u64, y: u16) -> bool { let p = P { a: x + 1, b: y as u32 }; warn!(\"p {:?}\", p); true }",
     ("expect", ["Rs.uadd Rs.U64_MAX x 1", "pure true"])),
    ("boxnew", "pub struct R { pub a: u64 }\nfn f(x: u64) -> Result<Box<R>, ()> { Ok(Box::new(R { a: x })) }", ("expect", ["pure { a := x }"])),
    ("letany", "fn f(o: Option<Sk>) -> Option<Ds> { let r = o.map(|s| Ds(s[..].try_into().unwrap())); r }",
     ("expect", ["(ext_let_r : (Option Sk) → (Option Ds))", "let r := (ext_let_r o)"]), (None, "f"),
     {"let:r": {"callee": "*", "args": ["o"], "ret": "Option<Ds>"}}),
    # ---- refused (fail closed)
    ("r-withclosure-value", WC_SRC + "impl H { fn f(&self, n: u64) -> bool { let r = self.node.with_channel(&self.id, |chan| { chan.revoke(n) }); true } }",
     ("refuse", "used other than by `?`"), ("H", "f"), WC_EXT),
    ("r-lock-bare-opaque", "pub struct C { pub tr: Tracker, pub other: Mutex<Tracker> }\nimpl C { fn f(&self) -> u32 { self.tr.lock().unwrap().height() } }",
     ("refuse", "method .lock on ('opaque', 'Tracker')"), ("C", "f"), {"Tracker.height": {"params": [], "ret": "u32"}}),
    ("r-into-unknown", "fn f(x: Src) -> Dst { let d: Dst = x.into(); d }", ("refuse", ".into() without a known widening target")),
    ("r-traitdefault-refmut", "trait T { fn set(&mut self, x: u32); fn d(&self, x: u32) { self.set(x); } }", ("refuse", "called from a &self default method"), ("T", "d")),
    ("r-updext-value", "fn f(t: &mut Tx, x: u32) -> bool { let r = t.add(x); true }", ("refuse", "used other than by `?`"), (None, "f"), UPD_EXT),
    ("r-updext-undeclared", "fn f(t: &mut Tx) { t.other(); }", ("refuse", "method .other on ('opaque', 'Tx')"), (None, "f"), UPD_EXT),
    ("r-entryloop-partial", "fn f(a: BTreeMap<K2, u64>, b: BTreeMap<K2, u64>) -> BTreeMap<K2, u64> { let mut m = a; for (k, v) in b { m.entry(k).and_modify(|e| *e += v).or_insert(v); } m }",
     ("refuse", "order the model does not know")),
    ("r-entryloop-otherkey", "fn f(a: BTreeMap<K2, u64>, b: BTreeMap<K2, K2>) -> BTreeMap<K2, u64> { let mut m = a; for (k, v) in b { m.entry(v).or_insert(0); } m }",
     ("refuse", "order the model does not know")),
    ("r-guard-write", "pub struct G { pub st: Mutex<S> }\nimpl G { fn get(&self) -> MutexGuard<'_, S> { self.st.lock().expect(\"l\") }\n fn f(&self) { let mut s = self.get(); s.a = 1; } }",
     ("refuse", "write through the MutexGuard"), ("G", "f")),
    ("r-value-assign", "fn f(v: &mut Vec<u32>, c: bool) -> Option<u32> { let r = if c { v.push(1); None } else { Some(2) }; r }", ("refuse", "used as a value")),
    ("r-loop", "fn f() -> u32 { let mut i = 0u32; loop { i += 1; if i > 3 { break; } } i }", ("refuse", "`loop`")),
    ("r-while", "fn f(mut n: u32) -> u32 { while n > 1 { n = n / 2; } n }", ("refuse", "counted form")),
    ("r-while-bound", "fn f(v: &mut Vec<u32>) { let mut i = 0usize; while i < v.len() { v.push(1); i += 1; } }", ("refuse", "counted form")),
    ("r-while-cont", "fn f(n: u32) -> u32 { let mut i = 0u32; let mut s = 0u32; while i < n { if i == 2 { continue; } s += 1; i += 1; } s }",
     ("refuse", "continue inside a counted while")),
    ("r-signed-shift", "fn f(a: i64) -> i64 { a << 1 }", ("refuse", "shift")),
    ("r-signed-and", "fn f(a: i64, b: i64) -> i64 { a & b }", ("refuse", "only unsigned")),
    ("r-hash-iter", "fn f(m: &HashMap<u32, u32>) -> u32 { let mut s = 0u32; for (k, v) in m.iter() { s += *v; } s }",
     ("refuse", "order the model does not know")),
    ("r-opaque-iter", "fn f(m: &BTreeMap<K, u32>) -> u32 { let mut s = 0u32; for v in m.values() { s += *v; } s }",
     ("refuse", "order the model does not know")),
    ("r-opaque-collect", "fn f(m: &BTreeMap<K, u32>) -> Vec<u32> { m.values().copied().collect() }", ("refuse", "order-sensitive")),
    ("r-float", "fn f() -> u32 { let x = 1.5; 1 }", ("refuse", "float")),
    ("r-unknown-call", "fn f(a: u32) -> u32 { other(a) }", ("refuse", "unknown function")),
    # (b0507, round 9) a Result-valued call bound to a variable is captured (`Rs.capture`: Err as a value, panics propagate);
    # the variable answers is_ok / is_err and can be re-raised by `Err(r.unwrap_err())`; anything else on it is refused
    ("r-result-value", "fn g() -> Result<u32, ()> { Ok(1) }\nfn f() -> u32 { let r = g(); r.unwrap_or(3) }", ("refuse", "captured Result")),
    ("capture", "fn g(a: u32) -> Result<u32, ()> { if a > 1 { return Err(()); } Ok(a) }\nfn f(a: u32) -> Result<u32, ()> { let r = g(a); let s = if r.is_ok() { 1 } else { let q = g(0); if q.is_ok() { 2 } else { return Err(r.unwrap_err()); } }; Ok(s) }",
     ("expect", ["Rs.capture (g a)", "Rs.capture (g 0)", "Rs.unwrapErr r", "| Except.ok _ => true"])),
    ("r-letelse-fall", "fn f(o: Option<u32>) -> u32 { let Some(x) = o else { let y = 1u32; }; x }", ("refuse", "does not diverge")),
    ("r-break-value", "fn f() -> u32 { let x = loop { break 1; }; x }", ("refuse", "break with a value")),
    ("r-untyped", "fn f() -> bool { let x = 1; true }", ("refuse", "without a type")),
    ("r-recursion", "fn f(n: u32) -> u32 { if n == 0 { 0 } else { f(n - 1) } }", ("refuse", "recursive")),
    ("r-closure", "fn f(a: u32) -> u32 { let g = |x: u32| x + 1; g(a) }", ("refuse", "closure")),
    ("r-mut-opaque", "fn f(t: &mut Transaction) { }", ("refuse", "&mut parameter of an opaque type")),
    # (b1617, round 9) a newtype read as its component: `&mut self` writes `self.0`, `Type::f()` of a tuple struct
    ("tsmut", "pub struct M(Vec<u32>);\nimpl M { pub fn add(&mut self, x: u32) { self.0.push(x); } }", ("expect", ["(self : List Nat)", "(self ++ [x])"]), ("M", "add")),
    ("tsassoc", "pub struct M(Vec<u32>);\nimpl M { pub fn new() -> Self { M(vec![]) } }\nfn f() -> M { M::new() }", ("expect", ["(M.new)"])),
    ("smapclear", "pub struct T { pub m: BTreeMap<String, u32> }\nimpl T { pub fn wipe(&mut self) { self.m.clear(); } }", ("expect", ["{ self with m := [] }"]), ("T", "wipe")),
    ("r-orbind", "fn f(e: E) -> u32 { match e { E::A(n) | E::A(n) => n, _ => 0 } }", ("refuse", "or-pattern that binds")),
    # (b1012, round 9) `x.into()` between two structs of the unit = the one `impl From<_> for T`; no such impl / no wanted type: refused
    ("intofrom", "pub struct T { pub a: u64 }\nimpl From<S> for T { fn from(s: S) -> Self { T { a: s.a } } }\nfn f(s: S) -> T { s.into() }",
     ("expect", ["T.«from» s", "a := s.a"])),
    ("itermut", "impl S { fn f(&mut self) { for b in self.v.iter_mut() { *b = 0; } } }", ("expect", ["v := (self.v.map (fun b => 0))"]), ("S", "f")),
    ("r-itermut", "impl S { fn f(&mut self) { for b in self.v.iter_mut() { *b = 0; self.a = 1; } } }", ("refuse", "iter_mut"), ("S", "f")),
    ("unwrapres", "fn g(a: u64) -> Result<u64, ()> { if a > 3 { return Err(()); } Ok(a) }\nfn f(a: u64) -> Result<u64, ()> { let x = g(a).unwrap(); Ok(x + 1) }",
     ("expect", ["Rs.unwrapOk (g a)"])),
    ("r-into-noimpl", "pub struct T { pub a: u64 }\nfn f(s: S) -> T { s.into() }", ("refuse", "without a known widening target")),
    ("r-into-wrongarg", "pub struct T { pub a: u64 }\npub struct W { pub a: u64 }\nimpl From<W> for T { fn from(s: W) -> Self { T { a: s.a } } }\nfn f(s: S) -> T { s.into() }",
     ("refuse", "without a known widening target")),
]


def norm(s):
    return re.sub(r"\s+", " ", s)


def run(verbose=False):
    """list of failure messages (empty = all good)"""
    bad = []
    for case in CASES:
        name, src, (kind, arg) = case[0], case[1], case[2]
        target = case[3] if len(case) > 3 else (None, "f")
        try:
            u = Unit("/nonexistent", "<test:%s>" % name, "VlsModel.Test", src=PRE + src,
                     externals=case[4] if len(case) > 4 else None)
            u.get_fn(*target)
            text = u.emit()
            if kind == "refuse":
                bad.append("%s: translated but must be refused (%s)" % (name, arg))
            else:
                t = norm(text)
                for frag in arg:
                    if norm(frag) not in t:
                        bad.append("%s: fragment %r not in the output" % (name, frag))
                        if verbose: print(text)
        except RsError as e:
            if kind == "refuse":
                if arg not in str(e):
                    bad.append("%s: refused for another reason: %s" % (name, e))
            else:
                bad.append("%s: refused: %s" % (name, e))
        except Exception as e:        # a crash is a failure of the self-test, never a silent pass
            bad.append("%s: translator crashed: %r" % (name, e))
    bad += run_arms(verbose)
    return bad


ARM_SRC = """
pub struct H { pub ver: u32 }
impl Handler for H {
    fn do_handle(&self, msg: Message) -> Result<u32, ()> {
        match msg {
            Message::Ping(p) => {
                let x = p.id + 1;
                Ok(x)
            }
            Message::Pong(p) => Ok(p.id),
            Message::Rev(m) => {
                if self.ver < 5 {
                    return Err(());
                }
                Ok(m.n)
            }
            _ => Err(()),
        }
    }
}
pub struct Ping { pub id: u32 }
pub struct Rev { pub n: u32 }
"""


def run_arms(verbose=False):
    """arms of a dispatching `match` as methods (translate/fn_arms.py): shape of the rewrite and what stays refused"""
    import fn_arms
    bad = []

    def unit(src, plan):
        return Unit("/nonexistent", "<test:arms>", "VlsModel.Test", src=src, rewrite=fn_arms.make_arm_splitter("<test:arms>", plan))
    arm = lambda fn, param: {"fn": fn, "param": param, "ret": "Result<u32, ()>"}
    plan = {"H::do_handle": {"scrutinee": "msg", "enum": "Message", "arms": {"Ping": arm("h_ping", "Ping"), "Rev": arm("h_rev", "Rev")}}}
    try:
        u = unit(ARM_SRC, plan)
        u.get_fn("H", "h_ping"); u.get_fn("H", "h_rev")
        t = norm(u.emit())
        for frag in ["def H.h_ping", "Rs.uadd Rs.U32_MAX p.id 1", "def H.h_rev", "if (decide (self.ver < 5)) then"]:
            if norm(frag) not in t:
                bad.append("arms: fragment %r not in the output" % frag)
                if verbose: print(u.emit())
        if ARM_SRC.count("\n") != u.fi.src.count("\n"):
            bad.append("arms: the rewrite changed the line count")
    except Exception as e:
        bad.append("arms: refused or crashed: %r" % (e,))
    refusals = [
        ("r-arm-expr", plan_for := {"H::do_handle": {"scrutinee": "msg", "enum": "Message", "arms": {"Pong": arm("h_pong", "Ping")}}}, ARM_SRC, "no block body"),
        ("r-arm-missing", {"H::do_handle": {"scrutinee": "msg", "enum": "Message", "arms": {"Nope": arm("h_nope", "Ping")}}}, ARM_SRC, "no arm for"),
        ("r-arm-after-catch-all", {"H::do_handle": {"scrutinee": "msg", "enum": "Message", "arms": {"Rev": arm("h_rev", "Rev")}}},
         ARM_SRC.replace("            Message::Pong(p) => Ok(p.id),", "            _ => Err(()),"), "after a catch-all"),
        ("r-arm-twice", {"H::do_handle": {"scrutinee": "msg", "enum": "Message", "arms": {"Ping": arm("h_ping", "Ping")}}},
         ARM_SRC.replace("Message::Pong(p) => Ok(p.id),", "Message::Ping(p) => Ok(p.id),"), "has two arms"),
        ("r-arm-not-a-match", {"H::do_handle": {"scrutinee": "other", "enum": "Message", "arms": {"Ping": arm("h_ping", "Ping")}}}, ARM_SRC, "not a single `match"),
    ]
    for name, pl, src, why in refusals:
        try:
            u = unit(src, pl)
            fn = list(pl["H::do_handle"]["arms"].values())[0]["fn"]
            u.get_fn("H", fn)
            bad.append("%s: translated but must be refused (%s)" % (name, why))
        except RsError as e:
            if why not in str(e) and why not in str(u.rewrite_failed if 'u' in dir() else ""):
                bad.append("%s: refused for another reason: %s" % (name, e))
        except Exception as e:
            bad.append("%s: crashed: %r" % (name, e))
    return bad


if __name__ == "__main__":
    v = "-v" in sys.argv
    bad = run(v)
    for b in bad: print("FAIL", b)
    print("%d cases, %d failures" % (len(CASES), len(bad)))
    sys.exit(1 if bad else 0)
