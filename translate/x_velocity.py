"""C12: the (bucket_interval, num_buckets) table of VelocityControl::spec_to_triple."""
import re
from rustsrc import read, strip_comments, body_after, ExtractError


def extract(repo):
    src = strip_comments(read(repo, "vls-core/src/util/velocity.rs"))
    body = body_after(src, r"fn\s+spec_to_triple\s*\(")
    rows = {}
    for m in re.finditer(r"VelocityControlIntervalType::(\w+)\s*=>\s*\(\s*([\w:.]+)\s*,\s*(\d+)\s*,\s*(\d+)\s*\)", body):
        rows[m.group(1)] = (m.group(2), int(m.group(3)), int(m.group(4)))
    if set(rows) != {"Hourly", "Daily", "Unlimited"}:
        raise ExtractError("spec_to_triple: unexpected arms " + str(sorted(rows)))
    if rows["Hourly"][0] != "spec.limit_msat" or rows["Daily"][0] != "spec.limit_msat" or rows["Unlimited"][0] != "u64::MAX":
        raise ExtractError("spec_to_triple: unexpected limit expressions " + str(rows))
    lean = "namespace VlsModel.Gen.Velocity\n"
    for k in ("Hourly", "Daily", "Unlimited"):
        lean += f"def {k.lower()}Interval : Nat := {rows[k][1]}\n"
        lean += f"def {k.lower()}Buckets : Nat := {rows[k][2]}\n"
    lean += "end VlsModel.Gen.Velocity\n"
    facts = {k: {"bucket_interval": rows[k][1], "num_buckets": rows[k][2]} for k in rows}
    return {"Velocity.lean": lean}, {"C12": {"facts": {"spec_to_triple": facts},
                                             "obligations": ["Gen.Velocity: every interval type has bucket_interval > 0 and num_buckets > 0 (theorem C12_gen_table_ok)"]}}
