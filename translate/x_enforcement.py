"""C01/C02/C03: constants and guard shapes of the enforcement state machine.

Extracted on every run (fail closed: an expression that is not found in exactly the pinned shape raises):
  * INITIAL_COMMITMENT_NUMBER (vls-core/src/util/mod.rs), PROTOCOL_VERSION_REVOKE / _NO_SECRET
    (vls-protocol/src/msgs.rs) and their use in the handler arms (vls-protocol-signer/src/handler.rs);
  * the offsets of the secret-release guards and of the point guard (vls-core/src/channel.rs);
  * the progression / window checks of set_next_holder_commit_num, get_current_holder_commitment_info,
    set_next_counterparty_commit_num, set_next_counterparty_revoke_num (policy/validator.rs) and of
    validate_holder_commitment_tx, validate_counterparty_commitment_tx, validate_counterparty_revocation
    (policy/simple_validator.rs);
  * the slot count / index width of CounterpartyCommitmentSecrets (policy/validator.rs).
The numbers go to lean/VlsModel/Gen/Enforcement.lean; Model/Enforcement.lean and Model/Secrets.lean take the
named constants from there, and `Props/C01.lean` (`C01_gen_ties`) pins the guard offsets used by the model to
the extracted ones.
"""
import re
from rustsrc import read, strip_comments, body_after, const_value, ExtractError


def norm(s):
    return re.sub(r"\s+", " ", s).strip()


def shift_expr(s):
    """(1 << K) - 1  → value"""
    m = re.fullmatch(r"\(\s*1\s*<<\s*(\d+)\s*\)\s*-\s*1", s.strip())
    if not m:
        raise ExtractError("unexpected INITIAL_COMMITMENT_NUMBER expression: " + s)
    return (1 << int(m.group(1))) - 1, int(m.group(1))


def need(body, regex, what, count=None):
    ms = list(re.finditer(regex, body))
    if not ms or (count is not None and len(ms) != count):
        raise ExtractError(f"{what}: expected {'>=1' if count is None else count} match(es) of /{regex}/, found {len(ms)}")
    return ms


def extract(repo):
    util = strip_comments(read(repo, "vls-core/src/util/mod.rs"))
    msgs = strip_comments(read(repo, "vls-protocol/src/msgs.rs"))
    handler = norm(strip_comments(read(repo, "vls-protocol-signer/src/handler.rs")))
    channel_src = strip_comments(read(repo, "vls-core/src/channel.rs"))
    validator_src = strip_comments(read(repo, "vls-core/src/policy/validator.rs"))
    simple_src = strip_comments(read(repo, "vls-core/src/policy/simple_validator.rs"))

    initial, bits = shift_expr(const_value(util, "INITIAL_COMMITMENT_NUMBER"))
    v_revoke = int(const_value(msgs, "PROTOCOL_VERSION_REVOKE"))
    v_nosecret = int(const_value(msgs, "PROTOCOL_VERSION_NO_SECRET"))

    # ---- handler arms ----------------------------------------------------------------------
    # Round 9: the arms ValidateCommitmentTx(2), RevokeCommitmentTx, GetPerCommitmentPoint(2) are translated on every run
    # (translate/fn_arms.py -> Gen/FnHandlerArms.lean) and proved equal to the model's handler composites
    # (Props/C01Fn.lean, section HandlerArms).  Their shapes are therefore no longer pinned by regular expressions here: a
    # change reaches the kernel as a broken `C01_fn_handle_*` theorem (and a harmless rewrite no longer aborts the
    # regeneration).  Only the lag of GetPerCommitmentPoint is still read off as an exported fact.
    m = need(handler, r"if self\.protocol_version < PROTOCOL_VERSION_NO_SECRET && commitment_number >= (\d+) \{ Some\(base\.get_per_commitment_secret\(commitment_number - (\d+)\)\?\) \}",
             "GetPerCommitmentPoint: old protocol returns secret n-2", 1)[0]
    getpoint_lag = int(m.group(1))      # threshold `commitment_number >= lag`; the subtraction is in the generated arm

    # ---- channel.rs ------------------------------------------------------------------------
    stub = norm(body_after(channel_src, r"impl\s+ChannelBase\s+for\s+ChannelStub"))
    need(stub, r"if !\[0, 1\]\.contains\(&commitment_number\)", "ChannelStub::get_per_commitment_point: only 0 and 1", 1)
    chan = norm(body_after(channel_src, r"impl\s+ChannelBase\s+for\s+Channel\s*\{"))
    m = need(chan, r"if commitment_number > next_holder_commit_num \+ (\d+) \{", "Channel::get_per_commitment_point guard", 1)[0]
    point_slack = int(m.group(1))
    ms = need(chan, r"if commitment_number\.checked_add\((\d+)\)\.map_or\(true, \|n\| n > next_holder_commit_num\) \{",
              "secret-release guard (checked_add … map_or(true, |n| n > next))", 2)
    offs = {int(x.group(1)) for x in ms}
    if len(offs) != 1:
        raise ExtractError("the two secret-release guards use different offsets: " + str(offs))
    release_offset = offs.pop()
    allchan = norm(channel_src)
    need(allchan, r"if new_current_commitment_number != self\.enforcement_state\.next_holder_commit_num \{ return Ok\(self\.release_commitment_secret\(new_current_commitment_number\)\?\);",
         "revoke_previous_holder_commitment: non-advancing branch", 1)
    need(allchan, r"if self\.enforcement_state\.channel_closed \{ policy_err!\( validator, \"policy-revoke-not-closed\"",
         "revoke_previous_holder_commitment: closed check", 1)
    need(allchan, r"if commitment_number == self\.enforcement_state\.next_holder_commit_num \{ let counterparty_signatures",
         "validate stores next info only for n == next", 2)
    need(allchan, r"for ndx in 0\.\.recomposed_tx\.htlcs\(\)\.len\(\) \{ let htlc = &recomposed_tx\.htlcs\(\)\[ndx\];",
         "check_holder_tx_signatures: index loop over every HTLC", 1)
    need(allchan, r"&counterparty_htlc_sigs\[ndx\]", "check_holder_tx_signatures: signature by index", 1)

    # ---- validator.rs ----------------------------------------------------------------------
    # Round 8: the progression / selector / retry / closed / point-comparison shapes of validator.rs and simple_validator.rs, the
    # stub's secret functions and release_commitment_secret are no longer pinned by regular expressions here: their BODIES are
    # translated by rs2lean on every run and proved equal to the model (Props/C01Fn.lean, C02Fn.lean, C03Fn.lean), which is
    # stronger (semantic) and does not raise on a harmless rewrite.  What stays pinned: the arms of handler.rs and the glue of
    # channel.rs that are not translated, and the expressions whose offsets are exported as facts below.
    v = norm(validator_src)
    m = need(v, r"let delta = if num == 1 \{ (\d+) \} else \{ (\d+) \}; if num < estate\.next_counterparty_revoke_num \+ delta \{",
             "set_next_counterparty_commit_num window", 1)[0]
    cp_delta_first, cp_delta = int(m.group(1)), int(m.group(2))
    m1 = need(v, r"if num \+ (\d+) < estate\.next_counterparty_commit_num \{", "set_next_counterparty_revoke_num lower window", 1)[0]
    m2 = need(v, r"if num \+ (\d+) > estate\.next_counterparty_commit_num \{", "set_next_counterparty_revoke_num upper window", 1)[0]
    rev_low, rev_high = int(m1.group(1)), int(m2.group(1))
    m = need(v, r"fn place_secret\(idx: u64\) -> u8 \{ for i in 0\.\.(\d+) \{ if idx & \(1 << i\) == \(1 << i\) \{ return i; \} \} (\d+) \}", "place_secret", 1)[0]
    if m.group(1) != m.group(2):
        raise ExtractError("place_secret: loop bound and default differ")
    place_bits = int(m.group(1))
    m = need(v, r"pub fn get_min_seen_secret\(&self\) -> u64 \{ let mut min = 1 << (\d+);", "get_min_seen_secret", 1)[0]
    min_bits = int(m.group(1))
    if not (place_bits == min_bits == bits):
        raise ExtractError(f"index widths differ: place {place_bits}, min {min_bits}, INITIAL {bits}")

    # ---- simple_validator.rs ---------------------------------------------------------------
    sv = norm(simple_src)
    m = need(sv, r"if commit_num > estate\.next_counterparty_revoke_num \+ (\d+) \{", "validate_counterparty_commitment_tx window", 1)[0]
    cp_sign_ahead = int(m.group(1))
    m = need(sv, r"if commit_num \+ (\d+) <= estate\.next_holder_commit_num \{", "holder not-revoked check", 1)[0]
    holder_revoked = int(m.group(1))

    facts = {
        "INITIAL_COMMITMENT_NUMBER": initial, "PROTOCOL_VERSION_REVOKE": v_revoke, "PROTOCOL_VERSION_NO_SECRET": v_nosecret,
        "releaseOffset": release_offset, "pointSlack": point_slack, "getPointSecretLag": getpoint_lag,
        "holderRevokedOffset": holder_revoked, "cpSignAhead": cp_sign_ahead, "cpDeltaFirst": cp_delta_first, "cpDelta": cp_delta,
        "cpRevokeLow": rev_low, "cpRevokeHigh": rev_high, "secretIndexBits": bits,
    }
    lean = "namespace VlsModel.Gen.Enforcement\n"
    for k, val in facts.items():
        lean += f"def {k} : Nat := {val}\n"
    lean += f"/-- `1 << {bits}` -/\ndef secretIndexSpace : Nat := {1 << bits}\n"
    lean += "end VlsModel.Gen.Enforcement\n"
    obligations = ["Gen.Enforcement: the model's guard offsets equal the extracted ones (theorem C01_gen_ties); "
                   "INITIAL / PROTOCOL_VERSION_* / 2^48 are taken from the generated file by Model/Enforcement.lean and Model/Secrets.lean; "
                   "20 guard expressions pinned by shape (translator fails closed); the other guards of these files are generated bodies tied by Props/C0xFn.lean"]
    info = {p: {"facts": {"enforcement": facts}, "obligations": obligations} for p in ("C01", "C02", "C03")}
    return {"Enforcement.lean": lean}, info
