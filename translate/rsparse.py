"""Lexer and parser for the subset of Rust handled by rs2lean.py.  Fail closed: anything that is not
recognised raises RsError (never skipped)."""
import re


class RsError(Exception):
    pass


INT_SUFFIXES = ("u8", "u16", "u32", "u64", "u128", "usize", "i8", "i16", "i32", "i64", "i128", "isize")
PUNCT = ["<<=", ">>=", "...", "..=", "::", "->", "=>", "==", "!=", "<=", ">=", "&&", "||", "+=", "-=", "*=",
         "/=", "%=", "^=", "&=", "|=", "<<", ">>", "..",
         "+", "-", "*", "/", "%", "^", "!", "&", "|", "=", "<", ">", "@", ".", ",", ";", ":", "#", "$", "?",
         "(", ")", "[", "]", "{", "}"]
_tok_re = re.compile(r"""
    (?P<ws>\s+)
  | (?P<lc>//[^\n]*)
  | (?P<bc>/\*.*?\*/)
  | (?P<str>b?"(?:[^"\\]|\\.)*")
  | (?P<life>'[A-Za-z_]\w*(?!'))
  | (?P<chr>b?'(?:[^'\\]|\\.)')
  | (?P<int>0x[0-9a-fA-F_]+(?:u8|u16|u32|u64|u128|usize|i8|i16|i32|i64|i128|isize)?
          | \d[\d_]*(?:u8|u16|u32|u64|u128|usize|i8|i16|i32|i64|i128|isize)?(?![\w.]|\.\d))
  | (?P<float>\d[\d_]*\.\d[\d_]*)
  | (?P<id>[A-Za-z_]\w*)
  | (?P<p>""" + "|".join(re.escape(p) for p in PUNCT) + r""")
""", re.X | re.S)


class Tok:
    __slots__ = ("k", "s", "line")

    def __init__(self, k, s, line):
        self.k, self.s, self.line = k, s, line

    def __repr__(self):
        return "%s:%r@%d" % (self.k, self.s, self.line)


def lex(src):
    toks, i, line = [], 0, 1
    n = len(src)
    while i < n:
        m = _tok_re.match(src, i)
        if not m:
            # `1.` style: an int followed by '.' method call, e.g. 0.max(..) -- handle int then '.'
            m2 = re.match(r"\d[\d_]*", src[i:])
            if m2:
                toks.append(Tok("int", m2.group(0), line)); i += m2.end(); continue
            raise RsError("lexer: unexpected character %r at line %d" % (src[i], line))
        k = m.lastgroup
        s = m.group(0)
        if k in ("ws", "lc", "bc"):
            pass
        elif k == "float":
            raise RsError("float literal at line %d" % line)
        else:
            toks.append(Tok(k, s, line))
        line += s.count("\n")
        i = m.end()
    return toks


# ------------------------------------------------------------------------------------------------
# file index: functions (by impl type), structs, enums, consts

class FileIndex:
    def __init__(self, rel, src):
        self.rel = rel
        self.src = src
        self.toks = lex(src)
        self.fns = {}      # (ImplType or None, name) -> token index of `fn`
        self.structs = {}  # name -> [(field, type_ast)]
        self.enums = {}    # name -> [variant] (unit variants only; None if it has data variants)
        self.enum_data = {}  # name -> [(variant, None | ("tuple", [type]) | ("struct", [(field, type)]))] for enums with data
        self.tuple_structs = {}  # name -> [component type]
        self.decl_only = set()   # (impl, name) of trait method declarations without a body
        self.consts = {}   # name -> (type_ast, [tokens of expr])
        self._scan()

    def _scan(self):
        t = self.toks
        stack = []   # labels per open brace
        i, n = 0, len(t)
        pending = None
        while i < n:
            s = t[i].s
            if t[i].k == "id" and s == "impl" and not any(x and x[0] == "fn" for x in stack):
                j = i + 1
                hdr = []
                depth = 0
                while j < n and not (t[j].s == "{" and depth == 0):
                    if t[j].s == "<": depth += 1
                    elif t[j].s == ">": depth -= 1
                    elif t[j].s == ">>": depth -= 2
                    hdr.append(t[j]); j += 1
                # self type: ident after `for` at depth 0, else first ident after the generics
                name, d, after_for = None, 0, False
                has_for = False
                dd = 0
                for x in hdr:
                    if x.s == "<": dd += 1
                    elif x.s == ">": dd -= 1
                    elif x.s == ">>": dd -= 2
                    elif dd == 0 and x.s == "for": has_for = True
                dd = 0
                seen_for = not has_for
                for x in hdr:
                    if x.s == "<": dd += 1
                    elif x.s == ">": dd -= 1
                    elif x.s == ">>": dd -= 2
                    elif dd == 0 and x.s == "for": seen_for = True
                    elif dd == 0 and x.s == "where": break
                    elif dd == 0 and x.k == "id" and seen_for and x.s not in ("for",):
                        name = x.s   # last path segment wins
                stack.append(("impl", name)); i = j + 1; continue
            if t[i].k == "id" and s == "trait" and i + 1 < n and t[i + 1].k == "id" and not any(x and x[0] == "fn" for x in stack):
                j = i + 2
                while j < n and t[j].s != "{": j += 1
                stack.append(("impl", t[i + 1].s)); i = j + 1; continue
            if t[i].k == "id" and s == "mod" and i + 2 < n and t[i + 2].s == "{":
                stack.append(("mod", t[i + 1].s)); i += 3; continue
            if t[i].k == "id" and s == "fn" and i + 1 < n and t[i + 1].k == "id":
                in_fn = any(x[0] == "fn" for x in stack)
                in_tests = any(x == ("mod", "tests") or x == ("mod", "test") for x in stack)
                if not in_fn and not in_tests:
                    impl = None
                    for x in reversed(stack):
                        if x[0] == "impl": impl = x[1]; break
                    key = (impl, t[i + 1].s)
                    if key in self.fns:
                        self.fns[key] = "ambiguous"
                    else:
                        self.fns[key] = i
                # skip to body or ';'
                j = i + 2
                d = 0
                while j < n:
                    if t[j].s in ("(", "[", "<"): d += 1
                    elif t[j].s in (")", "]", ">"): d -= 1
                    elif t[j].s == ">>": d -= 2
                    elif t[j].s == "->": pass
                    elif t[j].s == "{" and d <= 0: break
                    elif t[j].s == ";" and d <= 0: break
                    j += 1
                if j < n and t[j].s == "{":
                    stack.append(("fn", t[i + 1].s)); i = j + 1; continue
                if not in_fn and not in_tests:
                    self.decl_only.add(key)
                i = j + 1; continue
            if t[i].k == "id" and s == "struct" and i + 1 < n and t[i + 1].k == "id" and not any(x[0] == "fn" for x in stack):
                name = t[i + 1].s
                j = i + 2
                d = 0
                while j < n and not (t[j].s in ("{", ";", "(") and d == 0):
                    if t[j].s == "<": d += 1
                    elif t[j].s == ">": d -= 1
                    j += 1
                if j < n and t[j].s == "{":
                    p = Parser(t, j + 1, self.rel)
                    fields = []
                    while p.peek().s != "}":
                        p.skip_attrs()
                        if p.peek().s == "}": break
                        if p.peek().s == "pub":
                            p.next()
                            if p.peek().s == "(":
                                p.skip_group()
                        fname = p.ident()
                        p.expect(":")
                        start = p.i
                        try:
                            ty = p.type_()
                            if p.peek().s not in (",", "}"): raise RsError("type tail")
                        except RsError:
                            ty = None
                            p.i = start
                            p.skip_to_comma()
                        fields.append((fname, ty))
                        if not p.accept(","): break
                    p.expect("}")
                    if name not in self.structs:
                        self.structs[name] = fields
                    i = p.i - (len(p.t) - len(t))
                    continue
                if j < n and t[j].s == "(" and name not in self.tuple_structs:
                    # tuple struct `struct KVV(pub String, pub (u64, Vec<u8>));` -> the tuple of its components
                    p = Parser(t, j + 1, self.rel)
                    comps = []
                    try:
                        while p.peek().s != ")":
                            p.skip_attrs()
                            if p.peek().s == "pub":
                                p.next()
                                if p.peek().s == "(" and p.peek(1).s in ("crate", "super", "in", "self"):
                                    p.skip_group()
                            comps.append(p.type_())
                            if not p.accept(","): break
                        p.expect(")")
                        self.tuple_structs[name] = comps
                        i = p.i - (len(p.t) - len(t))
                        continue
                    except RsError:
                        pass
            if t[i].k == "id" and s == "enum" and i + 1 < n and t[i + 1].k == "id" and not any(x[0] == "fn" for x in stack):
                name = t[i + 1].s
                j = i + 2
                while j < n and t[j].s != "{": j += 1
                p = Parser(t, j + 1, self.rel)
                variants, unit, data, data_ok = [], True, [], True
                while p.peek().s != "}":
                    p.skip_attrs()
                    if p.peek().s == "}": break
                    v = p.ident()
                    payload = None
                    if p.peek().s in ("(", "{"):
                        unit = False
                        start = p.i
                        try:
                            if p.accept("("):
                                comps = []
                                while p.peek().s != ")":
                                    p.skip_attrs()
                                    comps.append(p.type_())
                                    if not p.accept(","): break
                                p.expect(")")
                                payload = ("tuple", comps)
                            else:
                                p.expect("{")
                                flds = []
                                while p.peek().s != "}":
                                    p.skip_attrs()
                                    fn_ = p.ident(); p.expect(":")
                                    flds.append((fn_, p.type_()))
                                    if not p.accept(","): break
                                p.expect("}")
                                payload = ("struct", flds)
                        except RsError:
                            data_ok = False
                            p.i = start
                            p.skip_group()
                    if p.accept("="):
                        p.expr()
                    variants.append(v)
                    data.append((v, payload))
                    if not p.accept(","): break
                p.expect("}")
                self.enums.setdefault(name, variants if unit else None)
                if not unit and data_ok:
                    self.enum_data.setdefault(name, data)
                i = p.i - (len(p.t) - len(t))
                continue
            if t[i].k == "id" and s == "const" and i + 2 < n and t[i + 1].k == "id" and t[i + 2].s == ":" \
                    and not any(x[0] == "fn" for x in stack):
                p = Parser(t, i + 1, self.rel)
                name = p.ident(); p.expect(":")
                try:
                    ty = p.type_(); p.expect("=")
                    e = p.expr(); p.expect(";")
                    self.consts.setdefault(name, (ty, e))
                    i = p.i - (len(p.t) - len(t))
                    continue
                except RsError:
                    pass
            if s == "{":
                stack.append(("blk", None))
            elif s == "}":
                if stack: stack.pop()
            i += 1

    def function(self, impl, name):
        k = self.fns.get((impl, name))
        if k is None:
            raise RsError("%s: function %s%s not found" % (self.rel, (impl + "::") if impl else "", name))
        if k == "ambiguous":
            raise RsError("%s: function %s::%s is ambiguous" % (self.rel, impl, name))
        p = Parser(self.toks, k, self.rel)
        f = p.fn_item()
        f["impl"] = impl
        # visibility: tokens before `fn`
        vis = ""
        j = k - 1
        back = []
        while j >= 0 and self.toks[j].s in ("pub", ")", "crate", "(", "super", "in", "self", "async", "const", "unsafe") and len(back) < 6:
            back.append(self.toks[j].s); j -= 1
        f["vis"] = " ".join(reversed(back))
        f["text"] = " ".join(x.s for x in self.toks[k:p.i])
        # verbatim source (with comments) from the original text, for the snippet harness
        f["line"] = self.toks[k].line
        f["end_line"] = self.toks[p.i - 1].line
        return f


# ------------------------------------------------------------------------------------------------
# parser

BINPREC = {"||": 1, "&&": 2, "==": 3, "!=": 3, "<": 3, ">": 3, "<=": 3, ">=": 3, "|": 4, "^": 5, "&": 6,
           "<<": 7, ">>": 7, "+": 8, "-": 8, "*": 9, "/": 9, "%": 9}
BLOCKLIKE = ("if", "iflet", "match", "for", "block", "while", "whilelet", "loop")
ASSIGN_OPS = ("=", "+=", "-=", "*=", "/=", "%=", "^=", "&=", "|=", "<<=", ">>=")


class Parser:
    def __init__(self, toks, i, rel="?"):
        self.t, self.i, self.rel = toks, i, rel

    def err(self, msg):
        ln = self.t[self.i].line if self.i < len(self.t) else -1
        raise RsError("%s:%d: %s (at %r)" % (self.rel, ln, msg, self.t[self.i].s if self.i < len(self.t) else "EOF"))

    def peek(self, k=0):
        return self.t[self.i + k] if self.i + k < len(self.t) else Tok("eof", "", -1)

    def next(self):
        x = self.peek(); self.i += 1; return x

    def accept(self, s):
        if self.peek().s == s and self.peek().k not in ("str",):
            self.i += 1; return True
        return False

    def expect(self, s):
        if not self.accept(s):
            self.err("expected %r" % s)

    def ident(self):
        x = self.next()
        if x.k != "id":
            self.i -= 1; self.err("expected identifier")
        return x.s

    def skip_group(self):
        """skip a balanced (...) [...] {...} group starting at the current token"""
        op = self.next().s
        cl = {"(": ")", "[": "]", "{": "}"}[op]
        d = 1
        while d:
            x = self.next()
            if x.k == "eof": self.err("unbalanced group")
            if x.k == "str": continue
            if x.s == op: d += 1
            elif x.s == cl: d -= 1

    def skip_attrs(self):
        while self.peek().s == "#":
            self.next()
            self.accept("!")
            self.skip_group()

    def skip_to_comma(self):
        d = 0
        while True:
            x = self.peek()
            if x.k == "eof": self.err("eof")
            if d == 0 and x.s in (",", "}"): return
            if x.s in ("(", "[", "{", "<"): d += 1
            elif x.s in (")", "]", "}", ">"): d -= 1
            elif x.s == ">>": d -= 2
            self.next()

    # ---- types
    def close_angle(self):
        x = self.peek()
        if x.s == ">":
            self.next()
        elif x.s == ">>":
            # split
            self.t = list(self.t)
            self.t[self.i] = Tok("p", ">", x.line)
            self.t.insert(self.i, Tok("p", ">", x.line))
            self.next()
        else:
            self.err("expected '>'")

    def type_(self):
        if self.accept("&"):
            if self.peek().k == "life": self.next()
            self.accept("mut")
            return self.type_()
        if self.accept("("):
            ts = []
            while not self.accept(")"):
                ts.append(self.type_())
                if not self.accept(","):
                    self.expect(")"); break
            if not ts: return ("unit",)
            if len(ts) == 1: return ts[0]
            return ("tuple", ts)
        if self.accept("["):
            t = self.type_()
            if self.accept(";"):
                n = self.expr()
                self.expect("]")
                return ("array", t, n)
            self.expect("]")
            return ("vec", t)
        if self.peek().s in ("impl", "dyn") and self.peek().k == "id" and self.peek(1).k == "id":
            # trait object / impl-trait (`&dyn Wallet`, `Arc<dyn Clock>`, `impl Fn..` is still refused below): the opaque
            # type named after the (first) trait; further bounds (`+ Send`) are skipped
            self.next()
            t0 = self.type_()
            while self.accept("+"):
                if self.peek().k == "life": self.next()
                else: self.type_()
            return t0
        if self.peek().s in ("impl", "dyn", "fn", "*"):
            self.err("unsupported type")
        segs = [self.ident()]
        args = []
        while True:
            if len(segs) == 1 and segs[0] in INT_SUFFIXES + ("bool", "str"):
                break
            if self.peek().s == "::" and self.peek(1).k == "id":
                self.next(); segs.append(self.ident()); continue
            if self.peek().s == "<":
                self.next()
                while self.peek().s not in (">", ">>"):
                    if self.peek().k == "life":
                        self.next()
                    else:
                        args.append(self.type_())
                    if not self.accept(","): break
                self.close_angle()
                continue
            break
        name = segs[-1]
        if name in INT_SUFFIXES: return ("int", name)
        if name == "bool": return ("bool",)
        if name in ("str", "String"): return ("str",)
        if name == "Option" and len(args) == 1: return ("opt", args[0])
        if name == "Result" and len(args) >= 1: return ("result", args[0], args[1] if len(args) > 1 else ("named", "Error", []))
        if name in ("Vec", "VecDeque") and len(args) == 1: return ("vec", args[0])
        if name in ("BTreeSet", "HashSet", "OrderedSet", "UnorderedSet") and len(args) >= 1:
            return ("named", "__set_" + ("o" if name in ("BTreeSet", "OrderedSet") else "u"), [args[0]])
        if name == "Box" and len(args) == 1: return args[0]
        return ("named", name, args)

    # ---- patterns
    def pattern(self):
        p = self.pattern1()
        if self.peek().s == "|" :
            alts = [p]
            while self.accept("|"):
                alts.append(self.pattern1())
            return ("por", alts)
        return p

    def pattern1(self):
        x = self.peek()
        if x.s == "&":
            self.next(); self.accept("mut"); return self.pattern1()
        if x.s in ("ref", "mut") and x.k == "id":
            self.next(); return self.pattern1()
        if x.s == "_" and x.k == "id":
            self.next(); return ("pwild",)
        if x.s == "(":
            self.next()
            ps = []
            while not self.accept(")"):
                ps.append(self.pattern())
                if not self.accept(","):
                    self.expect(")"); break
            if len(ps) == 1: return ps[0]
            return ("ptuple", ps)
        if x.k == "int":
            self.next(); return ("plit", parse_int(x.s)[0])
        if x.s == "-" and self.peek(1).k == "int":
            self.next(); return ("plit", -parse_int(self.next().s)[0])
        if x.s in ("true", "false") and x.k == "id":
            self.next(); return ("pbool", x.s == "true")
        if x.k == "str":
            self.next(); return ("pstr", x.s[1:-1])
        if x.k == "id":
            segs = [self.ident()]
            while self.peek().s == "::":
                self.next(); segs.append(self.ident())
            if self.peek().s == "(":
                self.next()
                ps = []
                while not self.accept(")"):
                    ps.append(self.pattern())
                    if not self.accept(","):
                        self.expect(")"); break
                return ("pctor", segs, ps)
            if self.peek().s == "{":
                # struct pattern `S { f, g: pat, .. }` (also struct-like enum variants)
                self.next()
                fps, rest = [], False
                while not self.accept("}"):
                    if self.accept(".."):
                        rest = True; self.expect("}"); break
                    if self.peek().s in ("ref", "mut") and self.peek().k == "id": self.next()
                    if self.peek().s == "mut" and self.peek().k == "id": self.next()
                    fn_ = self.ident()
                    if self.accept(":"):
                        fp = self.pattern()
                    else:
                        fp = ("pvar", fn_)
                    fps.append((fn_, fp))
                    if not self.accept(","):
                        self.expect("}"); break
                return ("pstruct", segs, fps, rest)
            if len(segs) == 1 and (segs[0][0].islower() or segs[0][0] == "_"):
                if self.peek().s == "@":
                    self.err("binding @ patterns are outside the subset")
                return ("pvar", segs[0])
            return ("ppath", segs)
        self.err("unsupported pattern")

    # ---- items
    def fn_item(self):
        self.expect("fn")
        name = self.ident()
        if self.peek().s == "<":
            # generics: skip balanced
            d = 0
            while True:
                x = self.next()
                if x.s == "<": d += 1
                elif x.s == ">": d -= 1
                elif x.s == ">>": d -= 2
                if d <= 0: break
        self.expect("(")
        params, selfk = [], None
        while not self.accept(")"):
            self.skip_attrs()
            if self.peek().s == "&" and (self.peek(1).s == "self" or (self.peek(1).s == "mut" and self.peek(2).s == "self")
                                         or (self.peek(1).k == "life")):
                self.next()
                if self.peek().k == "life": self.next()
                if self.accept("mut"):
                    selfk = "mut"
                else:
                    selfk = "ref"
                self.expect("self")
            elif self.peek().s == "self":
                self.next(); selfk = "val"
            elif self.peek().s == "mut" and self.peek(1).s == "self":
                self.next(); self.next(); selfk = "valmut"
            else:
                ismut = self.accept("mut")
                pn = self.pattern1()
                self.expect(":")
                refmut = self.peek().s == "&" and (self.peek(1).s == "mut" or (self.peek(1).k == "life" and self.peek(2).s == "mut"))
                ty = self.type_()
                params.append((pn, ty, ismut, refmut))
            if not self.accept(","):
                self.expect(")"); break
        ret = ("unit",)
        if self.accept("->"):
            ret = self.type_()
        if self.peek().s == "where":
            while self.peek().s not in ("{", ";"): self.next()
        if self.peek().s == ";":
            self.next()
            return {"name": name, "params": params, "self": selfk, "ret": ret, "body": None}
        body = self.block()
        return {"name": name, "params": params, "self": selfk, "ret": ret, "body": body}

    def block(self):
        self.expect("{")
        stmts = []
        tail = None
        while True:
            self.skip_attrs()
            if self.accept("}"): break
            if self.accept(";"): continue
            x = self.peek()
            if x.s == "let" and x.k == "id":
                self.next()
                pat = self.pattern()
                ty = None
                if self.accept(":"): ty = self.type_()
                e = None
                if self.accept("="):
                    e = self.expr()
                if self.peek().s == "else" and self.peek().k == "id":
                    self.next()
                    els = self.block()
                    self.expect(";")
                    if e is None: self.err("let-else without initialiser")
                    stmts.append(("letelse", pat, ty, e, els, x.line))
                    continue
                self.expect(";")
                stmts.append(("let", pat, ty, e, x.line))
                continue
            if x.s == "const" and x.k == "id":
                self.next(); name = self.ident(); self.expect(":"); ty = self.type_(); self.expect("=")
                e = self.expr(); self.expect(";")
                stmts.append(("const", name, ty, e, x.line)); continue
            if x.s in ("fn", "struct", "enum", "impl", "use", "static", "type", "trait", "unsafe") and x.k == "id":
                self.err("item/statement %r inside a body is outside the subset" % x.s)
            e = self.expr(stmt=True)
            if self.accept(";"):
                stmts.append(("expr", e, x.line)); continue
            if self.peek().s == "}" and e[0] in ("for", "while", "whilelet"):
                self.next(); stmts.append(("expr", e, x.line)); break      # unit-valued: a statement, not a value
            if self.peek().s == "}":
                self.next(); tail = e; break
            if e[0] in BLOCKLIKE:
                stmts.append(("expr", e, x.line)); continue
            self.err("expected ';' or '}'")
        return ("block", stmts, tail)

    # ---- expressions
    def expr(self, stmt=False, nostruct=False):
        return self.assign(nostruct, stmt)

    def assign(self, nostruct, stmt=False):
        l = self.range_(nostruct, stmt)
        if self.peek().s in ASSIGN_OPS and self.peek().k == "p":
            op = self.next().s
            r = self.assign(nostruct)
            return ("assign", op, l, r)
        return l

    def range_(self, nostruct, stmt=False):
        ends = ("]", ")", ";", ",", "}", "{")
        if self.peek().s in ("..", "..=") and self.peek().k == "p":
            op = self.next().s
            r = None if self.peek().s in ends else self.binary(1, nostruct)
            return ("range", None, r, op == "..=")
        l = self.binary(1, nostruct, stmt)
        if self.peek().s in ("..", "..=") and self.peek().k == "p":
            op = self.next().s
            r = None if self.peek().s in ends else self.binary(1, nostruct)
            return ("range", l, r, op == "..=")
        return l

    def binary(self, minprec, nostruct, stmt=False):
        l = self.unary(nostruct, stmt)
        # a block-like expression at statement position ends the statement
        if stmt and l[0] in BLOCKLIKE and self.peek().s not in (".", "?"):
            return l
        while True:
            x = self.peek()
            if x.k != "p" or x.s not in BINPREC: break
            prec = BINPREC[x.s]
            if prec < minprec: break
            self.next()
            r = self.binary(prec + 1, nostruct)
            l = ("binary", x.s, l, r)
        return l

    def unary(self, nostruct, stmt=False):
        x = self.peek()
        if x.k == "p" and x.s == "!":
            self.next(); return ("unary", "!", self.unary(nostruct))
        if x.k == "p" and x.s == "-":
            self.next(); return ("unary", "-", self.unary(nostruct))
        if x.k == "p" and x.s == "*":
            self.next(); return ("deref", self.unary(nostruct))
        if x.k == "p" and x.s in ("&", "&&"):
            self.next()
            if self.accept("mut"): return ("ref", self.unary(nostruct), True)     # `&mut place`: a mutation of the place
            return ("ref", self.unary(nostruct))
        e = self.primary(nostruct)
        if stmt and e[0] in BLOCKLIKE and self.peek().s in ("(", "["):
            return e      # a block-like expression statement ends here: `if c { } (a, b)` is not a call
        e = self.postfix(e, nostruct)
        while self.peek().s == "as" and self.peek().k == "id":
            self.next()
            ty = self.type_()
            e = ("cast", e, ty)
        return e

    def args(self):
        self.expect("(")
        a = []
        while not self.accept(")"):
            a.append(self.expr())
            if not self.accept(","):
                self.expect(")"); break
        return a

    def postfix(self, e, nostruct):
        while True:
            x = self.peek()
            if x.s == "?" and x.k == "p":
                self.next(); e = ("try", e); continue
            if x.s == "." and x.k == "p":
                self.next()
                y = self.next()
                if y.k == "int":
                    e = ("tfield", e, int(y.s)); continue
                if y.k != "id":
                    self.i -= 1; self.err("expected field or method name")
                if y.s == "await":
                    self.err("await is outside the subset")
                turbo = None
                if self.peek().s == "::":
                    self.next(); self.expect("<"); turbo = self.type_(); self.close_angle()
                if self.peek().s == "(":
                    e = ("mcall", e, y.s, turbo, self.args(), y.line); continue
                e = ("field", e, y.s); continue
            if x.s == "(" and x.k == "p":
                e = ("call", e, self.args(), x.line); continue
            if x.s == "[" and x.k == "p":
                self.next(); idx = self.expr(); self.expect("]")
                e = ("index", e, idx); continue
            return e

    def primary(self, nostruct):
        x = self.peek()
        if x.k == "int":
            self.next(); v, suf = parse_int(x.s); return ("int", v, suf)
        if x.k == "str":
            self.next()
            if x.s.startswith("b"): return ("str", x.s[2:-1], "b")      # byte-string literal `b"…"` (marked; b1819)
            return ("str", x.s[1:-1])
        if x.k == "chr":
            if x.s.startswith("b") and len(x.s) == 4:
                self.next(); return ("int", ord(x.s[2]), "u8")
            self.err("char literal is outside the subset")
        if x.s == "[" and x.k == "p":
            self.next()
            es = []
            if self.accept("]"): return ("array", es)
            first = self.expr()
            if self.accept(";"):
                n = self.expr(); self.expect("]")
                return ("arrayrep", first, n)
            es.append(first)
            while self.accept(","):
                if self.peek().s == "]": break
                es.append(self.expr())
            self.expect("]")
            return ("array", es)
        if x.s == "(" and x.k == "p":
            self.next()
            es = []
            trailing = False
            while not self.accept(")"):
                es.append(self.expr())
                if self.accept(","):
                    trailing = True
                else:
                    trailing = False
                    self.expect(")"); break
            if not es: return ("unit",)
            if len(es) == 1 and not trailing: return ("paren", es[0])
            return ("tuple", es)
        if x.s == "{" and x.k == "p":
            return self.block()
        if x.s == "|" or x.s == "||":
            self.next()
            params = []
            if x.s == "|":
                while not self.accept("|"):
                    p = self.pattern1()
                    if self.accept(":"): self.type_()
                    params.append(p)
                    if not self.accept(","):
                        self.expect("|"); break
            body = self.expr()
            return ("closure", params, body)
        if x.k != "id":
            self.err("unexpected token in expression")
        if x.s == "if":
            self.next()
            if self.peek().s == "let":
                self.next()
                pat = self.pattern(); self.expect("=")
                e = self.expr(nostruct=True)
                then = self.block()
                els = None
                if self.accept("else"):
                    els = self.primary(nostruct) if self.peek().s == "if" else self.block()
                return ("iflet", pat, e, then, els)
            c = self.expr(nostruct=True)
            then = self.block()
            els = None
            if self.accept("else"):
                els = self.primary(nostruct) if self.peek().s == "if" else self.block()
            return ("if", c, then, els)
        if x.s == "match":
            self.next()
            scrut = self.expr(nostruct=True)
            self.expect("{")
            arms = []
            while not self.accept("}"):
                self.skip_attrs()
                pat = self.pattern()
                guard = None
                if self.peek().s == "if" and self.peek().k == "id":
                    self.next(); guard = self.expr()
                self.expect("=>")
                body = self.expr(stmt=True)
                arms.append((pat, guard, body))
                if not self.accept(","):
                    if body[0] != "block" and self.peek().s != "}":
                        self.err("expected ',' after match arm")
            return ("match", scrut, arms)
        if x.s == "for":
            self.next()
            pat = self.pattern()
            if self.next().s != "in": self.i -= 1; self.err("expected 'in'")
            it = self.expr(nostruct=True)
            body = self.block()
            return ("for", pat, it, body)
        if x.s == "return":
            self.next()
            if self.peek().s in (";", "}", ","):
                return ("return", None)
            return ("return", self.expr())
        if x.s == "while":
            self.next()
            if self.peek().s == "let" and self.peek().k == "id":
                self.next()
                pat = self.pattern(); self.expect("=")
                e = self.expr(nostruct=True)
                return ("whilelet", pat, e, self.block())
            c = self.expr(nostruct=True)
            return ("while", c, self.block())
        if x.s == "loop":
            self.next()
            return ("loop", self.block())
        if x.s == "break":
            self.next()
            if self.peek().k == "life": self.err("labelled break is outside the subset")
            if self.peek().s not in (";", "}", ","): self.err("break with a value is outside the subset")
            return ("break",)
        if x.s == "continue":
            self.next()
            if self.peek().k == "life": self.err("labelled continue is outside the subset")
            return ("continue",)
        if x.s in ("unsafe", "async", "move", "let"):
            self.err("%r is outside the subset" % x.s)
        if x.s in ("true", "false"):
            self.next(); return ("bool", x.s == "true")
        # path, macro, struct literal
        segs = [self.ident()]
        while self.peek().s == "::":
            self.next()
            if self.peek().s == "<":
                self.next(); self.type_(); self.close_angle(); continue
            segs.append(self.ident())
        if self.peek().s == "!" and self.peek().k == "p" and self.peek(1).s in ("(", "[", "{") and len(segs) == 1:
            self.next()
            start = self.i
            self.skip_group()
            return ("macro", segs[0], self.t[start + 1:self.i - 1], x.line)
        if self.peek().s == "{" and not nostruct and segs[-1][0].isupper():
            self.next()
            fields, base = [], None
            while not self.accept("}"):
                if self.accept(".."):
                    base = self.expr(); self.expect("}"); break
                fn = self.ident()
                if self.accept(":"):
                    fe = self.expr()
                else:
                    fe = ("path", [fn])
                fields.append((fn, fe))
                if not self.accept(","):
                    self.expect("}"); break
            return ("struct", segs, fields, base)
        return ("path", segs)


def parse_int(s):
    suf = None
    for x in INT_SUFFIXES:
        if s.endswith(x) and not s.startswith("0x"):
            suf = x; s = s[:-len(x)]; break
        if s.startswith("0x") and s.endswith(x) and x[0] in "ui" and not re.fullmatch(r"0x[0-9a-fA-F_]+", s):
            suf = x; s = s[:-len(x)]; break
    s = s.replace("_", "")
    return (int(s, 16) if s.startswith("0x") else int(s)), suf


def split_macro_args(toks, rel="?"):
    """top-level comma-separated expressions of a macro invocation"""
    out, cur, d = [], [], 0
    for x in toks:
        if x.k != "str":
            if x.s in ("(", "[", "{"): d += 1
            elif x.s in (")", "]", "}"): d -= 1
        if d == 0 and x.s == "," and x.k == "p":
            out.append(cur); cur = []
        else:
            cur.append(x)
    if cur: out.append(cur)
    res = []
    for c in out:
        p = Parser(c + [Tok("eof", "", c[-1].line)], 0, rel)
        e = p.expr()
        if p.peek().k != "eof":
            p.err("trailing tokens in macro argument")
        res.append(e)
    return res
