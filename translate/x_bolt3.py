"""C04: the script templates, the order in which `handle_output` tries them, and the decoder's constants and
guard shapes, read from the current source -> lean/VlsModel/Gen/Bolt3.lean.

Extracted
  * the six witness-script parsers of vls-core/src/tx/tx.rs (`parse_to_broadcaster_script`, `parse_received_htlc_script`,
    `parse_offered_htlc_script`, `parse_anchor_script`, `parse_to_countersigner_delayed_script`,
    `parse_revokeable_redeemscript`) as *token lists*: every statement of such a body must be one of
        let iter = &mut script.instructions();        (first statement)
        expect_op(iter, OP_X)?;                       -> Tok.op <byte of OP_X>
        let v = expect_data(iter)?;                   -> Tok.data      (captured)
        let v = expect_number(iter)?;                 -> Tok.num       (captured)
        if v != N { return Err(..); }                 -> turns the capture `v` into Tok.numIs N
        if is_anchors { expect_op(iter, OP_X)?; … }   -> Tok.opA <byte> …   (only with anchors)
        expect_script_end(iter)?;                     -> Tok.endS
        Ok((a, b, …)) | Ok(a)                         -> the order in which the captures are returned
    anything else fails the extraction of that template (its definition is not emitted, the theorems of
    Props/C04.lean that mention it no longer build: `bin/check C04` reports a broken obligation, the other
    properties are unaffected);
  * the helpers of vls-core/src/tx/script.rs (`expect_op`, `expect_data`, `expect_number`, `expect_script_end`): their
    bodies are compared, whitespace-free, with the text the model `Bolt3.runToks` was written against;
  * `CommitmentInfo::handle_output`: the p2wpkh / p2wsh / other dispatch, the two p2wsh pre-checks (empty witness
    script, script_pubkey == p2wsh(script)) and the order of the `if let Ok(vals) = parse_…` attempts with their
    `setup.is_anchors()` guards;
  * constants `MAX_DELAY`, `ANCHOR_SAT` (tx.rs), `MIN_DUST_LIMIT_SATOSHIS`, `MIN_CHAN_DUST_LIMIT_SATOSHIS`
    (transaction_utils.rs), the width of `HTLCInfo::payment_hash_hash`, and the guard shapes of the `handle_*_output`
    functions (`delay < 0`, `delay > MAX_DELAY`, `cltv_expiry < 0`, `out.value != ANCHOR_SAT`, singularity tests),
    `decode_commitment_tx`'s version test.
The opcode values are Bitcoin consensus constants (table below; rust-bitcoin's `opcodes::all`).
"""
import re
from rustsrc import read, strip_comments, body_after, const_value, int_expr, ExtractError

OPCODES = {
    "OP_PUSHNUM_NEG1": 0x4f, "OP_PUSHNUM_1": 0x51, "OP_PUSHNUM_2": 0x52, "OP_PUSHNUM_16": 0x60,
    "OP_IF": 0x63, "OP_NOTIF": 0x64, "OP_ELSE": 0x67, "OP_ENDIF": 0x68, "OP_DROP": 0x75, "OP_DUP": 0x76,
    "OP_IFDUP": 0x73, "OP_SWAP": 0x7c, "OP_SIZE": 0x82, "OP_EQUAL": 0x87, "OP_EQUALVERIFY": 0x88,
    "OP_HASH160": 0xa9, "OP_CHECKSIG": 0xac, "OP_CHECKSIGVERIFY": 0xad, "OP_CHECKMULTISIG": 0xae,
    "OP_CLTV": 0xb1, "OP_CSV": 0xb2,
}

# (Lean name, Rust function, takes `is_anchors`)
TEMPLATES = [
    ("tplToBroadcaster", "parse_to_broadcaster_script"),
    ("tplReceivedHtlc", "parse_received_htlc_script"),
    ("tplOfferedHtlc", "parse_offered_htlc_script"),
    ("tplAnchor", "parse_anchor_script"),
    ("tplToCountersignerDelayed", "parse_to_countersigner_delayed_script"),
    ("tplRevokeable", "parse_revokeable_redeemscript"),
]
# template ids used by `handleOrder`
TPL_ID = {"parse_to_broadcaster_script": 0, "parse_received_htlc_script": 1, "parse_offered_htlc_script": 2,
          "parse_anchor_script": 3, "parse_to_countersigner_delayed_script": 4}
HANDLER_OF = {"parse_to_broadcaster_script": "handle_to_broadcaster_output", "parse_received_htlc_script": "handle_received_htlc_output",
              "parse_offered_htlc_script": "handle_offered_htlc_output", "parse_anchor_script": "handle_anchor_output",
              "parse_to_countersigner_delayed_script": "handle_to_countersigner_delayed_output"}

# the helper bodies the model's interpreter (Model/Bolt3Parse.lean: expectOp / expectData / expectNumber / endS) mirrors
HELPERS = {
    "expect_next": "iter.next().ok_or(mismatch_error(\"unexpected end\".to_string()))?.map_err(|_|mismatch_error(\"unparseable opcode\".to_string()))",
    "expect_op": "letins=expect_next(iter)?;matchins{Instruction::Op(o)=>ifo==op{Ok(())}else{Err(mismatch_error(format!(\"expected op {}, saw {}\",op,o)))},_=>Err(mismatch_error(format!(\"expected op, saw {:?}\",ins))),}",
    "expect_number": "letins=expect_next(iter)?;matchins{blockdata::script::Instruction::Op(op)=>{letcls=op.classify(Legacy);matchcls{Class::PushNum(i)=>Ok(iasi64),_=>Err(mismatch_error(format!(\"expected PushNum, saw {:?}\",cls))),}}blockdata::script::Instruction::PushBytes(d)=>read_scriptint(d.as_bytes()).map_err(|err|mismatch_error(format!(\"read_scriptint failed: {:?}\",err))),}",
    "expect_script_end": "letins=iter.next();ifins==None{Ok(())}else{Err(mismatch_error(format!(\"expected script end, saw {:?}\",ins)))}",
    "expect_data": "letins=expect_next(iter)?;matchins{blockdata::script::Instruction::PushBytes(d)=>Ok(d.as_bytes().to_vec()),_=>Err(mismatch_error(format!(\"expected data, saw {:?}\",ins))),}",
}


def _nows(s):
    out, i, n = [], 0, len(s)
    while i < n:                                  # drop whitespace outside string literals
        if s[i] == '"':
            j = i + 1
            while j < n and s[j] != '"':
                j += 2 if s[j] == "\\" else 1
            out.append(s[i:j + 1]); i = j + 1
        elif s[i].isspace():
            i += 1
        else:
            out.append(s[i]); i += 1
    return "".join(out)


def _opcode(name, where):
    if name not in OPCODES:
        raise ExtractError(f"{where}: opcode {name} is not in the extractor's table")
    return OPCODES[name]


def parse_template(src, fn):
    """token list and return order of one `parse_*` function"""
    body = body_after(src, r"fn\s+" + fn + r"\s*\(")
    s = body.strip()
    m = re.match(r"let\s+iter\s*=\s*&mut\s+script\.instructions\(\)\s*;", s)
    if not m:
        raise ExtractError(f"{fn}: does not start with `let iter = &mut script.instructions();`")
    s = s[m.end():].lstrip()
    toks, caps = [], []          # caps: capture names in order; toks entries: ("op",b) ("opA",b) ("data",) ("num",) ("numIs",n) ("endS",)
    cap_tok = {}                 # capture name -> index into toks
    ret = None
    while s:
        m = re.match(r"expect_op\(\s*iter\s*,\s*(OP_\w+)\s*\)\?\s*;", s)
        if m:
            toks.append(("op", _opcode(m.group(1), fn))); s = s[m.end():].lstrip(); continue
        m = re.match(r"let\s+(\w+)\s*=\s*expect_(data|number)\(\s*iter\s*\)\?\s*;", s)
        if m:
            if m.group(1) in cap_tok:
                raise ExtractError(f"{fn}: capture {m.group(1)} bound twice")
            cap_tok[m.group(1)] = len(toks); caps.append(m.group(1))
            toks.append(("data",) if m.group(2) == "data" else ("num",)); s = s[m.end():].lstrip(); continue
        m = re.match(r"if\s+(\w+)\s*!=\s*(\d+)\s*\{\s*return\s+Err\(\s*mismatch_error\(\s*format!\([^;]*\)\s*\)\s*\)\s*;\s*\}", s)
        if m:
            name, val = m.group(1), int(m.group(2))
            if name not in cap_tok or toks[cap_tok[name]] != ("num",):
                raise ExtractError(f"{fn}: `if {name} != {val}` does not test a captured number")
            toks[cap_tok[name]] = ("numIs", val); caps.remove(name); s = s[m.end():].lstrip(); continue
        m = re.match(r"if\s+is_anchors\s*\{((?:\s*expect_op\(\s*iter\s*,\s*OP_\w+\s*\)\?\s*;)+)\s*\}", s)
        if m:
            for o in re.findall(r"expect_op\(\s*iter\s*,\s*(OP_\w+)\s*\)", m.group(1)):
                toks.append(("opA", _opcode(o, fn)))
            s = s[m.end():].lstrip(); continue
        m = re.match(r"expect_script_end\(\s*iter\s*\)\?\s*;", s)
        if m:
            toks.append(("endS",)); s = s[m.end():].lstrip(); continue
        m = re.match(r"Ok\(\s*(\(([\w\s,]+)\)|(\w+))\s*\)\s*$", s)
        if m:
            names = [x.strip() for x in (m.group(2) or m.group(3)).split(",") if x.strip()]
            ret = names; s = ""; continue
        raise ExtractError(f"{fn}: statement outside the template grammar: {s[:60]!r}")
    if ret is None:
        raise ExtractError(f"{fn}: no final Ok(..)")
    if toks[-1] != ("endS",) or toks.count(("endS",)) != 1:
        raise ExtractError(f"{fn}: expect_script_end is not the single last expectation")
    for r in ret:
        if r not in caps:
            raise ExtractError(f"{fn}: returns {r}, which is not a capture")
    if sorted(ret) != sorted(caps):
        raise ExtractError(f"{fn}: returned values {ret} are not exactly the captures {caps}")
    return toks, [caps.index(r) for r in ret], caps, ret


def lean_tok(t):
    if t[0] in ("op", "opA"): return ".%s 0x%02x" % t
    if t[0] == "numIs": return ".numIs %d" % t[1]
    return "." + t[0]


def handle_order(src):
    hb = body_after(src, r"fn\s+handle_output\s*\(")
    flat = _nows(hb)
    shape = {}
    # dispatch: p2wpkh / p2wsh / else
    m = re.match(r"ifout\.script_pubkey\.is_p2wpkh\(\)\{(.*)\}elseifout\.script_pubkey\.is_p2wsh\(\)\{(.*)\}else\{returnErr\(transaction_format_error\(\"unknown output type\"\.to_string\(\)\)\);\}Ok\(\(\)\)$", flat)
    if not m:
        raise ExtractError("handle_output: not the p2wpkh / p2wsh / else dispatch")
    wpkh, wsh = m.group(1), m.group(2)
    want_wpkh = ("ifsetup.is_anchors(){returnErr(transaction_format_error(\"p2wpkh to_countersigner not valid with anchors\".to_string(),));}"
                 "ifself.has_to_countersigner(){returnErr(transaction_format_error(\"more than one to_countersigner output\".to_string(),));}"
                 "letaddress=Address::from_script(&out.script_pubkey,Network::Bitcoin);self.to_countersigner_address=address.ok();"
                 "self.to_countersigner_value_sat=out.value.to_sat();")
    if wpkh != want_wpkh:
        raise ExtractError("handle_output: p2wpkh branch changed: " + wpkh[:120])
    pre = ("ifscript_bytes.is_empty(){returnErr(transaction_format_error(\"missing witscript for p2wsh\".to_string()));}"
           "letscript=ScriptBuf::from(script_bytes.to_vec());"
           "ifout.script_pubkey!=script.to_p2wsh(){returnErr(transaction_format_error(format!(\"script pubkey doesn't match inner script: {} != {}\",out.script_pubkey,script.to_p2wsh())));}")
    if not wsh.startswith(pre):
        raise ExtractError("handle_output: p2wsh pre-checks (empty witness script, spk == p2wsh(script)) changed")
    rest = wsh[len(pre):]
    order = []
    attempt = r"ifletOk\(vals\)=(?:self\.)?(parse_\w+)\(&script(,setup\.is_anchors\(\))?\)\{returnself\.(handle_\w+)\((keys,)?out,vals\);\}"
    while True:
        m = re.match(attempt, rest)
        if m:
            order.append((m.group(1), False, m.group(3))); rest = rest[m.end():]; continue
        m = re.match(r"ifsetup\.is_anchors\(\)\{" + attempt + r"\}", rest)
        if m:
            order.append((m.group(1), True, m.group(3))); rest = rest[m.end():]; continue
        break
    if rest != "returnErr(transaction_format_error(\"unknown p2wsh script\".to_string()));":
        raise ExtractError("handle_output: unexpected statement among the template attempts: " + rest[:100])
    for p, _, h in order:
        if p not in TPL_ID:
            raise ExtractError("handle_output: unknown parser " + p)
        if HANDLER_OF[p] != h:
            raise ExtractError(f"handle_output: {p} is followed by {h}, expected {HANDLER_OF[p]}")
    if len({p for p, _, _ in order}) != len(order):
        raise ExtractError("handle_output: a parser is tried twice")
    return order


def guards(tx, sv):
    """guard shapes of the handle_* functions (whitespace-free substrings that must be present exactly once)"""
    def need(fn, body, subs):
        b = _nows(body)
        for s in subs:
            if b.count(s) != 1:
                raise ExtractError(f"{fn}: expected exactly one `{s}`, found {b.count(s)}")
    b = body_after(tx, r"fn\s+handle_to_broadcaster_output\s*\(")
    need("handle_to_broadcaster_output", b, [
        "ifself.has_to_broadcaster(){returnErr(", "ifdelay<0{returnErr(", "ifdelay>MAX_DELAY{returnErr(",
        "self.to_self_delay=delayasu16;", "self.to_broadcaster_value_sat=out.value.to_sat();",
        "PublicKey::from_slice(delayed_pubkey.as_slice())", "PublicKey::from_slice(revocation_pubkey.as_slice())"])
    if _nows(b).count("returnErr(") != 3:
        raise ExtractError("handle_to_broadcaster_output: number of explicit refusals changed")
    b = body_after(tx, r"fn\s+handle_to_countersigner_delayed_output\s*\(")
    need("handle_to_countersigner_delayed_output", b, [
        "ifself.has_to_countersigner(){returnErr(", "PublicKey::from_slice(to_countersigner_delayed_pubkey_data.as_slice())",
        "self.to_countersigner_value_sat=out.value.to_sat();"])
    b = body_after(tx, r"fn\s+handle_received_htlc_output\s*\(")
    need("handle_received_htlc_output", b, [
        "payment_hash_vec.as_slice().try_into().map_err(", "ifcltv_expiry<0{returnErr(", "letcltv_expiry=cltv_expiryasu32;",
        "self.received_htlcs.push(htlc);"])
    b = body_after(tx, r"fn\s+handle_offered_htlc_output\s*\(")
    need("handle_offered_htlc_output", b, ["payment_hash_vec.as_slice().try_into().map_err(", "self.offered_htlcs.push(htlc);"])
    if "returnErr(" in _nows(b):
        raise ExtractError("handle_offered_htlc_output: has an explicit refusal the model does not know")
    b = body_after(tx, r"fn\s+handle_anchor_output\s*\(")
    need("handle_anchor_output", b, [
        "PublicKey::from_slice(to_pubkey_data.as_slice())", "ifout.value!=ANCHOR_SAT{returnErr(",
        "ifto_pubkey==to_broadcaster_funding_pubkey{self.to_broadcaster_anchor_count+=1;}elseifto_pubkey==to_countersigner_funding_pubkey{self.to_countersigner_anchor_count+=1;}else{returnErr("])
    b = body_after(tx, r"fn\s+has_to_broadcaster\s*\(")
    if _nows(b) != "self.to_broadcaster_delayed_pubkey.is_some()":
        raise ExtractError("has_to_broadcaster changed")
    b = body_after(tx, r"fn\s+has_to_countersigner\s*\(")
    if _nows(b) != "self.to_countersigner_address.is_some()||self.to_countersigner_pubkey.is_some()":
        raise ExtractError("has_to_countersigner changed")
    b = body_after(sv, r"fn\s+decode_commitment_tx\s*\(")
    need("decode_commitment_tx", b, [
        "iftx.version!=Version::TWO{policy_err!(self,\"policy-commitment-version\",",
        "forindin0..tx.output.len(){info.handle_output(keys,setup,&tx.output[ind],output_witscripts[ind].as_slice())"])
    m = re.search(r"pub\s+payment_hash_hash\s*:\s*\[\s*u8\s*;\s*(\d+)\s*\]", tx)
    if not m:
        raise ExtractError("HTLCInfo::payment_hash_hash is not a byte array")
    return int(m.group(1))


# ---- the decision skeletons of channel.rs (the code `Bolt3.phase1 / phase2 / canon / signCounterpartyHtlcTx` model by hand) ----
# exact bodies (whitespace-free) of the small conversion functions
EXACT = {
    "make_counterparty_commitment_tx": "letkeys=self.make_counterparty_tx_keys(remote_per_commitment_point);self.make_counterparty_commitment_tx_with_keys(keys,commitment_number,feerate_per_kw,to_holder_value_sat,to_counterparty_value_sat,htlcs,)",
    "make_counterparty_commitment_tx_with_keys": "letmuthtlcs_with_aux=htlcs.iter().map(|h|(h.clone(),())).collect();letchannel_parameters=self.make_channel_parameters();letparameters=channel_parameters.as_counterparty_broadcastable();letcommitment_tx=CommitmentTransaction::new_with_auxiliary_htlc_data(INITIAL_COMMITMENT_NUMBER-commitment_number,to_counterparty_value_sat,to_holder_value_sat,self.counterparty_pubkeys().funding_pubkey,self.keys.pubkeys().funding_pubkey,keys,feerate_per_kw,&muthtlcs_with_aux,&parameters,);commitment_tx",
    "make_channel_parameters": "letfunding_outpoint=chain::transaction::OutPoint{txid:self.setup.funding_outpoint.txid,index:self.setup.funding_outpoint.voutasu16,};letchannel_parameters=ChannelTransactionParameters{holder_pubkeys:self.get_channel_basepoints(),holder_selected_contest_delay:self.setup.holder_selected_contest_delay,is_outbound_from_holder:self.setup.is_outbound,counterparty_parameters:Some(CounterpartyChannelTransactionParameters{pubkeys:self.setup.counterparty_points.clone(),selected_contest_delay:self.setup.counterparty_selected_contest_delay,}),funding_outpoint:Some(funding_outpoint),channel_type_features:self.setup.features(),};channel_parameters",
    "htlcs_info2_to_oic": "letmuthtlcs=Vec::new();forhtlcinoffered_htlcs{htlcs.push(HTLCOutputInCommitment{offered:true,amount_msat:htlc.value_sat*1000,cltv_expiry:htlc.cltv_expiry,payment_hash:htlc.payment_hash,transaction_output_index:None,});}forhtlcinreceived_htlcs{htlcs.push(HTLCOutputInCommitment{offered:false,amount_msat:htlc.value_sat*1000,cltv_expiry:htlc.cltv_expiry,payment_hash:htlc.payment_hash,transaction_output_index:None,});}htlcs",
    "build_counterparty_commitment_info": "Ok(CommitmentInfo2::new(true,to_holder_value_sat,to_counterparty_value_sat,offered_htlcs,received_htlcs,feerate_per_kw,))",
    "features": "letmutfeatures=ChannelTypeFeatures::empty();features.set_static_remote_key_required();ifself.is_anchors(){ifself.is_zero_fee_htlc(){features.set_anchors_zero_fee_htlc_tx_optional();}else{features.set_anchors_nonzero_fee_htlc_tx_optional();}}features",
    "sign_counterparty_htlc_tx": "lettxkeys=self.make_counterparty_tx_keys(&remote_per_commitment_point);self.sign_htlc_tx(tx,remote_per_commitment_point,redeemscript,htlc_amount_sat,output_witscript,true,txkeys,)",
    "make_counterparty_tx_keys": "letholder_points=self.keys.pubkeys();letcounterparty_points=self.counterparty_pubkeys();self.make_tx_keys(per_commitment_point,counterparty_points,holder_points)",
    "make_tx_keys": "TxCreationKeys::derive_new(&self.secp_ctx,&per_commitment_point,&a_points.delayed_payment_basepoint,&a_points.htlc_basepoint,&b_points.revocation_basepoint,&b_points.htlc_basepoint,)",
}
# fragments that must occur exactly once each and in this order
ORDERED = {
    "sign_counterparty_commitment_tx": [
        "iftx.output.len()!=output_witscripts.len(){returnErr(invalid_argument(",
        "validator.validate_channel_value(&self.setup)?;",
        "letis_counterparty=true;",
        "letinfo=validator.decode_commitment_tx(&self.keys,&self.setup,is_counterparty,tx,output_witscripts,)?;",
        "letinfo2=self.build_counterparty_commitment_info(info.to_countersigner_value_sat,info.to_broadcaster_value_sat,offered_htlcs,received_htlcs,feerate_per_kw,)?;",
        "self.enforcement_state.claimable_balances(&*state,None,Some(&info2),&self.setup);",
        "validator.validate_counterparty_commitment_tx(&self.enforcement_state,commitment_number,&remote_per_commitment_point,&self.setup,&self.get_chain_state(),&info2,)",
        "lethtlcs=Self::htlcs_info2_to_oic(&info2.offered_htlcs,&info2.received_htlcs);",
        "letrecomposed_tx=self.make_counterparty_commitment_tx(remote_per_commitment_point,commitment_number,feerate_per_kw,info2.to_countersigner_value_sat,info2.to_broadcaster_value_sat,htlcs,);",
        "ifrecomposed_tx.trust().built_transaction().transaction!=*tx{",
        "policy_err!(validator,\"policy-commitment\",\"recomposed tx mismatch\");}",
        "letcommit_num=INITIAL_COMMITMENT_NUMBER-recomposed_tx.trust().commitment_number();",
        "letpoint=recomposed_tx.trust().keys().per_commitment_point;",
        "lettrusted_tx=recomposed_tx.trust();",
        "letfunding_pubkey=&self.keys.pubkeys().funding_pubkey;letcounterparty_funding_pubkey=&self.setup.counterparty_points.funding_pubkey;letchannel_funding_redeemscript=make_funding_redeemscript(funding_pubkey,counterparty_funding_pubkey);",
        "letbuilt_tx=trusted_tx.built_transaction();",
        "built_tx.sign_counterparty_commitment(&self.keys.funding_key,&channel_funding_redeemscript,self.setup.channel_value_sat,&self.secp_ctx,)",
        "state.validate_payments(&self.id0,&incoming_payment_summary,&outgoing_payment_summary,&delta,validator.clone(),)?;",
        "validator.set_next_counterparty_commit_num(&mutself.enforcement_state,commit_num+1,point,info2.clone(),)?;",
        "self.persist()?;Ok(sig)",
    ],
    "sign_counterparty_commitment_tx_phase2": [
        "validator.validate_channel_value(&self.setup)?;",
        "letinfo2=self.build_counterparty_commitment_info(to_holder_value_sat,to_counterparty_value_sat,offered_htlcs.clone(),received_htlcs.clone(),feerate_per_kw,)?;",
        "self.enforcement_state.claimable_balances(&*state,None,Some(&info2),&self.setup);",
        "validator.validate_counterparty_commitment_tx(&self.enforcement_state,commitment_number,&remote_per_commitment_point,&self.setup,&self.get_chain_state(),&info2,)?;",
        "lethtlcs=Self::htlcs_info2_to_oic(&offered_htlcs,&received_htlcs);",
        "letcommitment_tx=self.make_counterparty_commitment_tx(remote_per_commitment_point,commitment_number,feerate_per_kw,to_holder_value_sat,to_counterparty_value_sat,htlcs,);",
        "self.keys.sign_counterparty_commitment(&commitment_tx,Vec::new(),Vec::new(),&self.secp_ctx)",
        ".map_err(|_|internal_error(\"failed to sign\"))?;",
        "state.validate_payments(&self.id0,&incoming_payment_summary,&outgoing_payment_summary,&delta,validator.clone(),)?;",
        "validator.set_next_counterparty_commit_num(&mutself.enforcement_state,commitment_number+1,*remote_per_commitment_point,info2.clone(),)?;",
        "self.persist()?;Ok((sig,htlc_sigs))",
    ],
    "sign_htlc_tx": [
        "let(feerate_per_kw,htlc,recomposed_tx_sighash,sighash_type)=self.validator().decode_and_validate_htlc_tx(is_counterparty,&self.setup,&txkeys,tx,&redeemscript,htlc_amount_sat,output_witscript,)?;",
        ".validate_htlc_tx(&self.setup,&self.get_chain_state(),is_counterparty,&htlc,feerate_per_kw,)",
        "lethtlc_privkey=derive_private_key(&self.secp_ctx,&per_commitment_point,&self.keys.htlc_base_key);",
        "lethtlc_sighash=Message::from_digest(recomposed_tx_sighash.to_byte_array());",
        "Ok(TypedSignature{sig:self.secp_ctx.sign_ecdsa(&htlc_sighash,&htlc_privkey),typ:sighash_type,})",
    ],
}
# the same for vls-core/src/policy/simple_validator.rs (the decoder behind the raw second-stage entry point, `Bolt3.htlcRaw`)
ORDERED_SV = {
    "decode_and_validate_htlc_tx": [
        "letto_self_delay=ifis_counterparty{setup.holder_selected_contest_delay}else{setup.counterparty_selected_contest_delay};",
        "letsighash_type=ifsetup.is_anchors(){EcdsaSighashType::SinglePlusAnyoneCanPay}else{EcdsaSighashType::All};",
        "letoriginal_tx_sighash=SighashCache::new(tx).p2wsh_signature_hash(0,&redeemscript,Amount::from_sat(htlc_amount_sat),sighash_type)",
        "letoffered=ifparse_offered_htlc_script(redeemscript,setup.is_anchors()).is_ok(){true}elseifparse_received_htlc_script(redeemscript,setup.is_anchors()).is_ok(){false}else{",
        "returnErr(policy_error(\"policy-commitment-scripts\",\"invalid redeemscript\"));};",
        "letcltv_expiry=ifoffered{tx.lock_time.to_consensus_u32()}else{0};",
        "lettransaction_output_index=tx.input[0].previous_output.vout;letcommitment_txid=tx.input[0].previous_output.txid;",
        "lettotal_fee=htlc_amount_sat.checked_sub(tx.output[0].value.to_sat()).ok_or_else(||policy_error(\"policy-commitment-fee-range\",\"fee underflow\"))?;",
        "letbuild_feerate=ifsetup.is_zero_fee_htlc(){0}else{letweight=ifoffered{htlc_timeout_tx_weight(&features)}else{htlc_success_tx_weight(&features)};estimate_feerate_per_kw(total_fee,weight)};",
        "lethtlc=HTLCOutputInCommitment{offered,amount_msat:htlc_amount_sat*1000,cltv_expiry,payment_hash:PaymentHash([0;32]),transaction_output_index:Some(transaction_output_index),};",
        "letrecomposed_tx=build_htlc_transaction(&commitment_txid,build_feerate,to_self_delay,&htlc,&setup.features(),&txkeys.broadcaster_delayed_payment_key,&txkeys.revocation_key,);",
        "letrecomposed_tx_sighash=SighashCache::new(&recomposed_tx).p2wsh_signature_hash(0,&redeemscript,Amount::from_sat(htlc_amount_sat),sighash_type).unwrap();",
        "ifrecomposed_tx_sighash!=original_tx_sighash{",
        "returnErr(policy_error(\"policy-htlc-other\",\"sighash mismatch\".to_string()));}",
        "Ok((build_feerate,htlc,recomposed_tx_sighash,sighash_type))",
    ],
}
ORD_FIELDS = {"value_sat": 0, "payment_hash": 1, "cltv_expiry": 2}


def _ordered(src, table, where):
    for fn, frags in table.items():
        b = _nows(body_after(src, r"fn\s+" + fn + r"\s*\("))
        pos = 0
        for f in frags:
            if b.count(f) != 1:
                raise ExtractError(f"{fn} ({where}): expected exactly one `{f[:70]}`, found {b.count(f)}")
            i = b.find(f)
            if i < pos:
                raise ExtractError(f"{fn} ({where}): `{f[:70]}` is out of order")
            pos = i + len(f)


def skeletons(ch, tx, sv):
    _ordered(sv, ORDERED_SV, "simple_validator.rs")
    for fn, want in EXACT.items():
        got = _nows(body_after(ch, r"fn\s+" + fn + r"\s*\("))
        if got != want:
            raise ExtractError(f"{fn} (channel.rs) is not the body the model was written against: {got[:160]}")
    for fn, frags in ORDERED.items():
        b = _nows(body_after(ch, r"fn\s+" + fn + r"\s*\("))
        pos = 0
        for f in frags:
            if b.count(f) != 1:
                raise ExtractError(f"{fn}: expected exactly one `{f[:70]}`, found {b.count(f)}")
            i = b.find(f)
            if i < pos:
                raise ExtractError(f"{fn}: `{f[:70]}` is out of order")
            pos = i + len(f)
    impl = body_after(tx, r"impl\s+CommitmentInfo2\s*")
    got = _nows(body_after(impl, r"fn\s+new\s*\("))
    want = ("offered_htlcs.sort();received_htlcs.sort();CommitmentInfo2{is_counterparty_broadcaster,to_countersigner_value_sat,"
            "to_broadcaster_value_sat,offered_htlcs,received_htlcs,feerate_per_kw,}")
    if got != want:
        raise ExtractError("CommitmentInfo2::new is not sort + literal: " + got[:160])
    # impl Ord for HTLCInfo2: the lexicographic field order
    ob = _nows(body_after(body_after(tx, r"impl\s+Ord\s+for\s+HTLCInfo2\s*"), r"fn\s+cmp\s*\("))
    parts = ob.split(".then_with(||")
    order = []
    for i, p in enumerate(parts):
        p = p[:-1] if i > 0 and p.endswith(")") else p
        m = re.fullmatch(r"self\.(\w+)(\.0)?\.cmp\(&other\.(\w+)(\.0)?\)", p)
        if not m or m.group(1) != m.group(3) or m.group(2) != m.group(4) or m.group(1) not in ORD_FIELDS:
            raise ExtractError("impl Ord for HTLCInfo2: unexpected comparison " + p)
        order.append(ORD_FIELDS[m.group(1)])
    if sorted(order) != [0, 1, 2]:
        raise ExtractError("impl Ord for HTLCInfo2: does not compare value_sat, payment_hash, cltv_expiry exactly once each")
    pb = _nows(body_after(body_after(tx, r"impl\s+PartialOrd\s+for\s+HTLCInfo2\s*"), r"fn\s+partial_cmp\s*\("))
    if pb != "Some(self.cmp(other))":
        raise ExtractError("impl PartialOrd for HTLCInfo2 is not Some(self.cmp(other))")
    return order


def persistence(repo):
    """the conversion between a channel and its persisted entry (`Bolt3.persistChannel / restoreChannel`)"""
    kv = _nows(strip_comments(read(repo, "vls-persist/src/kvv.rs")))
    pm = _nows(strip_comments(read(repo, "vls-persist/src/model.rs")))
    nd = _nows(strip_comments(read(repo, "vls-core/src/node.rs")))
    cm = _nows(strip_comments(read(repo, "vls-core/src/persist/model.rs")))
    need = [
        (kv, "vls-persist/src/kvv.rs update_channel",
         "letchannel_value_satoshis=channel.setup.channel_value_sat;letentry=ChannelEntry{channel_value_satoshis,channel_setup:Some(channel.setup.clone()),"
         "id:channel.id.clone(),enforcement_state:channel.enforcement_state.clone(),blockheight:None,};letvalue=F::ser_value(&entry)?;self.put(&key,value)"),
        (pm, "vls-persist/src/model.rs From<ChannelEntry>",
         "CoreChannelEntry{channel_value_satoshis:e.channel_value_satoshis,channel_setup:e.channel_setup,id:e.id,enforcement_state:e.enforcement_state,blockheight:e.blockheight,}"),
        (cm, "vls-core/src/persist/model.rs ChannelEntry", "pubchannel_value_satoshis:u64,"),
        (cm, "vls-core/src/persist/model.rs ChannelEntry", "pubchannel_setup:Option<ChannelSetup>,"),
        (nd, "node.rs restore: keys from the stored channel value",
         "letmutkeys=node.keys_manager.get_channel_keys_with_id(channel_id0.clone(),channel_entry.channel_value_satoshis,);"),
        (nd, "node.rs restore: setup from the entry", "letsetup_opt=channel_entry.channel_setup;matchsetup_opt{"),
    ]
    for src, where, frag in need:
        if src.count(frag) != 1:
            raise ExtractError(f"{where}: expected exactly one `{frag[:80]}`, found {src.count(frag)}")
    return True


def extract(repo):
    tx = strip_comments(read(repo, "vls-core/src/tx/tx.rs"))
    sc = strip_comments(read(repo, "vls-core/src/tx/script.rs"))
    tu = strip_comments(read(repo, "vls-core/src/util/transaction_utils.rs"))
    sv = strip_comments(read(repo, "vls-core/src/policy/simple_validator.rs"))
    ch = strip_comments(read(repo, "vls-core/src/channel.rs"))
    problems = []
    facts = {}
    L = ["namespace VlsModel.Gen.Bolt3", "",
         "/-- one expectation of a `parse_*` function of tx.rs: `expect_op` (always / only with anchors), `expect_data`,",
         "    `expect_number` (captured, or compared with a literal), `expect_script_end` -/",
         "inductive Tok where",
         "  | op (code : Nat) | opA (code : Nat) | data | num | numIs (n : Int) | endS",
         "deriving Repr, DecidableEq", "",
         "/-- a template: the expectations in source order, and for each component of the returned tuple the index of the",
         "    capture (`data` / `num`, in source order) it holds -/",
         "structure Tpl where",
         "  toks : List Tok",
         "  ret : List Nat",
         "deriving Repr, DecidableEq", ""]

    def guarded(what, f):
        try:
            return f()
        except ExtractError as e:
            problems.append(f"{what}: {e}")
            L.append(f"-- NOT EXTRACTED (fail closed): {what}: {e}".replace("\n", " "))
            L.append("")
            return None

    # helper bodies
    def helpers():
        for fn, want in HELPERS.items():
            got = _nows(body_after(sc, r"fn\s+" + fn + r"\s*(<[^>]*>)?\s*\("))
            if got != want:
                raise ExtractError(f"{fn} (script.rs) is not the body the model's interpreter mirrors: {got[:200]}")
        return True
    if guarded("script.rs helpers", helpers):
        L += ["/-- `expect_next/op/number/script_end/data` of script.rs have the bodies `Bolt3.runToks` mirrors (compared textually) -/",
              "def helpersAsModelled : Bool := true", ""]

    tfacts = {}
    for lean_name, fn in TEMPLATES:
        r = guarded(fn, lambda fn=fn: parse_template(tx, fn))
        if r is None:
            continue
        toks, ret, caps, names = r
        L.append(f"/-- `{fn}` (vls-core/src/tx/tx.rs): captures {', '.join(caps)}; returns ({', '.join(names)}) -/")
        L.append(f"def {lean_name} : Tpl :=")
        L.append("  { toks := [" + ", ".join(lean_tok(t) for t in toks) + "],")
        L.append("    ret := [" + ", ".join(str(i) for i in ret) + "] }")
        L.append("")
        tfacts[fn] = {"tokens": len(toks), "returns": names}
    facts["script_templates"] = tfacts

    order = guarded("handle_output", lambda: handle_order(tx))
    if order is not None:
        L.append("/-- `handle_output`, p2wsh branch: template ids (0 to_broadcaster, 1 received HTLC, 2 offered HTLC, 3 anchor,")
        L.append("    4 to_countersigner delayed) in the order they are tried, with `true` = only when `setup.is_anchors()`; the")
        L.append("    p2wpkh branch (refused with anchors, singular) and the two p2wsh pre-checks were compared textually -/")
        L.append("def handleOrder : List (Nat × Bool) := [" + ", ".join("(%d, %s)" % (TPL_ID[p], "true" if a else "false") for p, a, _ in order) + "]")
        L.append("")
        facts["handle_output_order"] = [p + (" (anchors only)" if a else "") for p, a, _ in order]

    def consts():
        md = int_expr(const_value(tx, "MAX_DELAY"))
        m = re.search(r"const\s+ANCHOR_SAT\s*:\s*Amount\s*=\s*Amount::from_sat\(\s*([\d_]+)\s*\)\s*;", tx)
        if not m:
            raise ExtractError("ANCHOR_SAT is not Amount::from_sat(<literal>)")
        anchor = int(m.group(1).replace("_", ""))
        m = re.search(r"const\s+ANCHOR_OUTPUT_VALUE_SATOSHI\s*:\s*Amount\s*=\s*Amount::from_sat\(\s*([\d_]+)\s*\)\s*;", sc)
        if not m or int(m.group(1).replace("_", "")) != anchor:
            raise ExtractError("ANCHOR_OUTPUT_VALUE_SATOSHI (script.rs) differs from ANCHOR_SAT (tx.rs)")
        dust = int_expr(const_value(tu, "MIN_DUST_LIMIT_SATOSHIS"))
        cdust = int_expr(const_value(tu, "MIN_CHAN_DUST_LIMIT_SATOSHIS"))
        hlen = guards(tx, sv)
        return md, anchor, dust, cdust, hlen
    c = guarded("constants and guard shapes", consts)
    if c is not None:
        md, anchor, dust, cdust, hlen = c
        L += [f"def maxDelay : Int := {md}", f"def anchorSat : Nat := {anchor}", f"def minDustLimitSat : Nat := {dust}",
              f"def minChanDustLimitSat : Nat := {cdust}",
              "/-- width of `HTLCInfo::payment_hash_hash` (`try_into` of the pushed hash must succeed) -/",
              f"def paymentHashHashLen : Nat := {hlen}",
              "/-- `handle_to_broadcaster_output` refuses `delay < 0` and `delay > MAX_DELAY`, `handle_received_htlc_output` refuses",
              "    `cltv_expiry < 0`, `handle_anchor_output` refuses `out.value != ANCHOR_SAT` and keys other than the two funding keys,",
              "    to_local / to_remote are singular, `decode_commitment_tx` tests `version != 2` first (compared textually) -/",
              "def guardsAsModelled : Bool := true", ""]
        facts.update({"MAX_DELAY": md, "ANCHOR_SAT": anchor, "MIN_DUST_LIMIT_SATOSHIS": dust, "MIN_CHAN_DUST_LIMIT_SATOSHIS": cdust,
                      "payment_hash_hash_len": hlen})
    order2 = guarded("decision skeletons of channel.rs", lambda: skeletons(ch, tx, sv))
    if order2 is not None:
        L += ["/-- `sign_counterparty_commitment_tx`, `…_phase2`, `sign_htlc_tx` contain the calls `Bolt3.phase1 / phase2 / htlcRaw` model, once",
              "    each and in this order (length test, validate_channel_value, decode, CommitmentInfo2 from decoded balances + request HTLCs,",
              "    claimable_balances, validate_counterparty_commitment_tx, recompose from info2, `recomposed != *tx => policy-commitment`,",
              "    sign the recomposed tx with `setup.channel_value_sat`, validate_payments, set_next_counterparty_commit_num; phase 2:",
              "    recompose from the arguments, LDK signs commitment + HTLCs; HTLC tx: key derived from the point of the request;",
              "    `decode_and_validate_htlc_tx` of simple_validator.rs: sighash of the supplied tx, side from the redeem script, cltv / outpoint /",
              "    fee read off the tx, feerate estimate, recomposition, unconditional `policy-htlc-other` on a sighash mismatch, the *recomposed*",
              "    sighash returned); the",
              "    conversions `make_counterparty_commitment_tx(_with_keys)`, `make_channel_parameters` (which delay goes where, `vout as u16`),",
              "    `htlcs_info2_to_oic`, `build_counterparty_commitment_info`, `CommitmentInfo2::new`, `features()`, `sign_counterparty_htlc_tx`",
              "    have exactly the bodies the model was written against (compared textually, fail closed) -/",
              "def decisionSkeletonsAsModelled : Bool := true",
              "/-- `impl Ord for HTLCInfo2`: the fields compared, in order (0 value_sat, 1 payment_hash, 2 cltv_expiry) -/",
              "def htlcInfo2Order : List Nat := [" + ", ".join(str(i) for i in order2) + "]", ""]
        facts["HTLCInfo2_ord"] = order2
    if guarded("persist / restore of a channel", lambda: persistence(repo)):
        L += ["/-- `KVVPersister::update_channel` stores `channel_value_satoshis = setup.channel_value_sat` next to the whole `ChannelSetup`,",
              "    `From<ChannelEntry>` copies both, `Node::new_from_persistence` derives the channel keys with the stored",
              "    `channel_value_satoshis` and takes the setup from the entry: `Bolt3.persistChannel / restoreChannel` (compared textually) -/",
              "def persistRestoreAsModelled : Bool := true", ""]
    L.append("end VlsModel.Gen.Bolt3")
    obl = ["Gen.Bolt3: every canonical witness script of the model is parsed by the template the code tries first and by no earlier one "
           "(theorems C04_gen_parse_*, C04_gen_classify), model constants equal the source's (C04_gen_consts)"]
    obl += ["Gen.Bolt3: NOT EXTRACTED (the theorems that mention it break): " + p for p in problems]
    return {"Bolt3.lean": "\n".join(L) + "\n"}, {"C04": {"facts": {"bolt3_gen": facts}, "obligations": obl}}
