"""C18: which inputs the key-derivation code actually reads (parameter-use table).

Sources: vls-core/src/signer/derive.rs (trait KeyDerive: default keys_id / channels_seed, and the
channel_keys / keys_id bodies of the Native, Ldk and Lnd implementations),
vls-core/src/signer/my_keys_manager.rs (the counters MyKeysManager has, what get_channel_keys_with_id
and get_channel_keys_with_keys_id hand to the derivation and to InMemorySigner::new),
vls-core/src/channel.rs (ChannelStub::channel_keys_with_channel_value: setup copies the stub's keys),
vls-core/src/node.rs (creation derives from the channel id, restore derives from the persisted id0).

Fail-closed: every shape that is not exactly the expected one raises ExtractError.  Facts that may
legitimately differ between styles (which parameters channel_keys reads) are emitted as a table; the
theorems of Props/C18.lean have the table rows as (decidable) hypotheses.
"""
import re
from rustsrc import read, strip_comments, body_after, ExtractError

STYLES = ("Native", "Ldk", "Lnd")
CK_PARAMS = ("seed", "keys_id", "basepoint_index", "master_key", "secp_ctx")
# tokens that would mean a derivation body reads something that is not one of its parameters
AMBIENT = (r"\bstatic\b", r"\bAtomic\w*\b", r"\bfetch_add\b", r"\bthread_local\b", r"\bSystemTime\b",
           r"\bInstant\b", r"\brand\w*::", r"\bOsRng\b", r"\bunsafe\b", r"\benv::", r"\blazy_static\b",
           r"\bOnceCell\b", r"\bOnceLock\b", r"\bMutex\b", r"\bRefCell\b", r"\bCell\b")


def uses(body, name):
    return re.search(r"(?<![\w.])_?" + re.escape(name) + r"\b", body) is not None


def impl_block(src, style):
    return body_after(src, r"impl\s+KeyDerive\s+for\s+" + style + r"KeyDerive\s*\{")


def fn_sig_and_body(block, name):
    m = re.search(r"fn\s+" + name + r"\s*\(([^)]*)\)", block)
    if not m:
        return None, None
    params = [p.strip() for p in m.group(1).split(",") if p.strip()]
    names = []
    for p in params:
        if p in ("&self", "self", "&mut self"):
            names.append("self")
        else:
            names.append(p.split(":")[0].strip())
    # a trait method without default body ends with ';' (outside any bracket of the return type)
    # before any '{'
    depth, i = 0, m.end()
    while i < len(block):
        c = block[i]
        if c in "[(":
            depth += 1
        elif c in "])":
            depth -= 1
        elif c == ";" and depth == 0:
            return names, None
        elif c == "{" and depth == 0:
            break
        i += 1
    else:
        return names, None
    return names, body_after(block[i:], r"\{")


def check_ambient(what, body):
    for pat in AMBIENT:
        if re.search(pat, body):
            raise ExtractError(f"{what}: body reads ambient state ({pat})")


def self_fields(body):
    return sorted(set(re.findall(r"\bself\s*\.\s*(\w+)", body)))


def str_bytes(s):
    return "[" + ", ".join(str(b) for b in s.encode()) + "]"


def args_of_call(body, callee_regex):
    """top-level comma separated arguments of the first call matching callee_regex (ending in '(')"""
    m = re.search(callee_regex, body)
    if not m:
        raise ExtractError("call not found: " + callee_regex)
    i = m.end()
    depth, cur, out = 1, "", []
    while i < len(body) and depth > 0:
        c = body[i]
        if c in "([{":
            depth += 1
        elif c in ")]}":
            depth -= 1
            if depth == 0:
                break
        if c == "," and depth == 1:
            out.append(cur.strip()); cur = ""
        else:
            cur += c
        i += 1
    if cur.strip():
        out.append(cur.strip())
    return [re.sub(r"\s+", " ", a) for a in out]


def keys_id_use(what, names, body):
    """use row of a keys_id body + the HKDF info string + the byte masks applied to the result"""
    if names != ["self", "channel_id", "channel_seed_base"]:
        raise ExtractError(f"{what}: unexpected parameters {names}")
    check_ambient(what, body)
    a = args_of_call(body, r"\bhkdf_sha256\s*\(")
    if len(a) != 3 or a[0] != "channel_seed_base" or a[2] != "channel_id.as_slice()":
        raise ExtractError(f"{what}: unexpected hkdf_sha256 arguments {a}")
    m = re.fullmatch(r'"([^"\\]*)"\.as_bytes\(\)', a[1])
    if not m:
        raise ExtractError(f"{what}: unexpected hkdf info expression {a[1]}")
    if len(re.findall(r"\bhkdf_sha256\s*\(", body)) != 1:
        raise ExtractError(f"{what}: more than one hkdf call")
    masks = []
    rest = body
    # statements other than the hkdf call: only `res[i] = 0;` / `res[i] &= 0x..;` and the final `res`
    stmts = [re.sub(r"\s+", " ", s.strip()) for s in re.sub(r"\bhkdf_sha256\s*\((?:[^()]|\([^()]*\))*\)", "HKDF", rest).split(";")]
    for s in stmts:
        if s in ("", "res", "HKDF", "let mut res = HKDF", "let res = HKDF"):
            continue
        mm = re.fullmatch(r"res\[(\d+)\]\s*=\s*0", s)
        if mm:
            masks.append((int(mm.group(1)), 0)); continue
        mm = re.fullmatch(r"res\[(\d+)\]\s*&=\s*(0x[0-9a-fA-F]+|\d+)", s)
        if mm:
            masks.append((int(mm.group(1)), int(mm.group(2), 0))); continue
        raise ExtractError(f"{what}: unexpected statement `{s}`")
    row = {"channelId": uses(body, "channel_id"), "seedBase": uses(body, "channel_seed_base"),
           "selfState": bool(self_fields(body))}
    return row, m.group(1), masks


def extract(repo):
    derive = strip_comments(read(repo, "vls-core/src/signer/derive.rs"))
    # cut the unit tests off: they are not part of the derivation
    derive = derive.split("#[cfg(test)]")[0]
    km = strip_comments(read(repo, "vls-core/src/signer/my_keys_manager.rs")).split("#[cfg(test)]")[0]
    chan = strip_comments(read(repo, "vls-core/src/channel.rs"))
    node = strip_comments(read(repo, "vls-core/src/node.rs"))
    facts = {}

    # ---- trait defaults ---------------------------------------------------------------------
    trait = body_after(derive, r"pub\s+trait\s+KeyDerive\s*\{")
    names, body = fn_sig_and_body(trait, "keys_id")
    if body is None:
        raise ExtractError("trait KeyDerive: keys_id has no default body")
    default_kid, info_per_peer, default_masks = keys_id_use("KeyDerive::keys_id (default)", names, body)
    if default_masks:
        raise ExtractError("default keys_id masks its result")
    names, body = fn_sig_and_body(trait, "channels_seed")
    if names != ["self", "seed"] or body is None:
        raise ExtractError("trait KeyDerive: unexpected channels_seed")
    check_ambient("channels_seed", body)
    a = args_of_call(body, r"\bhkdf_sha256\s*\(")
    m = re.fullmatch(r'"([^"\\]*)"\.as_bytes\(\)', a[1]) if len(a) == 3 else None
    if not m or a[0] != "seed" or a[2] != "&[]" or self_fields(body):
        raise ExtractError(f"channels_seed: unexpected hkdf_sha256 arguments {a}")
    info_peer_seed = m.group(1)
    names, body = fn_sig_and_body(trait, "channel_keys")
    if names != ["self"] + list(CK_PARAMS) or body is not None:
        raise ExtractError(f"trait KeyDerive: unexpected channel_keys declaration {names}")

    # ---- per style --------------------------------------------------------------------------
    ck_rows, kid_rows, masks_of = {}, {}, {}
    native_info = None
    for st in STYLES:
        blk = impl_block(derive, st)
        if re.search(r"fn\s+channels_seed\s*\(", blk):
            raise ExtractError(f"{st}KeyDerive overrides channels_seed")
        names, body = fn_sig_and_body(blk, "channel_keys")
        if names is None or body is None:
            raise ExtractError(f"{st}KeyDerive: channel_keys not found")
        if [n.lstrip("_") for n in names] != ["self"] + list(CK_PARAMS):
            raise ExtractError(f"{st}KeyDerive::channel_keys: unexpected parameters {names}")
        check_ambient(f"{st}KeyDerive::channel_keys", body)
        sf = self_fields(body)
        if [f for f in sf if f != "network"]:
            raise ExtractError(f"{st}KeyDerive::channel_keys reads self fields {sf}")
        # a macro / helper defined in the body may only use the same parameters: the scan is textual
        # over the whole body, so it is covered.
        row = {p: uses(body, p) for p in CK_PARAMS}
        # `let secp_ctx = Secp256k1::new();` shadows the parameter: that is not a use of the parameter,
        # but secp_ctx carries no key material either way (context object), so it is reported only.
        row["selfNetwork"] = "network" in sf
        ck_rows[st] = row
        # an underscore-prefixed parameter that is nevertheless used would be caught by `uses`
        # (it matches `_?name`).  Cross-check the declaration: unused <=> underscore prefix, except
        # for secp_ctx which may be shadowed.
        for n in names[1:]:
            base = n.lstrip("_")
            if base != "secp_ctx" and n.startswith("_") == row[base]:
                raise ExtractError(f"{st}KeyDerive::channel_keys: parameter {n} prefix/use mismatch")
        knames, kbody = fn_sig_and_body(blk, "keys_id")
        if kbody is None:
            kid_rows[st], masks_of[st] = dict(default_kid), []
        else:
            r, info, masks = keys_id_use(f"{st}KeyDerive::keys_id", knames, kbody)
            if info != info_per_peer:
                raise ExtractError(f"{st}KeyDerive::keys_id: hkdf info differs from the default")
            kid_rows[st], masks_of[st] = r, masks
        if st == "Native":
            # byte layout of the 192-byte buffer
            a = args_of_call(body, r"\bhkdf_sha256_keys\s*\(")
            m = re.fullmatch(r"hkdf_info\.as_bytes\(\)", a[1]) if len(a) == 3 else None
            mi = re.search(r'let\s+hkdf_info\s*=\s*"([^"\\]*)"\s*;', body)
            if not m or not mi or a[0] != "keys_id" or a[2] != "&[]":
                raise ExtractError(f"Native channel_keys: unexpected hkdf_sha256_keys arguments {a}")
            native_info = mi.group(1)
            order = re.findall(r"let\s+(\w+)\s*=\s*(?:SecretKey::from_slice\(\s*&keys_buf\[ndx\.\.ndx \+ 32\]\s*\)\.unwrap\(\)|keys_buf\[ndx\.\.ndx \+ 32\]\.try_into\(\)\.unwrap\(\))\s*;", body)
            expect = ["funding_key", "revocation_base_key", "htlc_base_key", "payment_key",
                      "delayed_payment_base_key", "commitment_seed"]
            if order != expect or len(re.findall(r"ndx\s*\+=\s*32\s*;", body)) != 5:
                raise ExtractError(f"Native channel_keys: unexpected buffer layout {order}")
            ret = re.search(r"\(\s*((?:\w+\s*,\s*)+\w+\s*,?)\s*\)\s*$", body.strip())
            if not ret or [x.strip() for x in ret.group(1).split(",") if x.strip()] != expect:
                raise ExtractError("Native channel_keys: unexpected result tuple")

    # ---- key_derive dispatch ----------------------------------------------------------------
    kd = body_after(derive, r"pub\s+fn\s+key_derive\s*\(")
    arms = dict(re.findall(r"KeyDerivationStyle::(\w+)\s*=>\s*Box::new\(\s*(\w+)KeyDerive\s*\{", kd))
    if arms != {s: s for s in STYLES}:
        raise ExtractError(f"key_derive: unexpected dispatch {arms}")

    # ---- MyKeysManager ----------------------------------------------------------------------
    struct = body_after(km, r"pub\s+struct\s+MyKeysManager\s*\{")
    counters = re.findall(r"(\w+)\s*:\s*Atomic\w+", struct)
    interior = re.findall(r"(\w+)\s*:\s*(?:Mutex|RefCell|Cell|RwLock)\b", struct)
    if interior:
        raise ExtractError(f"MyKeysManager has further interior-mutable fields {interior}")
    if sorted(counters) != ["channel_id_child_index", "lnd_basepoint_index", "rand_bytes_child_index"]:
        raise ExtractError(f"MyKeysManager: unexpected counters {counters}")
    newb = body_after(km, r"pub\s+fn\s+new\s*\(\s*key_derivation_style")
    if not re.search(r"let\s+channel_seed_base\s*=\s*key_derive\.channels_seed\(\s*seed\s*\)\s*;", newb):
        raise ExtractError("MyKeysManager::new: channel_seed_base is not channels_seed(seed)")
    if not re.search(r"let\s+master_key\s*=\s*key_derive\.master_key\(\s*seed\s*\)\s*;", newb):
        raise ExtractError("MyKeysManager::new: master_key is not master_key(seed)")
    if not re.search(r"let\s+key_derive\s*=\s*derive::key_derive\(\s*key_derivation_style\s*,\s*network\s*\)\s*;", newb):
        raise ExtractError("MyKeysManager::new: unexpected key_derive construction")
    if len(re.findall(r"\bchannel_seed_base\b", km)) != 4 or re.search(r"self\.(seed|master_key|channel_seed_base)\s*=[^=]", km):
        # declared, computed, stored in the constructor, read in get_channel_keys_with_id
        raise ExtractError("MyKeysManager: channel_seed_base / seed / master_key used or assigned elsewhere")
    # get_channel_keys_with_id
    b1 = body_after(km, r"fn\s+get_channel_keys_with_id\s*\(")
    a = args_of_call(b1, r"key_derive\.keys_id\s*\(")
    if a != ["channel_id", "&self.channel_seed_base"]:
        raise ExtractError(f"get_channel_keys_with_id: keys_id arguments {a}")
    if sorted(self_fields(b1)) != ["channel_seed_base", "get_channel_keys_with_keys_id", "key_derivation_style", "network"]:
        raise ExtractError(f"get_channel_keys_with_id reads {self_fields(b1)}")
    a = args_of_call(b1, r"self\.get_channel_keys_with_keys_id\s*\(")
    if a != ["keys_id", "channel_value_sat"]:
        raise ExtractError(f"get_channel_keys_with_id: tail call arguments {a}")
    if not re.search(r"let\s+key_derive\s*=\s*derive::key_derive\(\s*self\.key_derivation_style\s*,\s*self\.network\s*\)\s*;", b1):
        raise ExtractError("get_channel_keys_with_id: unexpected key_derive construction")
    # get_channel_keys_with_keys_id
    b2 = body_after(km, r"fn\s+get_channel_keys_with_keys_id\s*\(")
    if not re.search(r"let\s+key_derive\s*=\s*derive::key_derive\(\s*self\.key_derivation_style\s*,\s*self\.network\s*\)\s*;", b2):
        raise ExtractError("get_channel_keys_with_keys_id: unexpected key_derive construction")
    a = args_of_call(b2, r"key_derive\.channel_keys\s*\(")
    if a != ["&self.seed", "&keys_id", "basepoint_index", "&self.master_key", "&secp_ctx"]:
        raise ExtractError(f"get_channel_keys_with_keys_id: channel_keys arguments {a}")
    mb = re.search(r"let\s+basepoint_index\s*=\s*self\.(\w+)\.fetch_add\(\s*1\s*,", b2)
    if not mb:
        raise ExtractError("get_channel_keys_with_keys_id: basepoint_index source not recognised")
    lhs = re.search(r"let\s*\(\s*((?:\w+\s*,\s*)+\w+\s*,?)\s*\)\s*=\s*key_derive\.channel_keys", b2)
    order6 = ["funding_key", "revocation_base_key", "htlc_base_key", "payment_key", "delayed_payment_base_key", "commitment_seed"]
    if not lhs or [x.strip() for x in lhs.group(1).split(",") if x.strip()] != order6:
        raise ExtractError("get_channel_keys_with_keys_id: unexpected destructuring of channel_keys")
    a = args_of_call(b2, r"InMemorySigner::new\s*\(")
    signer_args = ["&secp_ctx", "funding_key", "revocation_base_key", "payment_key", "delayed_payment_base_key",
                   "htlc_base_key", "commitment_seed", "channel_value_sat", "keys_id", "self.get_secure_random_bytes()"]
    if a != signer_args:
        raise ExtractError(f"get_channel_keys_with_keys_id: InMemorySigner::new arguments {a}")
    sf2 = sorted(self_fields(b2))
    if sf2 != sorted(["key_derivation_style", "network", mb.group(1), "seed", "master_key", "get_secure_random_bytes"]):
        raise ExtractError(f"get_channel_keys_with_keys_id reads {sf2}")
    # channel_value_sat reaches only the value slot of the signer
    value_reaches_keys = len(re.findall(r"\bchannel_value_sat\b", b2)) != 1 or len(re.findall(r"\bchannel_value_sat\b", b1)) != 1

    # ---- every place that (re-)derives a channel signer -------------------------------------
    # call sites (not definitions) of the three derivation entry points over the non-test sources of
    # vls-core: creation and restore go through the id, the sweep re-derives from the keys id that the
    # descriptor carries (the one the channel's signer recorded)
    import os
    def nontest_sources(root):
        out = {}
        base = os.path.join(repo.rstrip("/"), root)
        for d, _, fs in os.walk(base):
            for f in fs:
                if f.endswith(".rs") and not f.endswith("_tests.rs") and "test_utils" not in d and f != "test_utils.rs":
                    rel = os.path.relpath(os.path.join(d, f), repo.rstrip("/"))
                    out[rel] = re.split(r"#\[cfg\(test\)\]\s*mod\s+\w+\s*\{", strip_comments(open(os.path.join(d, f)).read()))[0]
        return out
    census = {}
    for rel, txt in sorted(nontest_sources("vls-core/src").items()) + sorted(nontest_sources("vls-protocol-signer/src").items()):
        for fn in ("get_channel_keys_with_id", "get_channel_keys_with_keys_id", "derive_channel_keys"):
            n = len(re.findall(r"(?<!fn )\b" + fn + r"\s*\(", txt))
            if n:
                census[f"{rel}:{fn}"] = n
    expected_census = {
        "vls-core/src/node.rs:get_channel_keys_with_id": 2,                              # create, restore
        "vls-core/src/signer/my_keys_manager.rs:get_channel_keys_with_keys_id": 2,       # from id, from keys id
        "vls-core/src/signer/my_keys_manager.rs:derive_channel_keys": 2,                 # the two descriptor kinds
    }
    b7 = body_after(km, r"fn\s+derive_channel_keys\s*\(")
    derive_is_from_keys_id = re.sub(r"\s+", " ", b7.strip()) == "self.get_channel_keys_with_keys_id(keys_id.clone(), channel_value_sat)"
    b8 = body_after(km, r"pub\s+fn\s+spend_spendable_outputs\s*\(")
    sweep_calls = [re.sub(r"\s+", " ", ",".join(args_of_call(b8[m.start():], r"self\.derive_channel_keys\s*\(")))
                   for m in re.finditer(r"self\.derive_channel_keys\s*\(", b8)]
    sweep_ok = (sweep_calls == ["descriptor.channel_value_satoshis,&descriptor.channel_keys_id"] * 2
                and len(re.findall(r"keys_cache\s*\.\s*insert\(\s*descriptor\.channel_keys_id\s*,\s*signer\s*\)", b8)) == 2
                and len(re.findall(r"let\s+signer\s*=", b8)) == 2
                and not re.search(r"get_channel_keys_with", b8))
    sweep_rederives_from_keys_id = bool(census == expected_census and derive_is_from_keys_id and sweep_ok)

    # ---- setup: ChannelStub::channel_keys_with_channel_value ----------------------------------
    b3 = body_after(chan, r"fn\s+channel_keys_with_channel_value\s*\(")
    a = args_of_call(b3, r"InMemorySigner::new\s*\(")
    copy_args = ["&secp_ctx", "keys.funding_key", "keys.revocation_base_key", "keys.payment_key",
                 "keys.delayed_payment_base_key", "keys.htlc_base_key", "keys.commitment_seed",
                 "channel_value_sat", "keys.channel_keys_id()", "keys.get_secure_random_bytes()"]
    setup_copies = a == copy_args and re.search(r"let\s+keys\s*=\s*&self\.keys\s*;", b3) is not None
    b4 = body_after(node, r"pub\s+fn\s+setup_channel\s*\(")
    setup_uses_stub = (re.search(r"let\s+mut\s+keys\s*=\s*stub\.channel_keys_with_channel_value\(\s*setup\.channel_value_sat\s*\)\s*;", b4) is not None
                       and len(re.findall(r"get_channel_keys_with", b4)) == 0
                       and re.search(r"channels\.get\(\s*&channel_id0\s*\)", b4) is not None)
    # ---- creation / restore ----------------------------------------------------------------
    b5 = body_after(node, r"fn\s+find_or_create_channel\s*\(")
    a = args_of_call(b5, r"self\.keys_manager\.get_channel_keys_with_id\s*\(")
    create_from_id = (a == ["channel_id.clone()", "channel_value_sat"]
                      and re.search(r"id0\s*:\s*channel_id\.clone\(\)", b5) is not None)
    b6 = body_after(node, r"pub\s+fn\s+new_from_persistence\s*\(")
    a = args_of_call(b6, r"node\.keys_manager\.get_channel_keys_with_id\s*\(")
    restore_from_id0 = (a == ["channel_id0.clone()", "channel_entry.channel_value_satoshis"]
                        and re.search(r"for\s*\(\s*channel_id0\s*,\s*channel_entry\s*\)\s*in\s*persister\.get_node_channels", b6) is not None
                        and len(re.findall(r"id0\s*:\s*channel_id0\.clone\(\)", b6)) == 2
                        and len(re.findall(r"get_channel_keys_with", b6)) == 1)
    # per-commitment index: INITIAL_COMMITMENT_NUMBER - commitment_number everywhere keys.* is asked
    idx_exprs = re.findall(r"\bkeys\s*\.\s*(?:get_per_commitment_point|release_commitment_secret)\(\s*([^,)]+)", chan)
    idx_ok = len(idx_exprs) >= 6 and all(e.strip() == "INITIAL_COMMITMENT_NUMBER - commitment_number" for e in idx_exprs)
    idx_all = [e.strip() for e in idx_exprs]

    def b(x):
        return "true" if x else "false"

    def row_lean(r):
        return ("{ seed := %s, keysId := %s, basepointIndex := %s, masterKey := %s, selfNetwork := %s }"
                % (b(r["seed"]), b(r["keys_id"]), b(r["basepoint_index"]), b(r["master_key"]), b(r["selfNetwork"])))

    def kid_lean(r):
        return "{ channelId := %s, seedBase := %s, selfState := %s }" % (b(r["channelId"]), b(r["seedBase"]), b(r["selfState"]))

    lean = "namespace VlsModel.Gen.KeyDeriveUse\n\n"
    lean += ("/-- which of its parameters the body of a style's `channel_keys` reads (`masterKey` is itself\n"
             "`master_key(seed)` under `self.network`) -/\n"
             "structure ChanKeysUse where\n  seed : Bool\n  keysId : Bool\n  basepointIndex : Bool\n  masterKey : Bool\n"
             "  selfNetwork : Bool\n  deriving DecidableEq, Repr\n\n"
             "/-- which inputs the body of a style's `keys_id` reads -/\n"
             "structure KeysIdUse where\n  channelId : Bool\n  seedBase : Bool\n  selfState : Bool\n  deriving DecidableEq, Repr\n\n")
    for st in STYLES:
        lean += f"def {st.lower()}ChanKeys : ChanKeysUse := {row_lean(ck_rows[st])}\n"
        lean += f"def {st.lower()}KeysId : KeysIdUse := {kid_lean(kid_rows[st])}\n"
        lean += f"/-- per-byte AND masks applied by {st}KeyDerive::keys_id to the HKDF output -/\n"
        lean += f"def {st.lower()}KeysIdMask : List (Nat × UInt8) := [" + ", ".join(f"({i}, {v})" for i, v in masks_of[st]) + "]\n"
    lean += f"\n/-- HKDF info strings -/\ndef infoPeerSeed : List UInt8 := {str_bytes(info_peer_seed)}\n"
    lean += f"def infoPerPeerSeed : List UInt8 := {str_bytes(info_per_peer)}\n"
    lean += f"def infoNativeKeys : List UInt8 := {str_bytes(native_info)}\n"
    lean += f"\n/-- number of counters (Atomic* fields) of MyKeysManager: {', '.join(counters)} -/\n"
    lean += f"def managerCounterCount : Nat := {len(counters)}\n"
    lean += f"/-- `basepoint_index` handed to channel_keys is `self.{mb.group(1)}.fetch_add(1)` -/\n"
    lean += f"def basepointIndexIsLndCounter : Bool := {b(mb.group(1) == 'lnd_basepoint_index')}\n"
    lean += f"/-- channel_value_sat reaches anything but the value slot of InMemorySigner::new -/\n"
    lean += f"def channelValueReachesKeys : Bool := {b(value_reaches_keys)}\n"
    lean += f"/-- setup_channel takes the keys of the stub found under channel_id0 and copies them field by field -/\n"
    lean += f"def setupCopiesStubKeys : Bool := {b(setup_copies and setup_uses_stub)}\n"
    lean += f"/-- find_or_create_channel derives from the id it stores as id0 -/\n"
    lean += f"def createDerivesFromId : Bool := {b(create_from_id)}\n"
    lean += f"/-- new_from_persistence derives with get_channel_keys_with_id from the persisted id0 -/\n"
    lean += f"def restoreDerivesFromId0 : Bool := {b(restore_from_id0)}\n"
    lean += f"/-- the only call sites that derive a channel signer are creation and restore (from the id) and the two\n"
    lean += f"descriptor arms of spend_spendable_outputs, which re-derive with derive_channel_keys from the keys id the\n"
    lean += f"descriptor carries; derive_channel_keys is get_channel_keys_with_keys_id -/\n"
    lean += f"def sweepRederivesFromKeysId : Bool := {b(sweep_rederives_from_keys_id)}\n"
    lean += f"/-- every per-commitment point/secret request to the signer uses INITIAL_COMMITMENT_NUMBER - n -/\n"
    lean += f"def commitIndexIsInitialMinusN : Bool := {b(idx_ok)}\n"
    lean += "\nend VlsModel.Gen.KeyDeriveUse\n"

    facts["channel_keys_use"] = ck_rows
    facts["keys_id_use"] = kid_rows
    facts["keys_id_masks"] = {k: v for k, v in masks_of.items()}
    facts["hkdf_info"] = {"channels_seed": info_peer_seed, "keys_id": info_per_peer, "native_channel_keys": native_info}
    facts["manager_counters"] = counters
    facts["basepoint_index_source"] = mb.group(1)
    facts["setup_copies_stub_keys"] = bool(setup_copies and setup_uses_stub)
    facts["create_derives_from_id"] = bool(create_from_id)
    facts["restore_derives_from_id0"] = bool(restore_from_id0)
    facts["channel_value_reaches_keys"] = bool(value_reaches_keys)
    facts["commit_index_exprs"] = sorted(set(idx_all))
    facts["signer_derivation_call_sites"] = census
    facts["sweep_rederives_from_keys_id"] = sweep_rederives_from_keys_id
    return {"KeyDeriveUse.lean": lean}, {"C18": {"facts": facts, "obligations": [
        "Gen.KeyDeriveUse: Native and Ldk channel_keys do not read basepoint_index, keys_id reads only channel id and seed base, "
        "setup copies the stub keys, creation and restore derive from id/id0 (theorems C18_gen_*)"]}}
