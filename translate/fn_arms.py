"""Arms of a dispatching `match` as translation targets (round 9, builder b0103).

The request handlers of vls-protocol-signer (`impl Handler for … { fn do_handle(&self, msg: Message) { match msg { … } } }`)
are single functions with dozens of arms, most of them outside the subset of rs2lean.py.  A target block may declare

    "arms": {"ChannelHandler::do_handle": {
        "scrutinee": "msg", "enum": "Message",
        "arms": {"GetPerCommitmentPoint2": {"fn": "handle_get_per_commitment_point2", "param": "GetPerCommitmentPoint2",
                                            "ret": "Result<GetPerCommitmentPoint2Reply>"}, …}}}

Then the text of that function is rewritten (before the unit is indexed; line numbers are preserved) into one method per
selected arm, in the same `impl`:

    fn handle_get_per_commitment_point2(&self, m: GetPerCommitmentPoint2) -> Result<GetPerCommitmentPoint2Reply> { <arm body> }

and every other line of the function is blanked.  What is trusted (listed in the generated file's header, like a
normalisation rule): that `match msg { Message::X(m) => { B } … }` runs exactly `B` with `m` bound to the payload when the
message is `X` — i.e. the semantics of `match` on distinct variants of one enum (the variants are checked to be distinct and
without guards) — and the declared payload/result types (the result type only selects how the reply value is *typed* in
Lean: the arm's body is unchanged, a mistyped declaration fails the Lean build).

Fail closed: the body of the function must be exactly one `match <scrutinee> { … }`; a selected arm must have the pattern
`<enum>::<Variant>(<ident>)` without guard, occur exactly once, have a `{ … }` body that starts on the line of its `=>` and whose
closing brace starts its line; `return` inside an arm body returns from the function, which is also what it does in the
synthesized method.  Anything else marks the synthesized functions as failed (they are then NOT TRANSLATED).
"""
import re
from rsparse import FileIndex


def make_arm_splitter(rel, plan):
    """plan: {"Impl::fn": {"scrutinee": s, "enum": E, "arms": {Variant: {"fn": name, "param": T, "ret": T}}}}"""

    def rw(src, log, failed):
        idx = FileIndex(rel, src)
        lines = src.split("\n")
        for qn, spec in plan.items():
            impl, _, name = qn.rpartition("::")
            impl = impl or None
            want = spec["arms"]
            synth = [(impl, a["fn"]) for a in want.values()]

            def fail(msg):
                for k in synth: failed[k] = "%s: arms of %s: %s" % (rel, qn, msg)
            k = idx.fns.get((impl, name))
            if k is None or k == "ambiguous":
                fail("function not found or ambiguous"); continue
            t = idx.toks
            j = k
            while j < len(t) and t[j].s != "{": j += 1
            # body must be: { match <scrutinee> { arms } }
            if not (j + 3 < len(t) and t[j + 1].s == "match" and t[j + 2].s == spec["scrutinee"] and t[j + 3].s == "{"):
                fail("the body is not a single `match %s { … }`" % spec["scrutinee"]); continue
            fn_open, m_open = j, j + 3

            def close_of(o):
                d, i = 0, o
                while i < len(t):
                    if t[i].k != "str":
                        if t[i].s in "{([" and len(t[i].s) == 1: d += 1
                        elif t[i].s in "})]" and len(t[i].s) == 1:
                            d -= 1
                            if d == 0: return i
                    i += 1
                return None
            m_close = close_of(m_open)
            if m_close is None or m_close + 1 >= len(t) or t[m_close + 1].s != "}":
                fail("the `match` is not the whole body"); continue
            fn_close = m_close + 1
            # walk the arms
            arms, i, bad = [], m_open + 1, None
            while i < m_close:
                p0 = i
                d = 0
                while i < m_close and not (t[i].s == "=>" and d == 0):
                    if t[i].k != "str" and len(t[i].s) == 1:
                        if t[i].s in "([{": d += 1
                        elif t[i].s in ")]}": d -= 1
                    i += 1
                if i >= m_close: bad = "arm without `=>`"; break
                pat = t[p0:i]
                i += 1
                if t[i].s == "{":
                    c = close_of(i)
                    if c is None or c > m_close: bad = "unbalanced arm"; break
                    arms.append((pat, p0, i, c))
                    i = c + 1
                    if i < m_close and t[i].s == ",": i += 1
                else:
                    d = 0
                    while i < m_close and not (t[i].s == "," and d == 0):
                        if t[i].k != "str" and len(t[i].s) == 1:
                            if t[i].s in "([{": d += 1
                            elif t[i].s in ")]}": d -= 1
                        i += 1
                    arms.append((pat, p0, None, i - 1))
                    if i < m_close: i += 1
            if bad:
                fail(bad); continue
            # variants of all arms: distinct, no guards on the selected ones, no catch-all before a selected one
            sel = {}
            seen_catch_all = False
            for pat, p0, bo, bc in arms:
                ps = [x.s for x in pat]
                if len(ps) >= 3 and ps[0] == spec["enum"] and ps[1] == "::":
                    v = ps[2]
                    if v in want:
                        if v in sel: bad = "variant %s has two arms" % v; break
                        if seen_catch_all: bad = "variant %s comes after a catch-all arm" % v; break
                        if not (len(ps) == 6 and ps[3] == "(" and pat[4].k == "id" and ps[5] == ")"):
                            bad = "pattern of %s is not `%s::%s(<ident>)`" % (v, spec["enum"], v); break
                        if bo is None: bad = "arm %s has no block body" % v; break
                        sel[v] = (pat, p0, bo, bc)
                    elif any(s == "|" for s in ps) and any(s in want for s in ps):
                        bad = "a selected variant occurs in an or-pattern"; break
                else:
                    if any(s in want for s in ps): bad = "a selected variant occurs in a pattern of another shape"; break
                    seen_catch_all = True
            if bad is None:
                miss = [v for v in want if v not in sel]
                if miss: bad = "no arm for %s" % ", ".join(miss)
            if bad:
                fail(bad); continue
            a, b = t[k].line - 1, t[fn_close].line        # lines [a, b) belong to the function (attributes above stay)
            # the tokens before `fn` on its line (pub, async …) are blanked with the line
            new = [""] * (b - a)
            for v, (pat, p0, bo, bc) in sel.items():
                l0, l1, l2 = t[p0].line, t[bo].line, t[bc].line
                if t[p0 - 1].line == l0: bad = "arm %s does not start its line" % v; break
                if t[bo - 1].line != l1: bad = "body of %s does not open on the line of `=>`" % v; break
                if t[bo + 1].line == l1: bad = "body of %s continues on the line of its `{`" % v; break
                if t[bc - 1].line == l2: bad = "closing brace of %s does not start its line" % v; break
                nxt = bc + 1
                if t[nxt].s == ",": nxt += 1
                if nxt <= m_close and t[nxt].line == l2: bad = "something follows the closing brace of %s on its line" % v; break
                spec_a = want[v]
                new[l1 - 1 - a] = "    fn %s(&self, %s: %s) -> %s {" % (spec_a["fn"], pat[4].s, spec_a["param"], spec_a["ret"])
                for ln in range(l1, l2 - 1):
                    new[ln - a] = lines[ln]
                new[l2 - 1 - a] = "    }"
            if bad:
                fail(bad); continue
            lines[a:b] = new
            log.append(("arms of %s as methods (%s): `match %s { %s::X(m) => { B } … }` runs B with the payload bound when the "
                        "message is X; declared payload/result types" % (qn, ", ".join("%s → %s" % (v, want[v]["fn"]) for v in want),
                                                                        spec["scrutinee"], spec["enum"]), len(sel)))
        return "\n".join(lines)
    return rw


def compose(*rws):
    rws = [r for r in rws if r is not None]
    if not rws: return None

    def rw(src, log, failed):
        for r in rws: src = r(src, log, failed)
        return src
    return rw
