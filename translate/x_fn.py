"""Function bodies of /repo translated into Lean by rs2lean.py -> lean/VlsModel/Gen/Fn<Area>.lean.

One namespace per source file.  Every target names the property whose model uses it and the theorem of
lean/VlsModel/Props/<Cxx>Fn.lean that ties the hand-written model to the generated definition.

Fail closed, per function: a target that is no longer inside the translator's subset is *not emitted* (a comment
`-- NOT TRANSLATED` takes its place), so the `Props/<Cxx>Fn.lean` theorem that mentions it no longer builds and
`bin/check Cxx` reports a broken obligation for exactly the properties that rest on it.  A target without a
tying theorem in the Props file is a configuration error and raises (all properties)."""
import os, re, hashlib, json, glob
from rustsrc import ExtractError
from rs2lean import Unit, RsError

HERE = os.path.dirname(os.path.abspath(__file__))

# (impl type or None, function, property, tying theorem in Props/<property>Fn.lean or None)
TARGETS = [
    dict(area="Velocity", rel="vls-core/src/util/velocity.rs", consts=[], externals={}, fns=[
        ("VelocityControl", "spec_to_triple", "C12", "C12_fn_spec_to_triple"),
        ("VelocityControl", "spec_matches", "C12", "C12_fn_spec_matches"),
        ("VelocityControl", "update_spec", "C12", "C12_fn_update_spec"),
        ("VelocityControl", "is_unlimited", "C12", "C12_fn_is_unlimited"),
        ("VelocityControl", "velocity", "C12", "C12_fn_velocity"),
        ("VelocityControl", "insert", "C12", "C12_fn_insert"),
    ]),
    dict(area="Simple", rel="vls-core/src/policy/simple_validator.rs", consts=["vls-core/src/policy/mod.rs"], externals={}, fns=[
        ("SimpleValidator", "validate_delay", "C05", "C05_fn_validate_delay"),
        ("SimpleValidator", "validate_expiry", "C05", "C05_fn_validate_expiry"),
        ("SimpleValidator", "validate_fee", "C05", "C05_fn_validate_fee"),
        ("SimpleValidator", "validate_beneficial_value", "C08", "C08_fn_validate_beneficial_value"),
        ("SimpleValidator", "outside_epsilon_range", "C07", "C07_fn_outside_epsilon_range"),
    ]),
    dict(area="EnforceVal", rel="vls-core/src/policy/validator.rs", consts=[], externals={},
         structs=["vls-core/src/tx/tx.rs"], fns=[
        ("EnforcementState", "minimum_to_holder_value", "C07", "C07_fn_minimum_to_holder_value"),
        ("EnforcementState", "minimum_to_counterparty_value", "C07", "C07_fn_minimum_to_counterparty_value"),
        ("", "min_opt", "C06", "C06_fn_min_opt", "snippet"),
    ]),
    dict(area="Kvv", rel="vls-persist/src/kvv/memory.rs", consts=[], externals={}, fns=[
        ("MemoryKVVStore", "put_with_version", "C16", "C16_fn_put_with_version"),
        ("MemoryKVVStore", "get_version", "C16", "C16_fn_get_version"),
        ("MemoryKVVStore", "put", "C16", "C16_fn_put"),
        ("MemoryKVVStore", "get", "C16", "C16_fn_get"),
    ]),
    dict(area="TxUtil", rel="vls-core/src/util/transaction_utils.rs", consts=[], externals={}, fns=[
        ("", "expected_commitment_tx_weight", "C05", "C05_fn_commitment_weight", "snippet"),
        ("", "estimate_feerate_per_kw", "C04", "C04_fn_estimate_feerate", "snippet"),
    ]),
    dict(area="Tx", rel="vls-core/src/tx/tx.rs", consts=[], externals={}, fns=[
        ("CommitmentInfo2", "value_to_parties", "C05", "C05_fn_value_to_parties"),
        ("CommitmentInfo2", "total_value", "C05", "C05_fn_total_value"),
    ]),
    dict(area="Enforce", rel="vls-core/src/policy/validator.rs", consts=[], externals={}, fns=[
        ("EnforcementState", "set_next_holder_commit_num", "C03", "C03_fn_set_next_holder_commit_num"),
        ("EnforcementState", "set_next_counterparty_commit_num", "C03", "C03_fn_set_next_counterparty_commit_num"),
        ("EnforcementState", "get_previous_counterparty_point", "C03", "C03_fn_get_previous_counterparty_point"),
        ("EnforcementState", "get_previous_counterparty_commit_info", "C03", "C03_fn_get_previous_counterparty_commit_info"),
        ("EnforcementState", "set_next_counterparty_revoke_num", "C03", "C03_fn_set_next_counterparty_revoke_num"),
    ]),
    dict(area="Monitor", rel="vls-core/src/monitor.rs", consts=[], externals={}, fns=[
        ("State", "depth_of", "C15", "C15_fn_depth_of"),
        ("State", "deep_enough_and_saw_node_forget", "C15", "C15_fn_deep_enough"),
        ("State", "is_done", "C15", "C15_fn_is_done"),
    ]),
]


def load_targets():
    """TARGETS above plus every `translate/fn_targets/*.json` (one file per area and builder, so that adding targets
    never conflicts in git).  A file holds one dict or a list of dicts with the keys of a TARGETS block
    (`area`, `rel`, `fns` = [[impl or "", function, property, theorem or null, "snippet"?], …], optional `consts`,
    `structs`, `externals`, `foreign_structs` = {"OutPoint": {"txid": "Txid", "vout": "u32"}} for structs of other crates,
    `tuple_structs` = names of tuple structs to be read as the tuple of their components).  Blocks with the same `area` are merged (same `rel` required): the
    area is one Lean namespace `VlsModel.Gen.Fn<area>`."""
    tgs, by = [], {}
    def add(d, origin):
        d = dict(d)
        d["fns"] = [tuple(x) for x in d.get("fns", [])]
        if d["area"] not in by:
            d.setdefault("consts", []); d.setdefault("structs", []); d.setdefault("externals", {}); d.setdefault("foreign_structs", {})
            d["consts"], d["structs"] = list(d["consts"]), list(d["structs"])
            d["externals"], d["foreign_structs"] = dict(d["externals"]), dict(d["foreign_structs"])
            d["tuple_structs"] = list(d.get("tuple_structs", []))
            by[d["area"]] = d; tgs.append(d)
            return
        t = by[d["area"]]
        if t["rel"] != d["rel"]:
            raise ExtractError("x_fn: %s: area %s is already bound to %s" % (origin, d["area"], t["rel"]))
        t["fns"] += [f for f in d["fns"] if f[:2] not in [g[:2] for g in t["fns"]]]
        for k in ("consts", "structs"):
            t[k] += [x for x in d.get(k, []) if x not in t[k]]
        t["externals"].update(d.get("externals", {}))
        t["foreign_structs"].update(d.get("foreign_structs", {}))
        t["tuple_structs"] += [n for n in d.get("tuple_structs", []) if n not in t["tuple_structs"]]
    for t in TARGETS: add(t, "TARGETS")
    for path in sorted(glob.glob(os.path.join(HERE, "fn_targets", "*.json"))):
        try:
            data = json.load(open(path))
        except ValueError as e:
            raise ExtractError("x_fn: %s: %s" % (path, e))
        for d in (data if isinstance(data, list) else [data]):
            add(d, os.path.basename(path))
    return tgs


FIXTURE_PROP = "FIX"    # functions of harness/src/props/fn_gen_fixture.rs: differential test of the translator only


def unit_for(repo, tg):
    return Unit(repo, tg["rel"], "VlsModel.Gen.Fn" + tg["area"], tg.get("consts", ()), tg.get("externals", {}),
                tg.get("structs", ()), foreign_structs=tg.get("foreign_structs"), tuple_structs=tg.get("tuple_structs"))


def census(repo, tgs=None, units=None):
    """per anchor file of properties.jsonl: every `fn` item with its status
    tied (theorem) / translated (in the subset, no theorem) / not translatable (reason) / declaration"""
    tgs = tgs if tgs is not None else load_targets()
    files = []
    props_of = {}
    for line in open(os.path.join(HERE, "..", "properties.jsonl")):
        d = json.loads(line)
        for f in d["anchors"]["files"]:
            if f.endswith(".rs"):
                if f not in files: files.append(f)
                props_of.setdefault(f, []).append(d["id"])
    tied = {}
    for tg in tgs:
        for tup in tg["fns"]:
            tied.setdefault((tg["rel"], tup[0] or None, tup[1]), []).append((tg["area"], tup[2], tup[3]))
    out = {}
    for rel in files:
        if not os.path.exists(os.path.join(repo, rel)):
            out[rel] = {"properties": props_of[rel], "error": "file not found"}; continue
        try:
            u = Unit(repo, rel, "VlsModel.Census")
        except (RsError, OSError) as e:
            out[rel] = {"properties": props_of[rel], "error": "cannot be indexed: %s" % e}; continue
        rows = []
        for (impl, name), k in sorted(u.fi.fns.items(), key=lambda kv: kv[1] if isinstance(kv[1], int) else 0):
            qn = (impl + "::" if impl else "") + name
            line_no = u.fi.toks[k].line if isinstance(k, int) else 0
            if (impl, name) in u.fi.decl_only:
                rows.append({"fn": qn, "line": line_no, "status": "declaration"}); continue
            ties = tied.get((rel, impl, name))
            if ties:
                # the target's own unit (externals/struct files) decides
                ok = None
                for area, prop, thm in ties:
                    tu = (units or {}).get(area)
                    ok = tu is not None and (impl, name) in tu.fns
                    rows.append({"fn": qn, "line": line_no, "area": area, "property": prop,
                                 "status": ("tied" if thm else "translated") if ok else "not translatable",
                                 **({"theorem": thm} if thm and ok else {}),
                                 **({} if ok else {"why": (tu.failed.get((impl, name)) if tu else "unit missing")})})
                continue
            try:
                f = u.try_fn(impl, name)
                why = None if f else u.failed.get((impl, name), "?")
            except Exception as e:      # a crash of the translator is a refusal, not a result
                f, why = None, "translator error: %r" % (e,)
            if f is not None:
                rows.append({"fn": qn, "line": line_no, "status": "translated"})
            else:
                why = re.sub(r"^([\w:]+: )+", "", str(why))
                rows.append({"fn": qn, "line": line_no, "status": "not translatable", "why": why[:200]})
        cnt = lambda st: sum(1 for r in rows if r["status"] == st)
        out[rel] = {"properties": props_of[rel], "fns": len(rows), "tied": cnt("tied"), "translated_untied": cnt("translated"),
                    "not_translatable": cnt("not translatable"), "declarations": cnt("declaration"), "list": rows}
    return out


class Codec:
    """Lean decoder/encoder terms for the types of one unit (driver model `fngen`)"""

    def __init__(self, unit, area):
        self.u, self.area = unit, area
        self.defs = []      # Lean lines
        self.done = set()

    def lean_ty(self, t):
        u = self.u
        if t[0] == "struct":
            ops = u.opaques_of(t, [])
            return "(Fn%s.%s%s)" % (self.area, t[1], "".join(" Nat" for _ in ops))
        if t[0] == "enum":
            ops = u.opaques_of(t, []) if t[1] in u.fi.enum_data else []
            return "(Fn%s.%s%s)" % (self.area, t[1], "".join(" Nat" for _ in ops))
        if t[0] == "opaque": return "Nat"
        if t[0] == "opt": return "(Option %s)" % self.lean_ty(t[1])
        if t[0] == "vec": return "(List %s)" % self.lean_ty(t[1])
        if t[0] in ("map", "umap"): return "(List (%s × %s))" % (self.lean_ty(t[1]), self.lean_ty(t[2]))
        if t[0] in ("set", "uset"): return "(List %s)" % self.lean_ty(t[1])
        if t[0] == "tuple": return "(" + " × ".join(self.lean_ty(x) for x in t[1]) + ")"
        return u.lt(t, False)

    def named(self, t):
        name = "%s_%s" % (self.area, t[1])
        if name in self.done: return name
        self.done.add(name)
        u = self.u
        L = []
        if t[0] == "enum" and t[1] in u.fi.enum_data:
            # data-carrying enum: the variant index followed by the components
            vs = u.variants(t[1])
            ty = self.lean_ty(t)
            L.append("def dec_%s : Dec %s := fun ts => do" % (name, ty))
            L.append("  let (tag, ts) ← decNat ts")
            L.append("  match tag with")
            encs = []
            for i, (v, pl) in enumerate(vs):
                comps = [] if pl is None else (pl[1] if pl[0] == "tuple" else [x for _, x in pl[1]])
                L.append("  | %d => do" % i)
                for j, ct in enumerate(comps):
                    L.append("    let (c%d, ts) ← %s ts" % (j, self.dec(ct)))
                L.append("    pure (.%s%s, ts)" % (v, "".join(" c%d" % j for j in range(len(comps)))))
                encs.append("  | .%s%s => \"%s%s\"%s" % (v, "".join(" c%d" % j for j in range(len(comps))), v, "(" if comps else "",
                            ("".join(" ++ %s%s c%d" % ("\",\" ++ " if j else "", self.enc(ct), j) for j, ct in enumerate(comps)) + " ++ \")\"") if comps else ""))
            L.append("  | _ => none")
            L.append("def enc_%s : %s → String" % (name, ty))
            L += encs
        elif t[0] == "enum":
            vs = u.fi.enums[t[1]]
            ty = self.lean_ty(t)
            L.append("def dec_%s : Dec %s" % (name, ty))
            for i, v in enumerate(vs):
                L.append("  | \"%d\" :: r => some (.%s, r)" % (i, v))
            L.append("  | _ => none")
            L.append("def enc_%s : %s → String" % (name, ty))
            for i, v in enumerate(vs):
                L.append("  | .%s => \"%d\"" % (v, i))
        else:
            fields = [f for f, _ in u.fi.structs[t[1]] if f in u.used_fields.get(t[1], [])]
            fts = [u.struct_field(t[1], f) for f in fields]
            decs = [self.dec(x) for x in fts]
            encs = [self.enc(x) for x in fts]
            ty = self.lean_ty(t)
            L.append("def dec_%s : Dec %s := fun ts => do" % (name, ty))
            for i, d in enumerate(decs):
                L.append("  let (a%d, ts) ← %s ts" % (i, d))
            from rs2lean import lid
            L.append("  pure ({ %s }, ts)" % ", ".join("%s := a%d" % (lid(f), i) for i, f in enumerate(fields)) if fields
                     else "  pure (⟨⟩, ts)")
            L.append("def enc_%s (x : %s) : String :=" % (name, ty))
            L.append("  \"{\" ++ \" \".intercalate [%s] ++ \"}\"" % ", ".join("%s x.%s" % (e, lid(f)) for e, f in zip(encs, fields)))
        self.defs += L + [""]
        return name

    def dec(self, t):
        k = t[0]
        if k == "int": return "decNat" if t[1][0] == "u" else "decInt"
        if k == "bool": return "decBool"
        if k == "str": return "decStr"
        if k == "unit": return "decUnit"
        if k == "opaque": return "decNat"
        if k == "opt": return "(decOpt %s)" % self.dec(t[1])
        if k == "vec": return "(decList %s)" % self.dec(t[1])
        if k in ("map", "umap"): return "(decList (decPair %s %s))" % (self.dec(t[1]), self.dec(t[2]))
        if k in ("set", "uset"): return "(decList %s)" % self.dec(t[1])
        if k == "tuple":
            ds = [self.dec(x) for x in t[1]]
            r = ds[-1]
            for d in reversed(ds[:-1]): r = "(decPair %s %s)" % (d, r)
            return r
        if k in ("struct", "enum"): return "dec_" + self.named(t)
        raise RsError("no decoder for %r" % (t,))

    def enc(self, t):
        k = t[0]
        if k == "int": return "toString"
        if k == "bool": return "encBool"
        if k == "str": return "id"
        if k == "unit": return "encUnit"
        if k == "opaque": return "toString"
        if k == "opt": return "(encOpt %s)" % self.enc(t[1])
        if k == "vec": return "(encList %s)" % self.enc(t[1])
        if k in ("map", "umap") and t[1][0] == "opaque": return "(encOmap %s)" % self.enc(t[2])   # printed sorted by key
        if k in ("map", "umap"): return "(encList (encPair %s %s))" % (self.enc(t[1]), self.enc(t[2]))
        if k in ("set", "uset"): return "(encList %s)" % self.enc(t[1])
        if k == "tuple":
            es = [self.enc(x) for x in t[1]]
            r = es[-1]
            for e in reversed(es[:-1]): r = "(encPair %s %s)" % (e, r)
            return r
        if k in ("struct", "enum"): return "enc_" + self.named(t)
        raise RsError("no encoder for %r" % (t,))


def dispatch_for(unit, area, fns, arms, defs, errall=()):
    """adds the `call_…` definitions of the translated functions of one unit"""
    cd = Codec(unit, area)
    calls = []
    for f in fns:
        key = "%s.%s" % (area, f.lean_name)
        extargs = ""
        if f.exts and (f.impl, f.name) in errall and [n for n, _ in f.exts] == ["policy_filter_err"]:
            extargs = "(fun _ => true) "
        elif f.exts:
            arms.append('  | "%s" :: _ => "nodriver"' % key)
            continue
        ident = "call_%s_%s" % (area, f.lean_name.replace(".", "_").replace("«", "").replace("»", ""))
        L = ["def %s (ts : List String) : Option String := do" % ident]
        names = []
        for i, (pn, pt) in enumerate(f.params):
            L.append("  let (a%d, ts) ← %s ts" % (i, cd.dec(pt)))
            names.append("a%d" % i)
        call = "Fn%s.%s %s%s" % (area, f.lean_name, extargs, " ".join(names))
        enc = cd.enc(f.out_ty)
        res = "encM %s (%s)" % (enc, call) if f.monadic else '"ok " ++ %s (%s)' % (enc, call)
        L.append("  match ts with")
        L.append("  | [] => some (%s)" % res)
        L.append("  | _ => none")
        calls += L + [""]
        arms.append('  | "%s" :: ts => (%s ts).getD "badargs"' % (key, ident))
    defs += cd.defs + calls


def extract(repo):
    outputs, info = {}, {}
    summary = []
    arms, ddefs, imports = [], [], []
    snippets = []
    import test_rs2lean
    bad = test_rs2lean.run()
    if bad:
        raise ExtractError("x_fn: self-test of the translator failed (translate/test_rs2lean.py): " + "; ".join(bad[:5]))
    tgs = load_targets()
    units = {}
    for tg in tgs:
        try:
            u = unit_for(repo, tg)
        except (RsError, OSError) as e:
            raise ExtractError("x_fn: cannot index %s: %s" % (tg["rel"], e))
        units[tg["area"]] = u
        for tup in tg["fns"]:
            impl, name, prop, thm = tup[:4]
            impl = impl or None
            f = u.try_fn(impl, name)
            qn = (impl + "::" if impl else "") + name
            ent = info.setdefault(prop, {"facts": {"fn_gen": {}}, "obligations": []})
            if thm is not None:
                pf = os.path.join(HERE, "..", "lean", "VlsModel", "Props", prop + "Fn.lean")
                if not os.path.exists(pf) or not re.search(r"\btheorem\s+" + re.escape(thm) + r"\b", open(pf).read()):
                    raise ExtractError("x_fn: target %s names theorem %s which is not in Props/%sFn.lean" % (qn, thm, prop))
            if f is None and prop == FIXTURE_PROP:
                raise ExtractError("x_fn: translator fixture %s is NOT TRANSLATED: %s" % (qn, u.failed.get((impl, name))))
            if f is None:
                ent["facts"]["fn_gen"][qn] = {"file": tg["rel"], "translated": False, "why": u.failed.get((impl, name))}
                ent["obligations"].append("Gen.Fn%s: %s is NOT TRANSLATED (outside the subset): %s breaks" % (tg["area"], qn, thm))
                continue
            ent["facts"]["fn_gen"][qn] = {
                "file": tg["rel"], "line": f.line, "lean": "VlsModel.Gen.Fn%s.%s" % (tg["area"], f.lean_name),
                "monadic": f.monadic, "externals": ["%s : %s" % x for x in f.exts], "dropped": f.dropped,
                "calls": sorted(set(f.callees)), "sha1": hashlib.sha1(f.text.encode()).hexdigest()[:12],
                "tied_by": thm}
            if thm:
                ent["obligations"].append("Gen.Fn%s.%s = hand-written model (theorem %s)" % (tg["area"], f.lean_name, thm))
            if len(tup) > 4 and tup[4] == "snippet":
                # verbatim source text of a private free function, compiled into the harness (differential test)
                lines = u.fi.src.split("\n")[f.line - 1:f.end_line]
                txt = "\n".join(lines)
                txt = re.sub(r"^(\s*)(pub(\s*\([^)]*\))?\s+)?fn\b", r"\1pub fn", txt, count=1)
                snippets.append("// %s:%d\n%s\n" % (tg["rel"], f.line, txt))
        outputs["Fn%s.lean" % tg["area"]] = u.emit()
        imports.append("import VlsModel.Gen.Fn%s" % tg["area"])
        dispatch_for(u, tg["area"], [u.fns[k] for k in u.order], arms, ddefs,
                     errall={(t[0] or None, t[1]) for t in tg["fns"] if len(t) > 4 and t[4] == "errall"})
    outputs["FnDispatch.lean"] = "\n".join(
        ["import VlsModel.Drv.FnCodec"] + imports +
        ["/-! Dispatch table of the driver model `fngen`: `<Area>.<function> <args…>` -> outcome of the generated",
         "    definition (codec: Drv/FnCodec.lean).  Opaque type parameters are instantiated with `Nat`. -/",
         "namespace VlsModel.Gen.FnDispatch", "open VlsModel VlsModel.Gen VlsModel.Drv.FnCodec", ""] + ddefs +
        ["def dispatch : List String → String"] + arms + ['  | _ => "unknown-function"', "",
         "end VlsModel.Gen.FnDispatch"]) + "\n"
    snip = ("// GENERATED by translate/x_fn.py on every run of bin/check: verbatim source text of private free functions\n"
            "// of /repo that are translated by rs2lean.py, compiled here so that harness/src/props/fn_gen.rs can run the\n"
            "// real text against the generated Lean definition.  Do not edit by hand.\n"
            "#![allow(dead_code, unused_variables)]\n\n" + "\n".join(snippets))
    # census of the anchor files: which functions are derived from the source, which are only modelled by hand
    cen = census(repo, tgs, units)
    for rel, c in cen.items():
        for prop in c["properties"]:
            ent = info.setdefault(prop, {"facts": {"fn_gen": {}}, "obligations": []})
            ent["facts"].setdefault("fn_census", {})[rel] = {k: v for k, v in c.items() if k != "properties"}
    info.pop(FIXTURE_PROP, None)
    sp = os.path.join(HERE, "..", "harness", "src", "props", "fn_gen_snippets.rs")
    if not os.path.exists(sp) or open(sp).read() != snip:
        with open(sp, "w") as fh:
            fh.write(snip)
    return outputs, info
