"""Function bodies of /repo translated into Lean by rs2lean.py -> lean/VlsModel/Gen/Fn<Area>.lean.

One namespace per source file.  Every target names the property whose model uses it and the theorem of
lean/VlsModel/Props/<Cxx>Gen.lean that ties the hand-written model to the generated definition.

Fail closed, per function: a target that is no longer inside the translator's subset is *not emitted* (a comment
`-- NOT TRANSLATED` takes its place), so the `Props/<Cxx>Gen.lean` theorem that mentions it no longer builds and
`bin/check Cxx` reports a broken obligation for exactly the properties that rest on it.  A target without a
tying theorem in the Props file is a configuration error and raises (all properties)."""
import os, re, hashlib
from rustsrc import ExtractError
from rs2lean import Unit, RsError

HERE = os.path.dirname(os.path.abspath(__file__))

# (impl type or None, function, property, tying theorem in Props/<property>Gen.lean or None)
TARGETS = [
    dict(area="Velocity", rel="vls-core/src/util/velocity.rs", consts=[], externals={}, fns=[
        ("VelocityControl", "spec_to_triple", "C12", "C12_gen_spec_to_triple"),
        ("VelocityControl", "spec_matches", "C12", "C12_gen_spec_matches"),
        ("VelocityControl", "update_spec", "C12", "C12_gen_update_spec"),
        ("VelocityControl", "is_unlimited", "C12", "C12_gen_is_unlimited"),
        ("VelocityControl", "velocity", "C12", "C12_gen_velocity"),
        ("VelocityControl", "insert", "C12", "C12_gen_insert"),
    ]),
]


def extract(repo):
    outputs, info = {}, {}
    summary = []
    for tg in TARGETS:
        try:
            u = Unit(repo, tg["rel"], "VlsModel.Gen.Fn" + tg["area"], tg.get("consts", ()), tg.get("externals", {}))
        except (RsError, OSError) as e:
            raise ExtractError("x_fn: cannot index %s: %s" % (tg["rel"], e))
        for impl, name, prop, thm in tg["fns"]:
            f = u.try_fn(impl, name)
            qn = (impl + "::" if impl else "") + name
            ent = info.setdefault(prop, {"facts": {"fn_gen": {}}, "obligations": []})
            if thm is not None:
                pf = os.path.join(HERE, "..", "lean", "VlsModel", "Props", prop + "Gen.lean")
                if not os.path.exists(pf) or not re.search(r"\btheorem\s+" + re.escape(thm) + r"\b", open(pf).read()):
                    raise ExtractError("x_fn: target %s names theorem %s which is not in Props/%sGen.lean" % (qn, thm, prop))
            if f is None:
                ent["facts"]["fn_gen"][qn] = {"file": tg["rel"], "translated": False, "why": u.failed.get((impl, name))}
                ent["obligations"].append("Gen.Fn%s: %s is NOT TRANSLATED (outside the subset): %s breaks" % (tg["area"], qn, thm))
                continue
            ent["facts"]["fn_gen"][qn] = {
                "file": tg["rel"], "line": f.line, "lean": "VlsModel.Gen.Fn%s.%s" % (tg["area"], f.lean_name),
                "monadic": f.monadic, "externals": ["%s : %s" % x for x in f.exts], "dropped": f.dropped,
                "calls": sorted(set(f.callees)), "sha1": hashlib.sha1(f.text.encode()).hexdigest()[:12],
                "tied_by": thm}
            if thm:
                ent["obligations"].append("Gen.Fn%s.%s = hand-written model (theorem %s)" % (tg["area"], f.lean_name, thm))
        outputs["Fn%s.lean" % tg["area"]] = u.emit()
    return outputs, info
