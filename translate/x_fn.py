"""Function bodies of /repo translated into Lean by rs2lean.py -> lean/VlsModel/Gen/Fn<Area>.lean.

One namespace per source file.  Every target names the property whose model uses it and the theorem of
lean/VlsModel/Props/<Cxx>Fn.lean that ties the hand-written model to the generated definition.

Fail closed, per function: a target that is no longer inside the translator's subset is *not emitted* (a comment
`-- NOT TRANSLATED` takes its place), so the `Props/<Cxx>Fn.lean` theorem that mentions it no longer builds and
`bin/check Cxx` reports a broken obligation for exactly the properties that rest on it.  A target without a
tying theorem in the Props file is a configuration error and raises (all properties)."""
import os, re, hashlib
from rustsrc import ExtractError
from rs2lean import Unit, RsError

HERE = os.path.dirname(os.path.abspath(__file__))

# (impl type or None, function, property, tying theorem in Props/<property>Fn.lean or None)
TARGETS = [
    dict(area="Velocity", rel="vls-core/src/util/velocity.rs", consts=[], externals={}, fns=[
        ("VelocityControl", "spec_to_triple", "C12", "C12_fn_spec_to_triple"),
        ("VelocityControl", "spec_matches", "C12", "C12_fn_spec_matches"),
        ("VelocityControl", "update_spec", "C12", "C12_fn_update_spec"),
        ("VelocityControl", "is_unlimited", "C12", "C12_fn_is_unlimited"),
        ("VelocityControl", "velocity", "C12", "C12_fn_velocity"),
        ("VelocityControl", "insert", "C12", "C12_fn_insert"),
        ("VelocityControl", "get_state", "C12", "C12_fn_get_state"),
    ]),
    dict(area="Simple", rel="vls-core/src/policy/simple_validator.rs", consts=["vls-core/src/policy/mod.rs"], externals={}, fns=[
        ("SimpleValidator", "validate_delay", "C05", "C05_fn_validate_delay"),
        ("SimpleValidator", "validate_expiry", "C05", "C05_fn_validate_expiry"),
        ("SimpleValidator", "validate_fee", "C05", "C05_fn_validate_fee"),
        ("SimpleValidator", "validate_beneficial_value", "C08", "C08_fn_validate_beneficial_value"),
        ("SimpleValidator", "outside_epsilon_range", "C07", "C07_fn_outside_epsilon_range"),
    ]),
    dict(area="EnforceVal", rel="vls-core/src/policy/validator.rs", consts=[], externals={},
         structs=["vls-core/src/tx/tx.rs"], fns=[
        ("EnforcementState", "minimum_to_holder_value", "C07", "C07_fn_minimum_to_holder_value"),
        ("EnforcementState", "minimum_to_counterparty_value", "C07", "C07_fn_minimum_to_counterparty_value"),
        ("", "min_opt", "C06", None, "snippet"),
    ]),
    dict(area="Kvv", rel="vls-persist/src/kvv/memory.rs", consts=[], externals={}, fns=[
        ("MemoryKVVStore", "put_with_version", "C16", "C16_fn_put_with_version"),
        ("MemoryKVVStore", "get_version", "C16", "C16_fn_get_version"),
        ("MemoryKVVStore", "put", "C16", "C16_fn_put"),
        ("MemoryKVVStore", "get", "C16", "C16_fn_get"),
    ]),
    dict(area="TxUtil", rel="vls-core/src/util/transaction_utils.rs", consts=[], externals={}, fns=[
        ("", "expected_commitment_tx_weight", "C05", "C05_fn_commitment_weight", "snippet"),
        ("", "estimate_feerate_per_kw", "C04", "C04_fn_estimate_feerate", "snippet"),
    ]),
    dict(area="Tx", rel="vls-core/src/tx/tx.rs", consts=[], externals={}, fns=[
        ("CommitmentInfo2", "value_to_parties", "C05", "C05_fn_value_to_parties"),
        ("CommitmentInfo2", "total_value", "C05", "C05_fn_total_value"),
    ]),
    dict(area="Enforce", rel="vls-core/src/policy/validator.rs", consts=[], externals={}, fns=[
        ("EnforcementState", "set_next_holder_commit_num", "C03", "C03_fn_set_next_holder_commit_num"),
        ("EnforcementState", "set_next_counterparty_commit_num", "C03", "C03_fn_set_next_counterparty_commit_num"),
        ("EnforcementState", "get_previous_counterparty_point", "C03", "C03_fn_get_previous_counterparty_point"),
        ("EnforcementState", "get_previous_counterparty_commit_info", "C03", "C03_fn_get_previous_counterparty_commit_info"),
        ("EnforcementState", "set_next_counterparty_revoke_num", "C03", "C03_fn_set_next_counterparty_revoke_num"),
    ]),
    dict(area="Monitor", rel="vls-core/src/monitor.rs", consts=[], externals={}, fns=[
        ("State", "depth_of", "C15", "C15_fn_depth_of"),
        ("State", "deep_enough_and_saw_node_forget", "C15", "C15_fn_deep_enough"),
        ("State", "is_done", "C15", "C15_fn_is_done"),
    ]),
]


class Codec:
    """Lean decoder/encoder terms for the types of one unit (driver model `fngen`)"""

    def __init__(self, unit, area):
        self.u, self.area = unit, area
        self.defs = []      # Lean lines
        self.done = set()

    def lean_ty(self, t):
        u = self.u
        if t[0] == "struct":
            ops = u.opaques_of(t, [])
            return "(Fn%s.%s%s)" % (self.area, t[1], "".join(" Nat" for _ in ops))
        if t[0] == "enum": return "Fn%s.%s" % (self.area, t[1])
        if t[0] == "opaque": return "Nat"
        if t[0] == "opt": return "(Option %s)" % self.lean_ty(t[1])
        if t[0] == "vec": return "(List %s)" % self.lean_ty(t[1])
        if t[0] == "map": return "(List (String × %s))" % self.lean_ty(t[2])
        if t[0] == "tuple": return "(" + " × ".join(self.lean_ty(x) for x in t[1]) + ")"
        return u.lt(t, False)

    def named(self, t):
        name = "%s_%s" % (self.area, t[1])
        if name in self.done: return name
        self.done.add(name)
        u = self.u
        L = []
        if t[0] == "enum":
            vs = u.fi.enums[t[1]]
            ty = self.lean_ty(t)
            L.append("def dec_%s : Dec %s" % (name, ty))
            for i, v in enumerate(vs):
                L.append("  | \"%d\" :: r => some (.%s, r)" % (i, v))
            L.append("  | _ => none")
            L.append("def enc_%s : %s → String" % (name, ty))
            for i, v in enumerate(vs):
                L.append("  | .%s => \"%d\"" % (v, i))
        else:
            fields = [f for f, _ in u.fi.structs[t[1]] if f in u.used_fields.get(t[1], [])]
            fts = [u.struct_field(t[1], f) for f in fields]
            decs = [self.dec(x) for x in fts]
            encs = [self.enc(x) for x in fts]
            ty = self.lean_ty(t)
            L.append("def dec_%s : Dec %s := fun ts => do" % (name, ty))
            for i, d in enumerate(decs):
                L.append("  let (a%d, ts) ← %s ts" % (i, d))
            from rs2lean import lid
            L.append("  pure ({ %s }, ts)" % ", ".join("%s := a%d" % (lid(f), i) for i, f in enumerate(fields)) if fields
                     else "  pure (⟨⟩, ts)")
            L.append("def enc_%s (x : %s) : String :=" % (name, ty))
            L.append("  \"{\" ++ \" \".intercalate [%s] ++ \"}\"" % ", ".join("%s x.%s" % (e, lid(f)) for e, f in zip(encs, fields)))
        self.defs += L + [""]
        return name

    def dec(self, t):
        k = t[0]
        if k == "int": return "decNat" if t[1][0] == "u" else "decInt"
        if k == "bool": return "decBool"
        if k == "str": return "decStr"
        if k == "unit": return "decUnit"
        if k == "opaque": return "decNat"
        if k == "opt": return "(decOpt %s)" % self.dec(t[1])
        if k == "vec": return "(decList %s)" % self.dec(t[1])
        if k == "map": return "(decList (decPair decStr %s))" % self.dec(t[2])
        if k == "tuple":
            ds = [self.dec(x) for x in t[1]]
            r = ds[-1]
            for d in reversed(ds[:-1]): r = "(decPair %s %s)" % (d, r)
            return r
        if k in ("struct", "enum"): return "dec_" + self.named(t)
        raise RsError("no decoder for %r" % (t,))

    def enc(self, t):
        k = t[0]
        if k == "int": return "toString"
        if k == "bool": return "encBool"
        if k == "str": return "id"
        if k == "unit": return "encUnit"
        if k == "opaque": return "toString"
        if k == "opt": return "(encOpt %s)" % self.enc(t[1])
        if k == "vec": return "(encList %s)" % self.enc(t[1])
        if k == "map": return "(encList (encPair id %s))" % self.enc(t[2])
        if k == "tuple":
            es = [self.enc(x) for x in t[1]]
            r = es[-1]
            for e in reversed(es[:-1]): r = "(encPair %s %s)" % (e, r)
            return r
        if k in ("struct", "enum"): return "enc_" + self.named(t)
        raise RsError("no encoder for %r" % (t,))


def dispatch_for(unit, area, fns, arms, defs):
    """adds the `call_…` definitions of the translated functions of one unit"""
    cd = Codec(unit, area)
    calls = []
    for f in fns:
        key = "%s.%s" % (area, f.lean_name)
        if f.exts:
            arms.append('  | "%s" :: _ => "nodriver"' % key)
            continue
        ident = "call_%s_%s" % (area, f.lean_name.replace(".", "_").replace("«", "").replace("»", ""))
        L = ["def %s (ts : List String) : Option String := do" % ident]
        names = []
        for i, (pn, pt) in enumerate(f.params):
            L.append("  let (a%d, ts) ← %s ts" % (i, cd.dec(pt)))
            names.append("a%d" % i)
        call = "Fn%s.%s %s" % (area, f.lean_name, " ".join(names))
        enc = cd.enc(f.out_ty)
        res = "encM %s (%s)" % (enc, call) if f.monadic else '"ok " ++ %s (%s)' % (enc, call)
        L.append("  match ts with")
        L.append("  | [] => some (%s)" % res)
        L.append("  | _ => none")
        calls += L + [""]
        arms.append('  | "%s" :: ts => (%s ts).getD "badargs"' % (key, ident))
    defs += cd.defs + calls


def extract(repo):
    outputs, info = {}, {}
    summary = []
    arms, ddefs, imports = [], [], []
    snippets = []
    for tg in TARGETS:
        try:
            u = Unit(repo, tg["rel"], "VlsModel.Gen.Fn" + tg["area"], tg.get("consts", ()), tg.get("externals", {}), tg.get("structs", ()))
        except (RsError, OSError) as e:
            raise ExtractError("x_fn: cannot index %s: %s" % (tg["rel"], e))
        for tup in tg["fns"]:
            impl, name, prop, thm = tup[:4]
            impl = impl or None
            f = u.try_fn(impl, name)
            qn = (impl + "::" if impl else "") + name
            ent = info.setdefault(prop, {"facts": {"fn_gen": {}}, "obligations": []})
            if thm is not None:
                pf = os.path.join(HERE, "..", "lean", "VlsModel", "Props", prop + "Fn.lean")
                if not os.path.exists(pf) or not re.search(r"\btheorem\s+" + re.escape(thm) + r"\b", open(pf).read()):
                    raise ExtractError("x_fn: target %s names theorem %s which is not in Props/%sFn.lean" % (qn, thm, prop))
            if f is None:
                ent["facts"]["fn_gen"][qn] = {"file": tg["rel"], "translated": False, "why": u.failed.get((impl, name))}
                ent["obligations"].append("Gen.Fn%s: %s is NOT TRANSLATED (outside the subset): %s breaks" % (tg["area"], qn, thm))
                continue
            ent["facts"]["fn_gen"][qn] = {
                "file": tg["rel"], "line": f.line, "lean": "VlsModel.Gen.Fn%s.%s" % (tg["area"], f.lean_name),
                "monadic": f.monadic, "externals": ["%s : %s" % x for x in f.exts], "dropped": f.dropped,
                "calls": sorted(set(f.callees)), "sha1": hashlib.sha1(f.text.encode()).hexdigest()[:12],
                "tied_by": thm}
            if thm:
                ent["obligations"].append("Gen.Fn%s.%s = hand-written model (theorem %s)" % (tg["area"], f.lean_name, thm))
            if len(tup) > 4 and tup[4] == "snippet":
                # verbatim source text of a private free function, compiled into the harness (differential test)
                lines = u.fi.src.split("\n")[f.line - 1:f.end_line]
                txt = "\n".join(lines)
                txt = re.sub(r"^(\s*)(pub(\s*\([^)]*\))?\s+)?fn\b", r"\1pub fn", txt, count=1)
                snippets.append("// %s:%d\n%s\n" % (tg["rel"], f.line, txt))
        outputs["Fn%s.lean" % tg["area"]] = u.emit()
        imports.append("import VlsModel.Gen.Fn%s" % tg["area"])
        dispatch_for(u, tg["area"], [u.fns[k] for k in u.order], arms, ddefs)
    outputs["FnDispatch.lean"] = "\n".join(
        ["import VlsModel.Drv.FnCodec"] + imports +
        ["/-! Dispatch table of the driver model `fngen`: `<Area>.<function> <args…>` -> outcome of the generated",
         "    definition (codec: Drv/FnCodec.lean).  Opaque type parameters are instantiated with `Nat`. -/",
         "namespace VlsModel.Gen.FnDispatch", "open VlsModel VlsModel.Gen VlsModel.Drv.FnCodec", ""] + ddefs +
        ["def dispatch : List String → String"] + arms + ['  | _ => "unknown-function"', "",
         "end VlsModel.Gen.FnDispatch"]) + "\n"
    snip = ("// GENERATED by translate/x_fn.py on every run of bin/check: verbatim source text of private free functions\n"
            "// of /repo that are translated by rs2lean.py, compiled here so that harness/src/props/fn_gen.rs can run the\n"
            "// real text against the generated Lean definition.  Do not edit by hand.\n"
            "#![allow(dead_code, unused_variables)]\n\n" + "\n".join(snippets))
    sp = os.path.join(HERE, "..", "harness", "src", "props", "fn_gen_snippets.rs")
    if not os.path.exists(sp) or open(sp).read() != snip:
        with open(sp, "w") as fh:
            fh.write(snip)
    return outputs, info
