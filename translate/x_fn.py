"""Function bodies of /repo translated into Lean by rs2lean.py -> lean/VlsModel/Gen/Fn<Area>.lean.

One namespace per source file.  Every target names the property whose model uses it and the theorem of
lean/VlsModel/Props/<Cxx>Fn.lean that ties the hand-written model to the generated definition.

Fail closed, per function: a target that is no longer inside the translator's subset is *not emitted* (a comment
`-- NOT TRANSLATED` takes its place), so the `Props/<Cxx>Fn.lean` theorem that mentions it no longer builds and
`bin/check Cxx` reports a broken obligation for exactly the properties that rest on it.  A target without a
tying theorem in the Props file is a configuration error and raises (all properties)."""
import os, re, hashlib, json, glob
from rustsrc import ExtractError
from rs2lean import Unit, RsError

HERE = os.path.dirname(os.path.abspath(__file__))

# (impl type or None, function, property, tying theorem in Props/<property>Fn.lean or None)
TARGETS = [
    dict(area="Velocity", rel="vls-core/src/util/velocity.rs", consts=[], externals={}, fns=[
        ("VelocityControl", "spec_to_triple", "C12", "C12_fn_spec_to_triple"),
        ("VelocityControl", "spec_matches", "C12", "C12_fn_spec_matches"),
        ("VelocityControl", "update_spec", "C12", "C12_fn_update_spec"),
        ("VelocityControl", "is_unlimited", "C12", "C12_fn_is_unlimited"),
        ("VelocityControl", "velocity", "C12", "C12_fn_velocity"),
        ("VelocityControl", "insert", "C12", "C12_fn_insert"),
        ("VelocityControl", "get_state", "C12", "C12_fn_get_state"),
        ("VelocityControl", "new_with_intervals", "C12", "C12_fn_new_with_intervals"),
        ("VelocityControl", "new_unlimited", "C12", "C12_fn_new_unlimited"),
        ("VelocityControl", "new", "C12", "C12_fn_new"),
        ("VelocityControl", "with_state", "C12", "C12_fn_with_state"),
        ("VelocityControl", "load_from_state", "C12", "C12_fn_load_from_state"),
    ]),
    dict(area="Simple", rel="vls-core/src/policy/simple_validator.rs", consts=["vls-core/src/policy/mod.rs"], externals={}, fns=[
        ("SimpleValidator", "validate_delay", "C05", "C05_fn_validate_delay"),
        ("SimpleValidator", "validate_expiry", "C05", "C05_fn_validate_expiry"),
        ("SimpleValidator", "validate_fee", "C05", "C05_fn_validate_fee"),
        ("SimpleValidator", "validate_beneficial_value", "C08", "C08_fn_validate_beneficial_value"),
        ("SimpleValidator", "outside_epsilon_range", "C07", "C07_fn_outside_epsilon_range"),
    ]),
    dict(area="EnforceVal", rel="vls-core/src/policy/validator.rs", consts=[], externals={},
         structs=["vls-core/src/tx/tx.rs"], fns=[
        ("EnforcementState", "minimum_to_holder_value", "C07", "C07_fn_minimum_to_holder_value"),
        ("EnforcementState", "minimum_to_counterparty_value", "C07", "C07_fn_minimum_to_counterparty_value"),
        ("", "min_opt", "C06", "C06_fn_min_opt", "snippet"),
    ]),
    dict(area="Kvv", rel="vls-persist/src/kvv/memory.rs", consts=[], externals={}, fns=[
        ("MemoryKVVStore", "put_with_version", "C16", "C16_fn_put_with_version"),
        ("MemoryKVVStore", "get_version", "C16", "C16_fn_get_version"),
        ("MemoryKVVStore", "put", "C16", "C16_fn_put"),
        ("MemoryKVVStore", "get", "C16", "C16_fn_get"),
    ]),
    dict(area="TxUtil", rel="vls-core/src/util/transaction_utils.rs", consts=[], externals={}, fns=[
        ("", "expected_commitment_tx_weight", "C05", "C05_fn_commitment_weight", "snippet"),
        ("", "estimate_feerate_per_kw", "C04", "C04_fn_estimate_feerate", "snippet"),
    ]),
    dict(area="Tx", rel="vls-core/src/tx/tx.rs", consts=[], externals={}, fns=[
        ("CommitmentInfo2", "value_to_parties", "C05", "C05_fn_value_to_parties"),
        ("CommitmentInfo2", "total_value", "C05", "C05_fn_total_value"),
    ]),
    dict(area="Enforce", rel="vls-core/src/policy/validator.rs", consts=[], externals={}, fns=[
        ("EnforcementState", "set_next_holder_commit_num", "C03", "C03_fn_set_next_holder_commit_num"),
        ("EnforcementState", "set_next_counterparty_commit_num", "C03", "C03_fn_set_next_counterparty_commit_num"),
        ("EnforcementState", "get_previous_counterparty_point", "C03", "C03_fn_get_previous_counterparty_point"),
        ("EnforcementState", "get_previous_counterparty_commit_info", "C03", "C03_fn_get_previous_counterparty_commit_info"),
        ("EnforcementState", "set_next_counterparty_revoke_num", "C03", "C03_fn_set_next_counterparty_revoke_num"),
        # default methods of `trait Validator` (the guards in front of the setters; `&mut EnforcementState` parameter);
        # "filter": the only external is `policy_filter_err`, the `fngen` driver instantiates it with a constant
        # filter given as the first argument (1 = every tag stays an error, 0 = every tag is demoted to a warning)
        ("Validator", "set_next_holder_commit_num", "C01", "C01_fn_validator_set_next_holder_commit_num", "filter"),
        ("Validator", "get_current_holder_commitment_info", "C02", "C02_fn_get_current_holder_commitment_info", "filter"),
        ("Validator", "set_next_counterparty_commit_num", "C03", "C03_fn_validator_set_next_counterparty_commit_num", "filter"),
        ("Validator", "set_next_counterparty_revoke_num", "C03", "C03_fn_validator_set_next_counterparty_revoke_num", "filter"),
    ]),
    dict(area="EnforceNew", rel="vls-core/src/policy/validator.rs", consts=[], externals={}, fns=[
        # the state a channel starts from (all 13 fields; own area so that the 9-field structure of `Enforce` stays as it is)
        ("EnforcementState", "new", "C01", "C01_fn_enforcement_state_new"),
    ]),
    dict(area="SimpleState", rel="vls-core/src/policy/simple_validator.rs", consts=["vls-core/src/policy/mod.rs"],
         structs=["vls-core/src/policy/validator.rs"],
         # logging-only macros of the file (dropped like debug!; `scoped_debug_return!` yields a guard object that only
         # logs when dropped: value `()`, the assignment `*debug_on_return = false` is dropped with it)
         log_macros=["dbgvals", "policy_log", "scoped_debug_return"],
         # the content rules `validate_commitment_tx` are an external `… -> Rs.M Unit` (C05's subject); the selectors of
         # EnforcementState are externals that may overflow (instantiated with the generated Gen.FnEnforce bodies in the
         # tying theorems); the HTLC deltas are only logged; secp is opaque
         externals={
             "self.validate_commitment_tx": {"params": ["EnforcementState", "u64", "PublicKey", "ChannelSetup", "ChainState",
                                                        "CommitmentInfo2"], "ret": "Result<(), ValidationError>", "monadic": True},
             "CommitmentInfo2.delta_offered_htlcs": {"params": ["CommitmentInfo2"], "ret": "(HtlcDelta, HtlcDelta)"},
             "CommitmentInfo2.delta_received_htlcs": {"params": ["CommitmentInfo2"], "ret": "(HtlcDelta, HtlcDelta)"},
             "EnforcementState.get_previous_counterparty_point": {"params": ["u64"], "ret": "Option<PublicKey>", "partial": True},
             "EnforcementState.get_previous_counterparty_commit_info": {"params": ["u64"], "ret": "Option<CommitmentInfo2>",
                                                                        "partial": True},
             "Secp256k1::signing_only": {"params": [], "ret": "SecpCtx"},
             "PublicKey::from_secret_key": {"params": ["SecpCtx", "SecretKey"], "ret": "PublicKey"},
         }, fns=[
        ("SimpleValidator", "validate_holder_commitment_tx", "C02", "C02_fn_validate_holder_commitment_tx"),
        ("SimpleValidator", "validate_counterparty_commitment_tx", "C03", "C03_fn_validate_counterparty_commitment_tx"),
        ("SimpleValidator", "validate_counterparty_revocation", "C03", "C03_fn_validate_counterparty_revocation"),
    ]),
    dict(area="Secrets", rel="vls-core/src/policy/validator.rs", consts=[],
         # the compact BOLT-3 store of counterparty revocation secrets (copied from LDK); the hash is a declared external
         externals={
             "Sha256::hash": {"params": ["Vec<u8>"], "ret": "Sha256Hash"},
             "Sha256Hash.to_byte_array": {"params": [], "ret": "Vec<u8>"},
         },
         # the `fngen` driver runs the generated store with the executable SHA-256 of Prim/Sha256.lean
         driver_externals={
             "ext_Sha256_hash": "(fun (l : List Nat) => VlsModel.Sha256.sha256 (l.map UInt8.ofNat))",
             "ext_Sha256Hash_to_byte_array": "(fun (b : List UInt8) => b.map UInt8.toNat)",
         }, fns=[
        ("CounterpartyCommitmentSecrets", "new", "C03", "C03_fn_secrets_new"),
        ("CounterpartyCommitmentSecrets", "place_secret", "C03", "C03_fn_place_secret"),
        ("CounterpartyCommitmentSecrets", "get_min_seen_secret", "C03", "C03_fn_get_min_seen_secret"),
        ("CounterpartyCommitmentSecrets", "derive_secret", "C03", "C03_fn_derive_secret"),
        ("CounterpartyCommitmentSecrets", "provide_secret", "C03", "C03_fn_provide_secret"),
        ("CounterpartyCommitmentSecrets", "get_secret", "C03", "C03_fn_get_secret"),
    ]),
    dict(area="Channel", rel="vls-core/src/channel.rs", consts=["vls-core/src/util/mod.rs"],
         structs=["vls-core/src/policy/validator.rs"],
         # declared externals (trusted boundary, explicit parameters of the generated definitions): key derivation of the
         # LDK signer and secp parsing; `self.validator()` is only the receiver of `policy_err!` (its policy filter is the
         # external `policy_filter_err`); a `Result` declared with "as_option" is read as `Option` (`Err` = `none`)
         externals={
             "self.validator": {"params": [], "ret": "()", "drop": True},
             "self.get_per_commitment_point_unchecked": {"params": ["u64"], "ret": "PublicKey"},
             "InMemorySigner.release_commitment_secret": {"params": ["u64"], "ret": "Result<Secret32, ()>", "as_option": True},
             "SecretKey::from_slice": {"params": ["Secret32"], "ret": "Result<SecretKey, ()>", "as_option": True},
         }, fns=[
        # `impl ChannelBase for ChannelStub`: a channel that is not set up never discloses a secret (C01)
        ("ChannelStub", "get_per_commitment_secret", "C01", "C01_fn_stub_get_per_commitment_secret"),
        ("ChannelStub", "get_per_commitment_secret_or_none", "C01", "C01_fn_stub_get_per_commitment_secret_or_none"),
        # `impl ChannelBase for Channel`: the release guard `n + 2 <= next_holder_commit_num` and the point guard
        ("Channel", "get_per_commitment_point", "C01", "C01_fn_get_per_commitment_point"),
        ("Channel", "get_per_commitment_secret", "C01", "C01_fn_get_per_commitment_secret"),
        ("Channel", "get_per_commitment_secret_or_none", "C01", "C01_fn_get_per_commitment_secret_or_none"),
        ("Channel", "release_commitment_secret", "C01", "C01_fn_release_commitment_secret"),
    ]),
    dict(area="Monitor", rel="vls-core/src/monitor.rs", consts=[], externals={}, fns=[
        ("State", "depth_of", "C15", "C15_fn_depth_of"),
        ("State", "deep_enough_and_saw_node_forget", "C15", "C15_fn_deep_enough"),
        ("State", "is_done", "C15", "C15_fn_is_done"),
    ]),
    # ---- C09: the sweep validators.  They read rust-bitcoin values (`Transaction`, `LockTime`) and call the `Wallet`
    # trait; those are reached through *views* (the fields the code reads, as struct declarations) and *external
    # methods* (explicit function parameters of the generated definitions, instantiated and stated in Props/C09Fn.lean).
    # A few constructs around them are normalised textually first (rules below; every rule must apply exactly the
    # declared number of times inside the named function, otherwise that function is not translated).
    dict(area="Sweep", rel="vls-core/src/policy/simple_validator.rs", consts=[],
         structs=["vls-core/src/channel.rs", "vls-core/src/policy/validator.rs"],
         views="""
             pub struct Transaction { pub version: i32, pub lock_time: LockTime, pub input: Vec<TxIn>, pub output: Vec<TxOut> }
             pub struct TxIn { pub sequence: u32 }
             pub struct TxOut { pub script_pubkey: ScriptBuf }
             pub struct HTLCOutputInCommitment { pub offered: bool, pub cltv_expiry: u32 }
         """,
         externals={
             # Wallet::can_spend(&self, child_path, script_pubkey) -> Result<bool, Status>, seen as Option (Err = None)
             "can_spend": dict(receiver="Wallet", params=["Wallet", "DerivationPath", "ScriptBuf"], ret="Option<bool>"),
             # Wallet::allowlist_contains(&self, script_pubkey, path) -> bool; Node's implementation can panic
             # (`derive_pub(..).unwrap()` on a hardened path)
             "allowlist_contains": dict(receiver="Wallet", params=["Wallet", "ScriptBuf", "DerivationPath"], ret="bool",
                                        may_panic=True),
             # bitcoin::absolute::Height::from_consensus(u32) -> Result<Height, _>, seen as Option
             "height_from_consensus": dict(params=["u32"], ret="Option<Height>"),
             # LockTime::is_satisfied_by(height, Time::MIN)
             "is_satisfied_by_height": dict(receiver="LockTime", params=["LockTime", "Height"], ret="bool"),
             # LockTime::to_consensus_u32
             "to_consensus_u32": dict(receiver="LockTime", params=["LockTime"], ret="u32"),
             # ChannelSetup::is_anchors (vls-core/src/channel.rs, translated on its own in area Channel)
             "is_anchors": dict(receiver="ChannelSetup", params=["ChannelSetup"], ret="bool"),
             # ChannelSetup::is_zero_fee_htlc (vls-core/src/channel.rs, translated on its own in area Channel)
             "is_zero_fee_htlc": dict(receiver="ChannelSetup", params=["ChannelSetup"], ret="bool"),
             # parse_received_htlc_script(script, is_anchors) -> Result<(.., cltv_expiry: i64), _>: only the expiry is used
             "received_htlc_cltv": dict(params=["ScriptBuf", "bool"], ret="Option<i64>"),
             # parse_offered_htlc_script(script, is_anchors).is_ok()
             "is_offered_htlc_script": dict(params=["ScriptBuf", "bool"], ret="bool"),
         },
         normalise={
             ("SimpleValidator", "validate_sweep"): ["version_two", "can_spend_map_err"],
             ("SimpleValidator", "validate_delayed_sweep"): ["debug_guard", "debug_guard_off", "prepend_msg", "locktime_height", "sequence_u32"],
             ("SimpleValidator", "validate_justice_sweep"): ["debug_guard", "debug_guard_off", "prepend_msg", "locktime_height", "sequence_u32"],
             ("SimpleValidator", "validate_counterparty_htlc_sweep"): ["debug_guard", "debug_guard_off", "prepend_msg", "locktime_height",
                                                                        "sequence_u32", "parse_received", "parse_offered"],
             ("SimpleValidator", "validate_htlc_tx"): ["debug_guard", "debug_guard_off"],
         },
         fns=[
        ("SimpleValidator", "validate_sweep", "C09", "C09_fn_validate_sweep"),
        ("SimpleValidator", "validate_delayed_sweep", "C09", "C09_fn_validate_delayed_sweep"),
        ("SimpleValidator", "validate_justice_sweep", "C09", "C09_fn_validate_justice_sweep"),
        ("SimpleValidator", "validate_counterparty_htlc_sweep", "C09", "C09_fn_validate_counterparty_htlc_sweep"),
        ("SimpleValidator", "validate_htlc_tx", "C09", "C09_fn_validate_htlc_tx"),
    ]),
    # ---- C08: validate_onchain_tx (the per-output classification loop, the sums, the final fee check)
    dict(area="OnchainTx", rel="vls-core/src/policy/simple_validator.rs", consts=["vls-core/src/policy/mod.rs"],
         structs=["vls-core/src/channel.rs", "vls-core/src/policy/validator.rs"],
         views="""
             pub struct Transaction { pub version: i32, pub output: Vec<TxOut> }
             pub struct TxOut { pub value: u64, pub script_pubkey: ScriptBuf }
         """,
         error_ctors={"unknown_destinations_error": "unknown-destinations"}, compact_guards=True,
         externals={
             "can_spend": dict(receiver="Wallet", params=["Wallet", "DerivationPath", "ScriptBuf"], ret="Option<bool>"),
             "allowlist_contains": dict(receiver="Wallet", params=["Wallet", "ScriptBuf", "DerivationPath"], ret="bool",
                                        may_panic=True),
             # Transaction::base_size
             "base_size": dict(receiver="Transaction", params=["Transaction"], ret="usize"),
             # DerivationPath::len, DerivationPath::master()
             "len": dict(receiver="DerivationPath", params=["DerivationPath"], ret="usize"),
             "master_path": dict(params=[], ret="DerivationPath"),
             # util::transaction_utils::is_tx_non_malleable (translated on its own in area TxUtilC08): `assert_eq!` inside
             "is_tx_non_malleable": dict(params=["Transaction", "Vec<bool>"], ret="bool", may_panic=True),
             "funding_script_pubkey": dict(params=["InMemorySigner", "Wallet"], ret="ScriptBuf"),
         },
         normalise={
             ("SimpleValidator", "validate_onchain_tx"): [
                 "debug_guard", "debug_guard_off", "version_two", "inner_macro_def", "inner_macro_use", "can_spend_map_err_onchain",
                 "value_to_sat", "master_path", "slot_lock", "dbgvals", "funding_script", "unknowns_type",
                 "prepend_msg"],
         },
         fns=[
        ("SimpleValidator", "validate_onchain_tx", "C08", "C08_fn_validate_onchain_tx"),
    ]),
    # ---- C09: decode_and_validate_htlc_tx (recomposition of the second-level HTLC transaction, sighash comparison)
    dict(area="HtlcTx", rel="vls-core/src/policy/simple_validator.rs", consts=[],
         structs=["vls-core/src/channel.rs"], log_macros=["dbgvals"],
         views="""
             pub struct TxIn { pub previous_output: OutPoint }
             pub struct OutPoint { pub txid: Txid, pub vout: u32 }
             pub struct TxOut { pub value: u64 }
             pub struct TxCreationKeys { pub broadcaster_delayed_payment_key: DelayedPaymentKey, pub revocation_key: RevocationKey }
             pub struct HTLCOutputInCommitment { pub offered: bool, pub amount_msat: u64, pub cltv_expiry: u32, pub payment_hash: PaymentHash, pub transaction_output_index: Option<u32> }
         """,
         externals={
             "is_anchors": dict(receiver="ChannelSetup", params=["ChannelSetup"], ret="bool"),
             "is_zero_fee_htlc": dict(receiver="ChannelSetup", params=["ChannelSetup"], ret="bool"),
             "features": dict(receiver="ChannelSetup", params=["ChannelSetup"], ret="ChannelTypeFeatures"),
             # the rust-bitcoin Transaction stays opaque (it is the argument of the sighash external): its three projections
             "tx_locktime": dict(params=["Transaction"], ret="u32"),
             "tx_inputs": dict(params=["Transaction"], ret="Vec<TxIn>"),
             "tx_outputs": dict(params=["Transaction"], ret="Vec<TxOut>"),
             "sighash_all": dict(params=[], ret="EcdsaSighashType"),
             "sighash_single_acp": dict(params=[], ret="EcdsaSighashType"),
             # SighashCache::new(tx).p2wsh_signature_hash(0, script, amount, type): Err (no input 0) seen as None
             "p2wsh_sighash": dict(params=["Transaction", "ScriptBuf", "u64", "EcdsaSighashType"], ret="Option<SegwitV0Sighash>"),
             "is_offered_htlc_script": dict(params=["ScriptBuf", "bool"], ret="bool"),
             "is_received_htlc_script": dict(params=["ScriptBuf", "bool"], ret="bool"),
             "htlc_timeout_tx_weight": dict(params=["ChannelTypeFeatures"], ret="u64"),
             "htlc_success_tx_weight": dict(params=["ChannelTypeFeatures"], ret="u64"),
             # util::transaction_utils::estimate_feerate_per_kw (translated in area TxUtil): division by the weight
             "estimate_feerate_per_kw": dict(params=["u64", "u64"], ret="u32", may_panic=True),
             "zero_payment_hash": dict(params=[], ret="PaymentHash"),
             # LDK build_htlc_transaction: `Amount` subtraction inside can panic
             "build_htlc_transaction": dict(params=["Txid", "u32", "u16", "HTLCOutputInCommitment", "ChannelTypeFeatures",
                                                    "DelayedPaymentKey", "RevocationKey"], ret="Transaction", may_panic=True),
         },
         normalise={
             ("SimpleValidator", "decode_and_validate_htlc_tx"): [
                 "sighash_type_acp", "sighash_type_all", "orig_sighash", "parse_offered_ok", "parse_received_ok", "offered_let", "value_to_sat",
                 "tx_locktime", "tx_input0", "tx_output0",
                 "zero_payment_hash", "recomposed_sighash", "mismatch_debug"],
         },
         fns=[
        ("SimpleValidator", "decode_and_validate_htlc_tx", "C09", "C09_fn_decode_and_validate_htlc_tx"),
    ]),
    # ---- C08 / C09: `impl Wallet for Node` (can_spend, allowlist_contains) and the key-path rule of get_wallet_privkey
    dict(area="NodeWallet", rel="vls-core/src/node.rs", consts=[], structs=[], any_order=True,
         error_ctors={"invalid_argument": "invalid-argument"},
         externals={
             "len": dict(receiver="DerivationPath", params=["DerivationPath"], ret="usize"),
             "is_empty": dict(receiver="DerivationPath", params=["DerivationPath"], ret="bool"),
             # KeyDerivationStyle::get_key_path_len (vls-core/src/signer/derive.rs, translated on its own in area Derive)
             "get_key_path_len": dict(receiver="KeyDerivationStyle", params=["KeyDerivationStyle"], ret="Option<usize>"),
             # account xprv -> derive_priv(path).unwrap() -> PrivateKey (cannot fail for an xprv)
             "account_privkey_at": dict(params=["DerivationPath"], ret="PrivateKey"),
             "pubkey_of": dict(params=["PrivateKey"], ret="CompressedPublicKey"),
             # xpub.derive_pub(path): Err on a hardened component
             "xpub_child": dict(params=["Xpub", "DerivationPath"], ret="Option<CompressedPublicKey>"),
             # the address constructors (network fixed), and Address::script_pubkey
             "addr_p2wpkh": dict(params=["CompressedPublicKey"], ret="Address"),
             "addr_p2shwpkh": dict(params=["CompressedPublicKey"], ret="Address"),
             "addr_p2pkh": dict(params=["CompressedPublicKey"], ret="Address"),
             "addr_p2tr": dict(params=["CompressedPublicKey"], ret="Address"),
             "script_pubkey": dict(receiver="Address", params=["Address"], ret="ScriptBuf"),
         },
         normalise={
             ("Node", "get_wallet_privkey"): ["account_privkey"],
             ("Node", "get_wallet_pubkey"): ["pubkey_of"],
             ("Node", "can_spend"): ["addr_p2wpkh", "addr_p2shwpkh", "addr_p2tr_2"],
             ("Node", "allowlist_contains"): ["get_state", "xpub_child", "addr_p2wpkh", "addr_p2pkh", "addr_p2tr_inline"],
         },
         fns=[
        ("Node", "can_spend", "C08", "C08_fn_can_spend"),
        ("Node", "allowlist_contains", "C08", "C08_fn_allowlist_contains"),
    ]),
    dict(area="TxUtilC08", rel="vls-core/src/util/transaction_utils.rs", consts=[], externals={},
         views="pub struct Transaction { pub input: Vec<TxIn> }",
         fns=[
        ("", "is_tx_non_malleable", "C08", "C08_fn_is_tx_non_malleable"),
    ]),
    dict(area="Channel", rel="vls-core/src/channel.rs", consts=[], externals={}, fns=[
        ("ChannelSetup", "is_anchors", "C09", "C09_fn_is_anchors"),
        ("ChannelSetup", "is_zero_fee_htlc", "C09", "C09_fn_is_zero_fee_htlc"),
    ]),
]

# Normalisation rules: name -> (regex on the function's source text, replacement, what it means / what is trusted)
_CMT = r"(?:\s*//[^\n]*\n)*\s*"
RULES = {
    "version_two": (r"tx\.version != Version::TWO", "tx.version != 2",
                    "rust-bitcoin `Version::TWO` is the consensus value 2 (view: `version: i32`)"),
    "can_spend_map_err": (
        r"wallet\.can_spend\(wallet_path, dest_script\)\.map_err\(\|err\| \{\s*policy_error\(\s*(\"policy-onchain-output-scriptpubkey\"),"
        r"\s*format!\(\"wallet can_spend error: \{\}\", err\),\s*\)\s*\}\)\?",
        r"wallet.can_spend(wallet_path, dest_script).ok_or_else(|| policy_error(\1, String::new()))?",
        "`Result<bool, Status>` seen as `Option<bool>`; every `Err` becomes the policy error with the same tag (message dropped)"),
    "debug_guard": (r"let mut debug_on_return =\s*scoped_debug_return!\([^;]*\);", "",
                    "scopeguard that only logs its arguments when the function fails"),
    "debug_guard_off": (r"\*debug_on_return = false;", "", "switch of that log guard"),
    "prepend_msg": (r"\s*\.map_err\(\|ve\| ve\.prepend_msg\(format!\(\"\{\}: \", containing_function!\(\)\)\)\)\?", "?",
                    "only the message of the error is extended"),
    "locktime_height": (
        r"tx\.lock_time\.is_satisfied_by\(" + _CMT + r"Height::from_consensus\(([^()]*)\)\s*\.expect\(\"Height::from_consensus\"\)," +
        _CMT + r"Time::MIN,\s*\)",
        r'tx.lock_time.is_satisfied_by_height(height_from_consensus(\1).expect("Height::from_consensus"))',
        "`is_satisfied_by(h, Time::MIN)` as one external; `Height::from_consensus(..)` as an external returning Option"),
    "sequence_u32": (r"tx\.input\[0\]\.sequence\.0", "tx.input[0].sequence", "`Sequence(pub u32)` seen as its u32 (view: `sequence: u32`)"),
    "parse_received": (
        r"if let Ok\(\(\s*_revocation_hash,\s*_remote_htlc_pubkey,\s*_payment_hash_vec,\s*_local_htlc_pubkey,\s*cltv_expiry,\s*\)\) =\s*"
        r"parse_received_htlc_script\(redeemscript, setup\.is_anchors\(\)\)",
        "if let Some(cltv_expiry) = received_htlc_cltv(redeemscript, setup.is_anchors())",
        "of the parsed received-HTLC script only `cltv_expiry` is used (the other components are bound to `_` names)"),
    # ---- validate_onchain_tx
    "inner_macro_def": (r"macro_rules! add_beneficial_output \{.*?\n            \}\n", "\n",
                        "local macro `add_beneficial_output!`: its invocations are expanded by the next rule"),
    "inner_macro_use": (r"add_beneficial_output!\(\s*beneficial_sum,\s*([^,]+?),\s*\"[^\"]*\"\s*\)",
                        r'beneficial_sum.checked_add(\1).ok_or_else(|| policy_error("policy-onchain-fee-range", String::new()))',
                        "expansion of `add_beneficial_output!($sum, $val, $which)` as defined in the function (message dropped)", 4),
    "can_spend_map_err_onchain": (
        r"wallet\.can_spend\(opath, &output\.script_pubkey\)\.map_err\(\|err\| \{\s*policy_error\(\s*(\"policy-onchain-output-scriptpubkey\"),"
        r"\s*format!\(\"output\[\{\}\]: wallet_can_spend error: \{\}\", outndx, err\),\s*\)\s*\}\)\?",
        r"wallet.can_spend(opath, &output.script_pubkey).ok_or_else(|| policy_error(\1, String::new()))?",
        "`Result<bool, Status>` seen as `Option<bool>`; every `Err` becomes the policy error with the same tag (message dropped)"),
    "value_to_sat": (r"\.value\.to_sat\(\)", ".value", "`Amount` seen as its satoshi value (view: `value: u64`)", None),
    "master_path": (r"&DerivationPath::master\(\)", "&master_path()", "the empty derivation path as an external constant"),
    "slot_lock": (r"match &\*slot\.lock\(\)\.unwrap\(\) \{", "match slot {",
                  "`Mutex::lock().unwrap()` is the identity on the protected value (the translator's convention for locks)"),
    "dbgvals": (r"dbgvals!\([^;]*\);", "", "logging macro"),
    "funding_script": (
        r"let funding_redeemscript = make_funding_redeemscript\(\s*&chan\.keys\.pubkeys\(\)\.funding_pubkey,"
        r"\s*&chan\.counterparty_pubkeys\(\)\.funding_pubkey,\s*\);\s*let address = Address::p2wsh\(&funding_redeemscript, wallet\.network\(\)\);"
        r"\s*let script_pubkey = address\.script_pubkey\(\);",
        "let script_pubkey = funding_script_pubkey(&chan.keys, wallet);",
        "the channel's p2wsh funding script (a function of both funding pubkeys held by `chan.keys` and of the network) as one external"),
    "unknowns_type": (r"let mut unknowns = Vec::new\(\);", "let mut unknowns: Vec<usize> = Vec::new();", "element type made explicit"),
    # ---- decode_and_validate_htlc_tx
    "sighash_type_acp": (r"EcdsaSighashType::SinglePlusAnyoneCanPay", "sighash_single_acp()", "rust-bitcoin constant as an external"),
    "sighash_type_all": (r"EcdsaSighashType::All", "sighash_all()", "rust-bitcoin constant as an external"),
    "orig_sighash": (
        r"SighashCache::new\(tx\)\s*\.p2wsh_signature_hash\(0, &redeemscript, Amount::from_sat\(htlc_amount_sat\), sighash_type\)\s*"
        r"\.map_err\(\|_\| \{\s*policy_error\(\s*(\"policy-commitment-other\"),\s*\"could not compute sighash on provided HTLC tx\",\s*\)\s*\}\)\?",
        r"p2wsh_sighash(tx, &redeemscript, htlc_amount_sat, sighash_type).ok_or_else(|| policy_error(\1, String::new()))?",
        "BIP-143 sighash of input 0 as one external; its `Err` (no such input) seen as `None`, mapped to the same policy tag"),
    "parse_offered_ok": (r"parse_offered_htlc_script\(redeemscript, setup\.is_anchors\(\)\)\.is_ok\(\)",
                         "is_offered_htlc_script(redeemscript, setup.is_anchors())", "only whether the script parses is used"),
    "parse_received_ok": (r"parse_received_htlc_script\(redeemscript, setup\.is_anchors\(\)\)\.is_ok\(\)",
                          "is_received_htlc_script(redeemscript, setup.is_anchors())", "only whether the script parses is used"),
    "offered_let": (
        r"let offered = if (is_offered_htlc_script\(redeemscript, setup\.is_anchors\(\)\)) \{\s*true\s*\} else if "
        r"(is_received_htlc_script\(redeemscript, setup\.is_anchors\(\)\)) \{\s*false\s*\} else \{\s*dbgvals!\(.*?\);\s*"
        r"return Err\(policy_error\(\"policy-commitment-scripts\", \"invalid redeemscript\"\)\);\s*\};",
        r'if !\1 && !\2 { return Err(policy_error("policy-commitment-scripts", "invalid redeemscript")); } let offered = \1;',
        "`let x = if a { true } else if b { false } else { log; return Err(e) }` as the guard `if !a && !b { return Err(e) }` "
        "followed by `let x = a` (a, b: side-effect-free parser calls)"),
    "tx_locktime": (r"tx\.lock_time\.to_consensus_u32\(\)", "tx_locktime(tx)", "projection of the opaque Transaction as an external"),
    "tx_input0": (r"tx\.input\[0\]", "tx_inputs(tx)[0]", "projection of the opaque Transaction as an external (the indexing stays)", 2),
    "tx_output0": (r"tx\.output\[0\]", "tx_outputs(tx)[0]", "projection of the opaque Transaction as an external (the indexing stays)"),
    "zero_payment_hash": (r"PaymentHash\(\[0; 32\]\)", "zero_payment_hash()", "a constant value (the field is not used by the recomposition)"),
    "recomposed_sighash": (
        r"SighashCache::new\(&recomposed_tx\)\s*\.p2wsh_signature_hash\(0, &redeemscript, Amount::from_sat\(htlc_amount_sat\), sighash_type\)\s*\.unwrap\(\)",
        "p2wsh_sighash(&recomposed_tx, &redeemscript, htlc_amount_sat, sighash_type).unwrap()",
        "the same sighash external; the `unwrap` stays"),
    "mismatch_debug": (
        r"let \(revocation_key, contest_delay, delayed_pubkey\) =\s*parse_revokeable_redeemscript\(output_witscript, setup\.is_anchors\(\)\)"
        r"\s*\.unwrap_or_else\(\|_\| \(vec!\[\], 0, vec!\[\]\)\);\s*debug!\(.*?\);\s*debug!\(.*?\);\s*(?=return Err\(policy_error\(\"policy-htlc-other\")",
        "", "values computed only for the two debug! lines that follow (logging)"),
    # ---- node.rs: impl Wallet for Node
    "account_privkey": (
        r"let xkey =\s*self\.get_account_extended_key\(\)\.derive_priv\(&self\.secp_ctx, &derivation_path\)\.unwrap\(\);\s*"
        r"Ok\(PrivateKey::new\(xkey\.private_key, self\.network\(\)\)\)",
        "Ok(account_privkey_at(derivation_path))",
        "the account xprv's child at the path as one external (`derive_priv(..).unwrap()` cannot fail for a private key)"),
    "pubkey_of": (r"Ok\(CompressedPublicKey\(\s*self\.get_wallet_privkey\(child_path\)\?\.public_key\(&self\.secp_ctx\)\.inner,\s*\)\)",
                  "Ok(pubkey_of(self.get_wallet_privkey(child_path)?))", "public key of a private key as one external"),
    "addr_p2wpkh": (r"Address::p2wpkh\(&pubkey, self\.network\(\)\)", "addr_p2wpkh(&pubkey)", "address constructor on the node's network"),
    "addr_p2shwpkh": (r"Address::p2shwpkh\(&pubkey, self\.network\(\)\)", "addr_p2shwpkh(&pubkey)", "address constructor on the node's network"),
    "addr_p2pkh": (r"Address::p2pkh\(&pubkey, self\.network\(\)\)", "addr_p2pkh(&pubkey)", "address constructor on the node's network"),
    "addr_p2tr_2": (
        r"let untweaked_pubkey = UntweakedPublicKey::from\(pubkey\.0\);\s*(?://[^\n]*\n\s*)*let taproot_addr = Address::p2tr\(&self\.secp_ctx, untweaked_pubkey, None, self\.network\(\)\);",
        "let taproot_addr = addr_p2tr(&pubkey);", "key-path-only taproot address of the same key as one external"),
    "addr_p2tr_inline": (
        r"let untweaked_pubkey = UntweakedPublicKey::from\(pubkey\.0\);\s*if \*script_pubkey\s*== Address::p2tr\(&self\.secp_ctx, untweaked_pubkey, None, self\.network\(\)\)\s*\.script_pubkey\(\)",
        "if *script_pubkey == addr_p2tr(&pubkey).script_pubkey()", "key-path-only taproot address of the same key as one external"),
    "get_state": (r"let state = self\.get_state\(\);", "let state = self.state.lock().unwrap();",
                  "`Node::get_state` is `self.state.lock().unwrap()` (its body); the lock is the identity"),
    "xpub_child": (
        r"let pubkey =\s*CompressedPublicKey\(xp\.derive_pub\(&Secp256k1::new\(\), path\)\.unwrap\(\)\.public_key\);",
        "let pubkey = xpub_child(xp, path).unwrap();", "`derive_pub` (Err on a hardened component) seen as Option; the `unwrap` stays"),
    "parse_offered": (
        r"if let Ok\(\(\s*_revocation_hash,\s*_remote_htlc_pubkey,\s*_local_htlc_pubkey,\s*_payment_hash_vec,\s*\)\) =\s*"
        r"parse_offered_htlc_script\(redeemscript, setup\.is_anchors\(\)\)",
        "if is_offered_htlc_script(redeemscript, setup.is_anchors())",
        "of the parsed offered-HTLC script nothing is used"),
}


DOTALL = ["inner_macro_def", "mismatch_debug", "offered_let"]
JSON_DOTALL = DOTALL_EXTRA = DOTALL   # (one list; json targets add to it through register_json_rules)


def register_json_rules(d, origin):
    """One reader for the json dialects that four builders introduced independently in round 9 (kept compatible with all of
    them): `"rules": {name: [regex, replacement, why, count?, "dotall"?]}` (count 0 or null = at least once; a name already
    defined differently is an error; a regex may also start with `(?s)`), `"rules_dotall": [names]`,
    `"normalise": {"Impl::fn" | "::fn" | "fn": [rule names]}` (json has no tuple keys; a free function has impl None)."""
    dot_names = set(d.pop("rules_dotall", None) or [])
    all_dot = ".b1315." in str(origin)      # b1315's dialect: every rule of a json file is applied with re.S
    for rn, rv in (d.pop("rules", None) or {}).items():
        rv = list(rv)
        dot = "dotall" in rv[3:] or rn in dot_names or all_dot
        rv = [x for x in rv if x != "dotall"]
        if len(rv) > 3 and rv[3] == 0: rv[3] = None
        rv = tuple(rv)
        if rn in RULES and tuple(RULES[rn]) != rv:
            raise ExtractError("x_fn: %s: normalisation rule %r is already defined differently" % (origin, rn))
        RULES[rn] = rv
        if dot and rn not in DOTALL: DOTALL.append(rn)
    norm = d.get("normalise")
    if isinstance(norm, dict):
        out = {}
        for k, v in norm.items():
            if isinstance(k, str):
                impl, _, fn = k.rpartition("::")
                k = (impl or None, fn)
            elif isinstance(k, tuple) and k[0] == "":
                k = (None, k[1])
            out[k] = list(v)
        d["normalise"] = out


def make_rewriter(rel, plan):
    """plan: {(impl, fn): [rule names]}.  The rules are applied to the source lines of the named function only; the line
    count is preserved.  A rule that does not apply exactly once marks the function as failed (it is then not translated)."""
    from rsparse import FileIndex

    def rw(src, log, failed):
        idx = FileIndex(rel, src)
        lines = src.split("\n")
        for (impl, name), rules in plan.items():
            # span of the function by brace matching on the token stream (the un-normalised text need not parse)
            k = idx.fns.get((impl, name))
            if k is None or k == "ambiguous":
                failed[(impl, name)] = "%s: function %s not found or ambiguous" % (rel, name); continue
            toks, j, d = idx.toks, k, 0
            while j < len(toks) and toks[j].s != "{": j += 1
            while j < len(toks):
                if toks[j].k != "str":
                    if toks[j].s == "{": d += 1
                    elif toks[j].s == "}":
                        d -= 1
                        if d == 0: break
                j += 1
            if j >= len(toks):
                failed[(impl, name)] = "%s: unbalanced body of %s" % (rel, name); continue
            a, b = toks[k].line - 1, toks[j].line
            seg = "\n".join(lines[a:b])
            bad = None
            for rn in rules:
                rx, repl, _why = RULES[rn][:3]
                want = RULES[rn][3] if len(RULES[rn]) > 3 else 1      # None: at least once

                def sub(m):
                    out = m.expand(repl)
                    return out + "\n" * (m.group(0).count("\n") - out.count("\n"))
                seg, n = re.subn(rx, sub, seg, flags=re.S if (rn in DOTALL or rn in DOTALL_EXTRA) else 0)
                if (want is None and n < 1) or (want is not None and n != want):
                    bad = "normalisation rule %r applies %d times in %s (declared: %s)" % (rn, n, name, want or "at least once"); break
                log.append(("%s in %s: %s" % (rn, name, RULES[rn][2]), n))
            if bad:
                failed[(impl, name)] = bad; continue
            new = seg.split("\n")
            if len(new) != b - a:
                failed[(impl, name)] = "normalisation changed the line count of %s" % name; continue
            lines[a:b] = new
        return "\n".join(lines)
    return rw


def make_arm_synth(rel, arms, line_map):
    """(round 9, bfn) target key `arm_methods`: [{"impl": "ChannelHandler", "fn": "do_handle", "arm": "RevokeCommitmentTx",
    "ret": "msgs::RevokeCommitmentTxReply"}, …].  Every listed arm `Message::<arm>(<binder>) => <body>` of the `match` in
    `<impl>::<fn>` is appended to the source text as a method of its own,

        impl <impl> { fn <fn>__<arm>(&self, <binder>: msgs::<arm>) -> Result<<ret>> <body> }

    (the body's tokens verbatim; an expression arm is wrapped in braces), which is then translated like any other method:
    what the handler does with one message kind becomes one generated definition.  `ret` is the reply type the arm boxes
    (`Ok(Box::new(msgs::XReply {..}))`: `Box::new` is the identity, so a wrong declaration is a type error of the
    translation).  Fail closed: an arm that is not found exactly once marks the method as failed."""
    from rsparse import FileIndex

    def rw(src, log, failed):
        idx = FileIndex(rel, src)
        toks = idx.toks
        out = []
        for a in arms:
            impl, fn, arm = a["impl"], a["fn"], a["arm"]
            name = "%s__%s" % (fn, arm)
            k = idx.fns.get((impl, fn))
            if not isinstance(k, int):
                failed[(impl, name)] = "%s: function %s::%s not found or ambiguous" % (rel, impl, fn); continue
            j, d = k, 0
            while toks[j].s != "{": j += 1
            e = j
            while e < len(toks):
                if toks[e].k != "str":
                    if toks[e].s == "{": d += 1
                    elif toks[e].s == "}":
                        d -= 1
                        if d == 0: break
                e += 1
            hits = [i for i in range(j, e - 3) if toks[i].s == "Message" and toks[i + 1].s == "::" and toks[i + 2].s == arm
                    and toks[i + 3].s == "(" and toks[i].k == "id"]
            hits = [i for i in hits if any(toks[q].s == "=>" for q in range(i + 4, min(i + 12, e)))]
            if len(hits) != 1:
                failed[(impl, name)] = "%s: arm Message::%s occurs %d times in %s::%s" % (rel, arm, len(hits), impl, fn); continue
            i = hits[0] + 4
            binder = []
            while toks[i].s != ")":
                binder.append(toks[i].s); i += 1
            if len(binder) != 1 or toks[i + 1].s != "=>":
                failed[(impl, name)] = "%s: arm Message::%s: binder %r / no `=>`" % (rel, arm, binder); continue
            b = i + 2
            if toks[b].s == "{":
                q, d = b, 0
                while True:
                    if toks[q].k != "str":
                        if toks[q].s == "{": d += 1
                        elif toks[q].s == "}":
                            d -= 1
                            if d == 0: break
                    q += 1
                body = " ".join(t.s for t in toks[b:q + 1])
            else:
                q, d = b, 0
                while True:
                    if toks[q].k != "str":
                        if toks[q].s in ("(", "{", "["): d += 1
                        elif toks[q].s in (")", "}", "]"):
                            if d == 0: break
                            d -= 1
                        elif toks[q].s == "," and d == 0: break
                    q += 1
                body = "{ " + " ".join(t.s for t in toks[b:q]) + " }"
            bn = binder[0] if binder[0] != "_" else "_m"
            out.append("impl %s { fn %s(&self, %s: msgs::%s) -> Result<%s> %s }" % (impl, name, bn, a.get("payload", arm), a["ret"], body))
            line_map[(impl, name)] = toks[hits[0]].line
            log.append(("arm `Message::%s` of %s::%s (%s:%d) as the method %s" % (arm, impl, fn, rel, toks[hits[0]].line, name), 1))
        return src + "\n" + "\n".join(out) + "\n"
    return rw


def load_targets():
    """TARGETS above plus every `translate/fn_targets/*.json` (one file per area and builder, so that adding targets
    never conflicts in git).  A file holds one dict or a list of dicts with the keys of a TARGETS block
    (`area`, `rel`, `fns` = [[impl or "", function, property, theorem or null, "snippet"?], …], optional `consts`,
    `structs`, `externals`, `foreign_structs` = {"OutPoint": {"txid": "Txid", "vout": "u32"}} for structs of other crates,
    `tuple_structs` = names of tuple structs to be read as the tuple of their components).  Blocks with the same `area` are merged (same `rel` required): the
    area is one Lean namespace `VlsModel.Gen.Fn<area>`."""
    tgs, by = [], {}
    def add(d, origin):
        d = dict(d)
        d["fns"] = [tuple(x) for x in d.get("fns", [])]
        register_json_rules(d, origin)
        if d["area"] not in by:
            d.setdefault("consts", []); d.setdefault("structs", []); d.setdefault("externals", {}); d.setdefault("foreign_structs", {})
            d["consts"], d["structs"] = list(d["consts"]), list(d["structs"])
            d["externals"], d["foreign_structs"] = dict(d["externals"]), dict(d["foreign_structs"])
            d["tuple_structs"] = list(d.get("tuple_structs", []))
            d["fns_from"] = list(d.get("fns_from", []))
            by[d["area"]] = d; tgs.append(d)
            return
        t = by[d["area"]]
        if t["rel"] != d["rel"]:
            raise ExtractError("x_fn: %s: area %s is already bound to %s" % (origin, d["area"], t["rel"]))
        t["fns"] += [f for f in d["fns"] if f[:2] not in [g[:2] for g in t["fns"]]]
        for k in ("consts", "structs"):
            t[k] += [x for x in d.get(k, []) if x not in t[k]]
        t["externals"].update(d.get("externals", {}))
        t["foreign_structs"].update(d.get("foreign_structs", {}))
        t["tuple_structs"] += [n for n in d.get("tuple_structs", []) if n not in t["tuple_structs"]]
        t["fns_from"] += [n for n in d.get("fns_from", []) if n not in t["fns_from"]]
        if d.get("normalise"): t.setdefault("normalise", {}).update(d["normalise"])
        if d.get("views"):
            t["views"] = (t.get("views") or "") + "\n" + d["views"]
    for t in TARGETS: add(t, "TARGETS")
    for path in sorted(glob.glob(os.path.join(HERE, "fn_targets", "*.json"))):
        try:
            data = json.load(open(path))
        except ValueError as e:
            raise ExtractError("x_fn: %s: %s" % (path, e))
        for d in (data if isinstance(data, list) else [data]):
            d = dict(d)
            add(d, os.path.basename(path))
    return tgs


FIXTURE_PROP = "FIX"    # functions of harness/src/props/fn_gen_fixture.rs: differential test of the translator only


def _json_plan(tg):
    """json form of a target block (round 9, b0103): `"normalise": {"Impl::fn": [rule names]}`, `"rules": {name: [regex,
    replacement, what is trusted, count?]}` (a regex that must see several lines starts with `(?s)`; a rule name must not
    clash with a rule of RULES unless it is the same rule), `"arms"`: see translate/fn_arms.py"""
    register_json_rules(tg, "area %s" % tg["area"])
    norm = tg.get("normalise")
    return norm


def unit_for(repo, tg):
    line_map = {}
    norm = _json_plan(tg)
    import fn_arms
    # `arms` (builder b0103, translate/fn_arms.py): the dispatch function's lines are rewritten in place into one method per
    # selected arm; `arm_methods` (builder bfn, make_arm_synth above): one method per listed arm is appended to the text
    rewrite = fn_arms.compose(make_arm_synth(tg["rel"], tg["arm_methods"], line_map) if tg.get("arm_methods") else None,
                              fn_arms.make_arm_splitter(tg["rel"], tg["arms"]) if tg.get("arms") else None,
                              make_rewriter(tg["rel"], norm) if norm else None)
    u = Unit(repo, tg["rel"], "VlsModel.Gen.Fn" + tg["area"], tg.get("consts", ()), tg.get("externals", {}),
             tg.get("structs", ()), foreign_structs=tg.get("foreign_structs"), tuple_structs=tg.get("tuple_structs"),
             fn_files=tg.get("fns_from", ()),
             views=tg.get("views"), error_ctors=tg.get("error_ctors"), compact_guards=bool(tg.get("compact_guards")), any_order=bool(tg.get("any_order")),
             rewrite=rewrite)
    u.vec_types = tuple(tg.get("vec_types", ()))
    u.line_map = line_map      # synthesized methods (arms, list form): the line of the arm in the real source
    u.log_macros = tuple(tg.get("log_macros", ()))     # declared logging-only macros of the file
    u.ascribe_let_structs = tuple(tg.get("ascribe_let_structs", ()))   # (b0507) structs whose `let x = S {..}` literals get a type ascription
    u.rename_getters = bool(tg.get("rename_getters"))  # (b1012) methods named like a field of their struct get the suffix `_fn`
    u.reindent_closures = bool(tg.get("reindent_closures"))    # (b0809) see emit_m in rs2lean.py
    return u


def census(repo, tgs=None, units=None):
    """per anchor file of properties.jsonl: every `fn` item with its status
    tied (theorem) / translated (in the subset, no theorem) / not translatable (reason) / declaration"""
    tgs = tgs if tgs is not None else load_targets()
    files = []
    props_of = {}
    for line in open(os.path.join(HERE, "..", "properties.jsonl")):
        d = json.loads(line)
        for f in d["anchors"]["files"]:
            if f.endswith(".rs"):
                if f not in files: files.append(f)
                props_of.setdefault(f, []).append(d["id"])
    tied = {}
    for tg in tgs:
        tu = (units or {}).get(tg["area"])
        for tup in tg["fns"]:
            # (b0507) a target taken from a `fns_from` file of its area counts for the file that defines it
            src = getattr(tu, "fn_src", {}).get((tup[0] or None, tup[1])) if tu is not None else None
            tied.setdefault((src.rel if src is not None else tg["rel"], tup[0] or None, tup[1]), []).append((tg["area"], tup[2], tup[3]))
    out = {}
    for rel in files:
        if not os.path.exists(os.path.join(repo, rel)):
            out[rel] = {"properties": props_of[rel], "error": "file not found"}; continue
        try:
            u = Unit(repo, rel, "VlsModel.Census")
            # (round 9) the census asks "is it inside the subset with the obvious target configuration": the tuple structs of
            # the file itself are read as the tuple of their components (what a target lists under `tuple_structs`)
            u.open_tuple_structs = set(u.fi.tuple_structs)
        except (RsError, OSError) as e:
            out[rel] = {"properties": props_of[rel], "error": "cannot be indexed: %s" % e}; continue
        rows, arm_rows = [], []
        for (impl, name), k in sorted(u.fi.fns.items(), key=lambda kv: kv[1] if isinstance(kv[1], int) else 0):
            qn = (impl + "::" if impl else "") + name
            line_no = u.fi.toks[k].line if isinstance(k, int) else 0
            if (impl, name) in u.fi.decl_only:
                rows.append({"fn": qn, "line": line_no, "status": "declaration"}); continue
            # arms of a dispatching `match` translated as methods of their own (translate/fn_arms.py): one extra row per
            # declared arm, named `Impl::fn[Variant]`; the row of the function itself stays what it is
            for tg in tgs:
                sp = (tg.get("arms") or {}).get(qn) if tg["rel"] == rel else None
                for v, a in (sp["arms"].items() if sp else ()):
                    tu = (units or {}).get(tg["area"])
                    ok = tu is not None and (impl, a["fn"]) in tu.fns
                    tt = [t for t in tg["fns"] if (t[0] or None) == impl and t[1] == a["fn"]]
                    thm = tt[0][3] if tt else None
                    arm_rows.append({"fn": "%s[%s::%s]" % (qn, sp["enum"], v), "line": tu.fns[(impl, a["fn"])].line if ok else line_no, "area": tg["area"],
                                     "status": ("tied" if thm else "translated") if ok else "not translatable",
                                     **({"property": tt[0][2]} if tt else {}), **({"theorem": thm} if thm and ok else {}),
                                     **({} if ok else {"why": (tu.failed.get((impl, a["fn"])) if tu else "unit missing")})})
            ties = tied.get((rel, impl, name))
            if ties:
                # the target's own unit (externals/struct files) decides
                ok = None
                for area, prop, thm in ties:
                    tu = (units or {}).get(area)
                    ok = tu is not None and (impl, name) in tu.fns
                    rows.append({"fn": qn, "line": line_no, "area": area, "property": prop,
                                 "status": ("tied" if thm else "translated") if ok else "not translatable",
                                 **({"theorem": thm} if thm and ok else {}),
                                 **({} if ok else {"why": (tu.failed.get((impl, name)) if tu else "unit missing")})})
                continue
            try:
                f = u.try_fn(impl, name)
                why = None if f else u.failed.get((impl, name), "?")
            except Exception as e:      # a crash of the translator is a refusal, not a result
                f, why = None, "translator error: %r" % (e,)
            if f is not None:
                rows.append({"fn": qn, "line": line_no, "status": "translated"})
            else:
                why = re.sub(r"^([\w:]+: )+", "", str(why))
                rows.append({"fn": qn, "line": line_no, "status": "not translatable", "why": why[:200]})
        # (round 9) dispatch arms translated as methods of their own (target key `arm_methods`): listed per dispatch function,
        # next to the `fn` items (they are not `fn` items of the source and are not counted as such)
        arms_out = []
        for tg in tgs:
            if tg["rel"] != rel or not tg.get("arm_methods"): continue
            tu = (units or {}).get(tg["area"])
            thm_of = {(t[0] or None, t[1]): t[3] for t in tg["fns"]}
            for (impl_, fn_) in sorted(set((a["impl"], a["fn"]) for a in tg["arm_methods"])):
                k_ = u.fi.fns.get((impl_, fn_))
                total = None
                if isinstance(k_, int):
                    toks_, j_, d_ = u.fi.toks, k_, 0
                    while toks_[j_].s != "{": j_ += 1
                    e_ = j_
                    while e_ < len(toks_):
                        if toks_[e_].k != "str":
                            if toks_[e_].s == "{": d_ += 1
                            elif toks_[e_].s == "}":
                                d_ -= 1
                                if d_ == 0: break
                        e_ += 1
                    total = sum(1 for i_ in range(j_, e_ - 3) if toks_[i_].s == "Message" and toks_[i_ + 1].s == "::" and toks_[i_ + 3].s == "("
                                and any(toks_[q_].s == "=>" for q_ in range(i_ + 4, min(i_ + 12, e_))))
                lst = []
                for a in tg["arm_methods"]:
                    if (a["impl"], a["fn"]) != (impl_, fn_): continue
                    key_ = (a["impl"], "%s__%s" % (a["fn"], a["arm"]))
                    ok_ = tu is not None and key_ in tu.fns
                    lst.append({"arm": a["arm"], "status": ("tied" if thm_of.get(key_) else "translated") if ok_ else "not translatable",
                                "theorem": thm_of.get(key_), "line": (tu.fns[key_].line if ok_ else 0),
                                **({} if ok_ else {"why": (tu.failed.get(key_) if tu else "unit missing")})})
                arms_out.append({"fn": "%s::%s" % (impl_, fn_), "area": tg["area"], "arms_total": total, "arms": lst})
        rows += arm_rows
        cnt = lambda st: sum(1 for r in rows if r["status"] == st)
        out[rel] = {"properties": props_of[rel], "fns": len(rows), "tied": cnt("tied"), "translated_untied": cnt("translated"),
                    "not_translatable": cnt("not translatable"), "declarations": cnt("declaration"), "list": rows,
                    **({"dispatch_arms": arms_out} if arms_out else {})}
    return out


class Codec:
    """Lean decoder/encoder terms for the types of one unit (driver model `fngen`)"""

    def __init__(self, unit, area):
        self.u, self.area = unit, area
        self.defs = []      # Lean lines
        self.done = set()

    def lean_ty(self, t):
        u = self.u
        if t[0] == "struct":
            ops = u.opaques_of(t, [])
            return "(Fn%s.%s%s)" % (self.area, t[1], "".join(" Nat" for _ in ops))
        if t[0] == "enum":
            ops = u.opaques_of(t, []) if t[1] in u.fi.enum_data else []
            return "(Fn%s.%s%s)" % (self.area, t[1], "".join(" Nat" for _ in ops))
        if t[0] == "opaque": return "Nat"
        if t[0] == "opt": return "(Option %s)" % self.lean_ty(t[1])
        if t[0] == "vec": return "(List %s)" % self.lean_ty(t[1])
        if t[0] in ("map", "umap"): return "(List (%s × %s))" % (self.lean_ty(t[1]), self.lean_ty(t[2]))
        if t[0] in ("set", "uset"): return "(List %s)" % self.lean_ty(t[1])
        if t[0] == "tuple": return "(" + " × ".join(self.lean_ty(x) for x in t[1]) + ")"
        return u.lt(t, False)

    def named(self, t):
        name = "%s_%s" % (self.area, t[1])
        if name in self.done: return name
        self.done.add(name)
        u = self.u
        L = []
        if t[0] == "enum" and t[1] in u.fi.enum_data:
            # data-carrying enum: the variant index followed by the components
            vs = u.variants(t[1])
            ty = self.lean_ty(t)
            L.append("def dec_%s : Dec %s := fun ts => do" % (name, ty))
            L.append("  let (tag, ts) ← decNat ts")
            L.append("  match tag with")
            encs = []
            for i, (v, pl) in enumerate(vs):
                comps = [] if pl is None else (pl[1] if pl[0] == "tuple" else [x for _, x in pl[1]])
                L.append("  | %d => do" % i)
                for j, ct in enumerate(comps):
                    L.append("    let (c%d, ts) ← %s ts" % (j, self.dec(ct)))
                L.append("    pure (.%s%s, ts)" % (v, "".join(" c%d" % j for j in range(len(comps)))))
                encs.append("  | .%s%s => \"%s%s\"%s" % (v, "".join(" c%d" % j for j in range(len(comps))), v, "(" if comps else "",
                            ("".join(" ++ %s%s c%d" % ("\",\" ++ " if j else "", self.enc(ct), j) for j, ct in enumerate(comps)) + " ++ \")\"") if comps else ""))
            L.append("  | _ => none")
            L.append("def enc_%s : %s → String" % (name, ty))
            L += encs
        elif t[0] == "enum":
            vs = u.fi.enums[t[1]]
            ty = self.lean_ty(t)
            L.append("def dec_%s : Dec %s" % (name, ty))
            for i, v in enumerate(vs):
                L.append("  | \"%d\" :: r => some (.%s, r)" % (i, v))
            L.append("  | _ => none")
            L.append("def enc_%s : %s → String" % (name, ty))
            for i, v in enumerate(vs):
                L.append("  | .%s => \"%d\"" % (v, i))
        else:
            fields = [f for f, _ in u.fi.structs[t[1]] if f in u.used_fields.get(t[1], [])]
            fts = [u.struct_field(t[1], f) for f in fields]
            decs = [self.dec(x) for x in fts]
            encs = [self.enc(x) for x in fts]
            ty = self.lean_ty(t)
            L.append("def dec_%s : Dec %s := fun ts => do" % (name, ty))
            for i, d in enumerate(decs):
                L.append("  let (a%d, ts) ← %s ts" % (i, d))
            from rs2lean import lid
            L.append("  pure ({ %s }, ts)" % ", ".join("%s := a%d" % (lid(f), i) for i, f in enumerate(fields)) if fields
                     else "  pure (⟨⟩, ts)")
            L.append("def enc_%s (x : %s) : String :=" % (name, ty))
            L.append("  \"{\" ++ \" \".intercalate [%s] ++ \"}\"" % ", ".join("%s x.%s" % (e, lid(f)) for e, f in zip(encs, fields)))
        self.defs += L + [""]
        return name

    def dec(self, t):
        k = t[0]
        if k == "int": return "decNat" if t[1][0] == "u" else "decInt"
        if k == "bool": return "decBool"
        if k == "str": return "decStr"
        if k == "unit": return "decUnit"
        if k == "opaque": return "decNat"
        if k == "opt": return "(decOpt %s)" % self.dec(t[1])
        if k == "vec": return "(decList %s)" % self.dec(t[1])
        if k in ("map", "umap"): return "(decList (decPair %s %s))" % (self.dec(t[1]), self.dec(t[2]))
        if k in ("set", "uset"): return "(decList %s)" % self.dec(t[1])
        if k == "tuple":
            ds = [self.dec(x) for x in t[1]]
            r = ds[-1]
            for d in reversed(ds[:-1]): r = "(decPair %s %s)" % (d, r)
            return r
        if k in ("struct", "enum"): return "dec_" + self.named(t)
        raise RsError("no decoder for %r" % (t,))

    def enc(self, t):
        k = t[0]
        if k == "int": return "toString"
        if k == "bool": return "encBool"
        if k == "str": return "id"
        if k == "unit": return "encUnit"
        if k == "opaque": return "(toString : Nat → String)"   # pins an opaque type that only occurs in the result
        if k == "opt": return "(encOpt %s)" % self.enc(t[1])
        if k == "vec": return "(encList %s)" % self.enc(t[1])
        if k in ("map", "umap") and t[1][0] == "opaque": return "(encOmap %s)" % self.enc(t[2])   # printed sorted by key
        if k in ("map", "umap"): return "(encList (encPair %s %s))" % (self.enc(t[1]), self.enc(t[2]))
        if k in ("set", "uset"): return "(encList %s)" % self.enc(t[1])
        if k == "tuple":
            es = [self.enc(x) for x in t[1]]
            r = es[-1]
            for e in reversed(es[:-1]): r = "(encPair %s %s)" % (e, r)
            return r
        if k in ("struct", "enum"): return "enc_" + self.named(t)
        raise RsError("no encoder for %r" % (t,))


def dispatch_for(unit, area, fns, arms, defs, errall=(), filt=(), drv=None):
    """adds the `call_…` definitions of the translated functions of one unit"""
    cd = Codec(unit, area)
    calls = []
    for f in fns:
        key = "%s.%s" % (area, f.lean_name)
        const_filter = f.lean_name in filt and [n for n, _ in f.exts] == ["policy_filter_err"]
        extargs = ""
        if f.exts and (f.impl, f.name) in errall and [n for n, _ in f.exts] == ["policy_filter_err"]:
            extargs = "(fun _ => true) "
        elif f.exts and drv and all(n in drv for n, _ in f.exts):
            # `driver_externals` of the target: every external of this function is instantiated with the given Lean term
            # (e.g. the executable SHA-256 of Prim/Sha256.lean), so the differential group can run it against the real code
            extargs = "".join(drv[n] + " " for n, _ in f.exts)
        elif f.exts and not const_filter:
            arms.append('  | "%s" :: _ => "nodriver"' % key)
            continue
        ident = "call_%s_%s" % (area, f.lean_name.replace(".", "_").replace("«", "").replace("»", ""))
        L = ["def %s (ts : List String) : Option String := do" % ident]
        names = []
        if const_filter:
            L.append("  let (pf, ts) ← decBool ts")
            names.append("(fun _ => pf)")
        for i, (pn, pt) in enumerate(f.params):
            L.append("  let (a%d, ts) ← %s ts" % (i, cd.dec(pt)))
            names.append("a%d" % i)
        call = "Fn%s.%s %s%s" % (area, f.lean_name, extargs, " ".join(names))
        enc = cd.enc(f.out_ty)
        res = "encM %s (%s)" % (enc, call) if f.monadic else '"ok " ++ %s (%s)' % (enc, call)
        L.append("  match ts with")
        L.append("  | [] => some (%s)" % res)
        L.append("  | _ => none")
        calls += L + [""]
        arms.append('  | "%s" :: ts => (%s ts).getD "badargs"' % (key, ident))
    defs += cd.defs + calls


def extract(repo):
    outputs, info = {}, {}
    summary = []
    arms, ddefs, imports = [], [], []
    snippets = []
    import test_rs2lean
    bad = test_rs2lean.run()
    if bad:
        raise ExtractError("x_fn: self-test of the translator failed (translate/test_rs2lean.py): " + "; ".join(bad[:5]))
    tgs = load_targets()
    units = {}
    for tg in tgs:
        try:
            u = unit_for(repo, tg)
        except (RsError, OSError) as e:
            raise ExtractError("x_fn: cannot index %s: %s" % (tg["rel"], e))
        units[tg["area"]] = u
        for tup in tg["fns"]:
            impl, name, prop, thm = tup[:4]
            impl = impl or None
            f = u.try_fn(impl, name)
            qn = (impl + "::" if impl else "") + name
            ent = info.setdefault(prop, {"facts": {"fn_gen": {}}, "obligations": []})
            if thm is not None:
                # (round 9) target key `props_module`: the tying theorems of a file that several properties anchor live in
                # a module of their own (`Props/HandlerFn.lean`, `Props/ApproverFn.lean`; bin/extra_modules.json makes
                # `bin/check` build and audit it with those properties) instead of `Props/<property>Fn.lean`
                pmod = tg.get("props_module") or (prop + "Fn")
                pf = os.path.join(HERE, "..", "lean", "VlsModel", "Props", pmod + ".lean")
                if not os.path.exists(pf) or not re.search(r"\btheorem\s+" + re.escape(thm) + r"\b", open(pf).read()):
                    raise ExtractError("x_fn: target %s names theorem %s which is not in Props/%s.lean" % (qn, thm, pmod))
            if f is None and prop == FIXTURE_PROP:
                raise ExtractError("x_fn: translator fixture %s is NOT TRANSLATED: %s" % (qn, u.failed.get((impl, name))))
            if f is None:
                ent["facts"]["fn_gen"][qn] = {"file": tg["rel"], "area": tg["area"], "translated": False, "why": u.failed.get((impl, name)),
                                             "tied_by": thm, "props_module": tg.get("props_module") or (prop + "Fn")}
                ent["obligations"].append("Gen.Fn%s: %s is NOT TRANSLATED (outside the subset): %s breaks" % (tg["area"], qn, thm))
                continue
            ent["facts"]["fn_gen"][qn] = {
                "file": tg["rel"], "area": tg["area"], "line": f.line, "lean": "VlsModel.Gen.Fn%s.%s" % (tg["area"], f.lean_name),
                "monadic": f.monadic, "externals": ["%s : %s" % x for x in f.exts], "dropped": f.dropped,
                "calls": sorted(set(f.callees)), "sha1": hashlib.sha1(f.text.encode()).hexdigest()[:12],
                "tied_by": thm, "props_module": tg.get("props_module") or (prop + "Fn")}
            if thm:
                ent["obligations"].append("Gen.Fn%s.%s = hand-written model (theorem %s)" % (tg["area"], f.lean_name, thm))
            if len(tup) > 4 and tup[4] == "snippet":
                # verbatim source text of a private free function, compiled into the harness (differential test)
                lines = u.fi.src.split("\n")[f.line - 1:f.end_line]
                txt = "\n".join(lines)
                txt = re.sub(r"^(\s*)(pub(\s*\([^)]*\))?\s+)?fn\b", r"\1pub fn", txt, count=1)
                snippets.append("// %s:%d\n%s\n" % (tg["rel"], f.line, txt))
        outputs["Fn%s.lean" % tg["area"]] = u.emit()
        imports.append("import VlsModel.Gen.Fn%s" % tg["area"])
        filt = set((t[0] + "." if t[0] else "") + t[1] for t in tg["fns"] if len(t) > 4 and t[4] == "filter")
        dispatch_for(u, tg["area"], [u.fns[k] for k in u.order], arms, ddefs,
                     errall={(t[0] or None, t[1]) for t in tg["fns"] if len(t) > 4 and t[4] == "errall"}, filt=filt,
                     drv=tg.get("driver_externals"))
    outputs["FnDispatch.lean"] = "\n".join(
        ["import VlsModel.Drv.FnCodec", "import VlsModel.Prim.Sha256"] + imports +
        ["/-! Dispatch table of the driver model `fngen`: `<Area>.<function> <args…>` -> outcome of the generated",
         "    definition (codec: Drv/FnCodec.lean).  Opaque type parameters are instantiated with `Nat`. -/",
         "namespace VlsModel.Gen.FnDispatch", "open VlsModel VlsModel.Gen VlsModel.Drv.FnCodec", ""] + ddefs +
        ["def dispatch : List String → String"] + arms + ['  | _ => "unknown-function"', "",
         "end VlsModel.Gen.FnDispatch"]) + "\n"
    snip = ("// GENERATED by translate/x_fn.py on every run of bin/check: verbatim source text of private free functions\n"
            "// of /repo that are translated by rs2lean.py, compiled here so that harness/src/props/fn_gen.rs can run the\n"
            "// real text against the generated Lean definition.  Do not edit by hand.\n"
            "#![allow(dead_code, unused_variables)]\n\n" + "\n".join(snippets))
    # census of the anchor files: which functions are derived from the source, which are only modelled by hand
    cen = census(repo, tgs, units)
    for rel, c in cen.items():
        for prop in c["properties"]:
            ent = info.setdefault(prop, {"facts": {"fn_gen": {}}, "obligations": []})
            ent["facts"].setdefault("fn_census", {})[rel] = {k: v for k, v in c.items() if k != "properties"}
    info.pop(FIXTURE_PROP, None)
    sp = os.path.join(HERE, "..", "harness", "src", "props", "fn_gen_snippets.rs")
    if not os.path.exists(sp) or open(sp).read() != snip:
        with open(sp, "w") as fh:
            fh.write(snip)
    return outputs, info
