"""C16: the version bookkeeping of RedbKVVStore (`put`, `put_with_version`, `put_batch`, `get_version`,
vls-persist/src/kvv/redb.rs) translated into Lean by rs2lean.py -> lean/VlsModel/Gen/FnRedb.lean.

The functions interleave the version logic with calls of the redb crate.  Before translation the *redb idioms* are
rewritten, line by line, into operations on a plain map (the table of the database) — this table of rewrites is the
model of the redb API that is trusted here (and validated by the real-file harness of C16):

  database            `db: Database`                                  the committed table  `Mutex<BTreeMap<String, Vec<u8>>>`
  begin_write/_read   `let tx = self.db.begin_*().unwrap();`           `tx` = a private copy of the committed table
  open_table          `let [mut] table = tx.open_table(TABLE).unwrap();` the handle *is* the transaction's copy (`table.` -> `tx.`)
  get                 `t.get(key).expect("failed to get").unwrap()`    map lookup, panic when absent (I/O errors not modelled)
  value               `existing.value()`                                the stored bytes
  insert              `t.insert(key, vv.as_slice()).expect(..)`         map insert into the transaction's copy
  commit              `tx.commit().unwrap();`                           the copy becomes the committed table
  abort / drop        `tx.abort().unwrap();` / `drop(table);`           the copy is discarded
  encode_vv/decode_vv `Self::encode_vv(version, value)`                 explicit parameters `ext_encode_vv`, `ext_decode_vv`
                                                                        (generated and characterised separately: Gen/KvvBytesFn.lean)
  iteration           `table.iter().unwrap()`, `item.expect(..)`, `key.value()`   the entries of the table in key order

`load_versions` is the block of `new_store` that fills the version cache ("load the current versions"), framed as a
function of the committed table: the frame (`let mut versions = BTreeMap::new()` … the store is built with `versions`)
is checked against the source text.

Everything else (the comparisons, `continue`, the mismatch flag, `staged_versions`, where the version cache is read and
written) is the source text.  Fail closed: every rewrite must apply the expected number of times, no `db`/`tx`/`table`
call may remain unrewritten (rs2lean refuses unknown methods), and a function that leaves the rs2lean subset is not
emitted, so the theorem of Props/C16Gen.lean that mentions it stops building."""
import os, re, hashlib
from rustsrc import ExtractError
from rs2lean import Unit, RsError

HERE = os.path.dirname(os.path.abspath(__file__))
REL = "vls-persist/src/kvv/redb.rs"
FNS = [("load_versions", "C16_gen_redb_load_versions"), ("put", "C16_gen_redb_put"), ("put_with_version", "C16_gen_redb_put_with_version"),
       ("put_batch", "C16_gen_redb_put_batch"), ("get_version", "C16_gen_redb_get_version")]

# (regex, replacement, {function: expected number of applications})
RULES = [
    (r"^\s*#\[instrument\((?:[^()]|\([^()]*\))*\)\]\s*$", "", None),
    (r"let tx = self\.db\.begin_write\(\)\.unwrap\(\);", "let mut tx = db.clone();", {"put_with_version": 1, "put_batch": 1}),
    (r"let tx = self\.db\.begin_read\(\)\.unwrap\(\);", "let tx = db.clone();", {"put_with_version": 1}),
    (r"let (mut )?table = tx\.open_table\(TABLE\)\.unwrap\(\);", "", {"put_with_version": 2, "put_batch": 1}),
    (r"\btable\.get\(key\)\.expect\(\"failed to get\"\)\.unwrap\(\)", "tx.get(key).unwrap()", {"put_with_version": 1, "put_batch": 1}),
    (r"\bexisting\.value\(\)", "existing", {"put_with_version": 1, "put_batch": 1}),
    (r"\btable\.insert\(key, vv\.as_slice\(\)\)\.expect\(\"failed to insert\"\);", "tx.insert(key.to_string(), vv.clone());",
     {"put_with_version": 1, "put_batch": 1}),
    (r"tx\.commit\(\)\.unwrap\(\);", "*db = tx.clone();", {"put_with_version": 1, "put_batch": 1}),
    (r"tx\.abort\(\)\.unwrap\(\);", "", {"put_batch": 1}),
    (r"drop\(table\);", "", {"put_batch": 1}),
    (r"Self::encode_vv\(", "encode_vv(", {"put_with_version": 1, "put_batch": 1}),
]


def fn_text(src, name):
    m = re.search(r"^(\s*(?:#\[[^\n]*\]\s*\n\s*)*)fn %s\(" % re.escape(name), src[src.index("impl KVVStore for RedbKVVStore"):], re.M)
    if not m: raise ExtractError("x_redb: fn %s not found in impl KVVStore for RedbKVVStore" % name)
    base = src.index("impl KVVStore for RedbKVVStore")
    i = base + m.start()
    j = src.index("{", base + m.end())
    d, k = 0, j
    while True:
        c = src[k]
        if c == '"':
            k += 1
            while src[k] != '"':
                k += 2 if src[k] == "\\" else 1
        elif c == "{": d += 1
        elif c == "}":
            d -= 1
            if d == 0: break
        k += 1
    # attributes in front of the fn (multi-line #[instrument(..)]) are dropped: take from `fn`
    return src[base + m.end() - len("fn %s(" % name):k + 1], src[:base + m.end()].count("\n") + 1


def rewrite(name, text):
    out = text
    for rx, rep, counts in RULES:
        out, n = re.subn(rx, rep, out, flags=re.M)
        want = 0 if counts is None else counts.get(name, 0)
        if counts is not None and n != want:
            raise ExtractError("x_redb: %s: redb idiom /%s/ applies %d times, expected %d (the source changed shape: "
                               "review the idiom table)" % (name, rx, n, want))
    if re.search(r"\b(table|self\.db)\b", out):
        raise ExtractError("x_redb: %s: an unrewritten use of `table`/`self.db` remains" % name)
    # the committed table behind a lock, like `versions`
    out = re.sub(r"\{", "{\n        let mut db = self.db.lock().unwrap();", out, count=1)
    return out


LOAD_RULES = [
    (r"let tx = db\.begin_read\(\)\.unwrap\(\);", "let tx = table0.clone();", 1),
    (r"let table = tx\.open_table\(TABLE\)\.unwrap\(\);", "", 1),
    (r"\btable\.iter\(\)\.unwrap\(\)", "tx.iter()", 1),
    (r"\bitem\.expect\(\"failed to iterate\"\)", "item", 1),
    (r"\bvv\.value\(\)", "vv", 1),
    (r"\bkey\.value\(\)\.to_string\(\)", "key.to_string()", 1),
    (r"Self::decode_vv\(", "decode_vv(", 1),
]


def load_versions_fn(src):
    """the block of `new_store` that loads the version cache from the table, as a function of the committed table"""
    a = src.index("pub fn new_store")
    b = src.index("fn migrate_v1_to_v2")
    body = src[a:b]
    if len(re.findall(r"let mut versions = BTreeMap::new\(\);", body)) != 1:
        raise ExtractError("x_redb: new_store: `let mut versions = BTreeMap::new();` expected exactly once")
    if len(re.findall(r"Self \{ db, versions: Mutex::new\(versions\), signer_id \}", body)) != 1:
        raise ExtractError("x_redb: new_store: the loaded `versions` must be what the store is built with")
    i = body.index("let tx = db.begin_read().unwrap();")
    j = body.index("for item in table.iter().unwrap() {", i)
    k, d = body.index("{", j), 0
    while True:
        if body[k] == "{": d += 1
        elif body[k] == "}":
            d -= 1
            if d == 0: break
        k += 1
    blk = body[i:k + 1]
    between = re.sub(r"//[^\n]*", "", body[body.index("let mut versions = BTreeMap::new();") + 40:i])
    if re.search(r"\bversions\b", between):
        raise ExtractError("x_redb: new_store: `versions` is used before the loading block")
    for rx, rep, want in LOAD_RULES:
        blk, n = re.subn(rx, rep, blk)
        if n != want: raise ExtractError("x_redb: new_store loading block: idiom /%s/ applies %d times, expected %d" % (rx, n, want))
    if re.search(r"\b(table|db)\b", blk): raise ExtractError("x_redb: new_store loading block: unrewritten use of table/db")
    line = src[:a + i].count("\n") + 1
    return ("    fn load_versions(table0: BTreeMap<String, Vec<u8>>) -> BTreeMap<String, u64> {\n"
            "        let mut versions: BTreeMap<String, u64> = BTreeMap::new();\n        " + blk + "\n        versions\n    }"), line


def extract(repo):
    src = open(os.path.join(repo, REL)).read()
    pf = os.path.join(HERE, "..", "lean", "VlsModel", "Props", "C16Gen.lean")
    ptxt = open(pf).read() if os.path.exists(pf) else ""
    parts, lines = [], {}
    for name, thm in FNS:
        if not re.search(r"\btheorem\s+" + re.escape(thm) + r"\b", ptxt) and not os.environ.get("X_HMAC_NOCHECK"):
            raise ExtractError("x_redb: target %s names theorem %s which is not in Props/C16Gen.lean" % (name, thm))
        if name == "load_versions":
            t, line = load_versions_fn(src)
            lines[name] = line
            parts.append(t)
            continue
        t, line = fn_text(src, name)
        lines[name] = line
        parts.append("    " + rewrite(name, t))
    shim = ("use alloc::collections::BTreeMap;\n"
            "pub struct KVV(pub String, pub (u64, Vec<u8>));\n"
            "pub struct RedbKVVStore {\n    db: Mutex<BTreeMap<String, Vec<u8>>>,\n    versions: Mutex<BTreeMap<String, u64>>,\n}\n"
            "impl RedbKVVStore {\n" + "\n\n".join(parts) + "\n}\n")
    facts, obligations = {}, []
    try:
        u = Unit(repo, REL + " (redb idioms rewritten by x_redb.py)", "VlsModel.Gen.FnRedb", (),
                 {"encode_vv": {"params": ["u64", "Vec<u8>"], "ret": "Vec<u8>"},
                  "decode_vv": {"params": ["&[u8]"], "ret": "(u64, Vec<u8>)"}}, (), src=shim)
    except (RsError, OSError) as e:
        raise ExtractError("x_redb: cannot index the rewritten source: %s" % e)
    for name, thm in FNS:
        f = u.try_fn("RedbKVVStore", name)
        qn = "RedbKVVStore::" + name
        if f is None:
            facts[qn] = {"file": REL, "translated": False, "why": u.failed.get(("RedbKVVStore", name))}
            obligations.append("Gen.FnRedb: %s is NOT TRANSLATED (%s): %s breaks" % (qn, u.failed.get(("RedbKVVStore", name)), thm))
        else:
            facts[qn] = {"file": REL, "line": lines[name], "lean": "VlsModel.Gen.FnRedb.%s" % f.lean_name,
                         "externals": ["%s : %s" % x for x in f.exts], "dropped": f.dropped,
                         "sha1": hashlib.sha1(f.text.encode()).hexdigest()[:12], "tied_by": thm,
                         "redb_idioms": "rewritten by translate/x_redb.py (trusted table of rewrites)"}
            obligations.append("Gen.FnRedb.%s = hand-written model KVV.Redb (theorem %s)" % (f.lean_name, thm))
    return {"FnRedb.lean": u.emit()}, {"C16": {"facts": {"redb_fn_gen": facts}, "obligations": obligations}}
