"""C11 / C12: field census of the conversions between in-memory state and its persisted form.

What is read from the sources (all fail-closed: a struct, function, literal or call that is not found in
exactly the expected syntax raises):

  NodeState            vls-core/src/node.rs           struct fields
  NodeStateEntry       vls-persist/src/model.rs       struct fields; `impl From<&NodeState> for NodeStateEntry`
                                                      (which `state.<field>` every entry field is computed from)
  allowlist entry      vls-persist/src/kvv.rs         `update_node_allowlist` / `get_node_allowlist`
                       vls-core/src/node.rs           `Node::update_allowlist` (what is handed to the persister)
  restore of the node  vls-persist/src/kvv.rs         `get_nodes`: the arguments of `NodeState::restore(..)`
                       vls-core/src/node.rs           `NodeState::restore` (parameters -> fields),
                                                      `Node::new_full` + `NodeState::with_log_prefix`
                                                      (what the running node keeps of the restored state)
  EnforcementState     vls-core/src/policy/validator.rs  struct fields, derive(Serialize, Deserialize), serde(skip)
  ChannelEntry         vls-persist/src/model.rs       struct fields; `update_channel` / `new_channel` (kvv.rs);
                                                      `impl From<ChannelEntry> for CoreChannelEntry`;
                       vls-core/src/node.rs           `Channel { .. }` / `ChannelStub { .. }` of `new_from_persistence`
  ChainTrackerEntry    vls-persist/src/model.rs       struct fields; `impl From<&ChainTracker<ChainMonitor>>`;
                                                      `into_tracker` (arguments of `ChainTracker::restore`);
                       vls-core/src/chain/tracker.rs  `ChainTracker::restore` (parameters -> fields)

Output `Gen/PersistConv.lean`: one enumeration per struct (so that a renamed or removed field breaks the
hand-written lists of Props/C11.lean at elaboration), and per conversion pair

  save : persisted field -> in-memory fields it is computed from
  load : in-memory field of the restored object -> persisted fields it is computed from

A dependency, not an equality: `payments -> preimages` is a projection.  The theorems (`C11_gen_census_*`) state that
every field the durable view of C11 (and C12: the velocity controls) names goes out and comes back, and list
exactly the fields that do not.
"""
import re
from rustsrc import read, strip_comments, ExtractError

NODE = "vls-core/src/node.rs"
MODEL = "vls-persist/src/model.rs"
KVV = "vls-persist/src/kvv.rs"
VALIDATOR = "vls-core/src/policy/validator.rs"
TRACKER = "vls-core/src/chain/tracker.rs"
CHANNEL = "vls-core/src/channel.rs"


def load_src(repo, rel):
    """comments stripped; whitespace in front of a `.` removed (method chains broken over lines)"""
    return re.sub(r"\s+\.(?=[A-Za-z_])", ".", strip_comments(read(repo, rel)))


# ---- small syntactic helpers ------------------------------------------------------------------------

def balanced(src, i, open_ch="{", close_ch="}"):
    """src[i] == open_ch; returns the index of the matching close_ch"""
    assert src[i] == open_ch
    depth, j = 0, i
    while j < len(src):
        if src[j] == open_ch:
            depth += 1
        elif src[j] == close_ch:
            depth -= 1
            if depth == 0:
                return j
        j += 1
    raise ExtractError("unbalanced " + open_ch + close_ch)


def split_top(s, sep=","):
    """split at separators that are outside (), [], {}, <> (a `>` preceded by `-` or `=` is an arrow)"""
    out, depth, cur = [], 0, []
    for k, ch in enumerate(s):
        if ch in "([{":
            depth += 1
        elif ch in ")]}":
            depth -= 1
        elif ch == "<" and k > 0 and (s[k - 1].isalnum() or s[k - 1] in "_:"):
            depth += 1
        elif ch == ">" and k > 0 and s[k - 1] not in "-=" and depth > 0 and "<" in "".join(cur):
            depth -= 1
        if ch == sep and depth == 0:
            out.append("".join(cur))
            cur = []
        else:
            cur.append(ch)
    if "".join(cur).strip():
        out.append("".join(cur))
    return [x.strip() for x in out]


def struct_fields(src, name):
    """(field names in declaration order, text of the attributes in front of the struct, {field: its attributes})"""
    m = re.search(r"((?:#\[[^\]]*\]\s*)*)pub\s+struct\s+" + re.escape(name) + r"\s*(?:<[^{;]*>)?\s*\{", src)
    if not m:
        raise ExtractError("struct not found: " + name)
    i = m.end() - 1
    body = src[i + 1:balanced(src, i)]
    fields, attrs, pending = [], {}, []
    for part in split_top(body):
        while True:
            a = re.match(r"\s*(#\[(?:[^\[\]]|\[[^\]]*\])*\])", part)
            if not a:
                break
            pending.append(a.group(1))
            part = part[a.end():]
        f = re.match(r"\s*(?:pub(?:\([^)]*\))?\s+)?(\w+)\s*:", part)
        if not f:
            if part.strip():
                raise ExtractError(f"struct {name}: cannot read field `{part.strip()[:60]}`")
            continue
        fields.append(f.group(1))
        attrs[f.group(1)] = " ".join(pending)
        pending = []
    if not fields:
        raise ExtractError("struct without named fields: " + name)
    return fields, m.group(1), attrs


def fn_item(src, header_regex):
    """(parameter names without self, body) of the first function whose header matches"""
    m = re.search(header_regex, src)
    if not m:
        raise ExtractError("function not found: " + header_regex)
    p = src.find("(", m.end() - 1 if src[m.end() - 1] == "(" else m.end())
    q = balanced(src, p, "(", ")")
    params = []
    for part in split_top(src[p + 1:q]):
        if re.fullmatch(r"&?\s*(mut\s+)?self", part) or not part:
            continue
        pm = re.match(r"(?:mut\s+)?(\w+)\s*:", part)
        if not pm:
            raise ExtractError("cannot read parameter `%s` of %s" % (part, header_regex))
        params.append(pm.group(1))
    b = src.find("{", q)
    return params, src[b + 1:balanced(src, b)]


def impl_body(src, header_regex):
    m = re.search(header_regex, src)
    if not m:
        raise ExtractError("impl not found: " + header_regex)
    b = src.find("{", m.end() - 1)
    return src[b + 1:balanced(src, b)]


def literal(body, name, which=0):
    """[(field, expression)] of the `which`-th struct literal `name { .. }` in body (shorthand `f` = (f, f))"""
    hits = [m for m in re.finditer(r"(?<![\w:])" + re.escape(name) + r"\s*\{", body)]
    if len(hits) <= which:
        raise ExtractError("struct literal not found: " + name)
    i = hits[which].end() - 1
    inner = body[i + 1:balanced(body, i)]
    out = []
    for part in split_top(inner):
        if not part:
            continue
        m = re.match(r"(\w+)\s*:(?!:)\s*(.*)$", part, re.S)
        if m:
            out.append((m.group(1), m.group(2)))
        elif re.fullmatch(r"\w+", part):
            out.append((part, part))
        else:
            raise ExtractError(f"literal {name}: cannot read `{part[:60]}`")
    return out


def lets(body):
    """{variable: expression} of every `let [mut] x [: T] = e;` / `let (a, b) = e;` (tuple: both names -> e)"""
    out = {}
    for m in re.finditer(r"\blet\s+(?:mut\s+)?(\w+|\([^)]*\))\s*(?::[^=;]+)?=(?!=)", body):
        # the initialiser ends at the `;` at nesting depth 0
        j, depth = m.end(), 0
        while j < len(body) and not (body[j] == ";" and depth == 0):
            if body[j] in "([{":
                depth += 1
            elif body[j] in ")]}":
                depth -= 1
            j += 1
        expr = body[m.end():j]
        pat = m.group(1)
        names = re.findall(r"\w+", pat) if pat.startswith("(") else [pat]
        for n in names:
            if n not in ("mut", "_"):
                out.setdefault(n, expr)
    # `match y { .. Some(x) => ..}`: x is bound to (the content of) y
    for m in re.finditer(r"\bmatch\s+(\w+)\s*\{", body):
        i = m.end() - 1
        inner = body[i + 1:balanced(body, i)]
        for a in re.finditer(r"\bSome\(\s*(\w+)\s*\)\s*=>", inner):
            out.setdefault(a.group(1), m.group(1))
    return out


def call_args(body, callee_regex):
    m = re.search(callee_regex + r"\s*\(", body)
    if not m:
        raise ExtractError("call not found: " + callee_regex)
    p = m.end() - 1
    return split_top(body[p + 1:balanced(body, p, "(", ")")])


def roots(expr, env, root_regex, params=(), depth=0):
    """the root references an expression depends on: matches of root_regex (group 1), bare identifiers that are
    parameters, and - transitively - the initialisers of let-bound identifiers"""
    if depth > 12:
        raise ExtractError("let chain too deep: " + expr[:60])
    out = []
    for m in re.finditer(root_regex, expr):
        if m.group(1) not in out:
            out.append(m.group(1))
    stripped = re.sub(root_regex, " ", expr)
    stripped = re.sub(r"\|[^|]*\|", " ", stripped)          # closure parameters
    for ident in re.findall(r"(?<![\w.:])([a-z_]\w*)\b(?!\s*(?:\(|::|!))", stripped):
        if ident in params:
            if ident not in out:
                out.append(ident)
        elif ident in env and env[ident].strip() != ident:
            for r in roots(env[ident], {k: v for k, v in env.items() if k != ident}, root_regex, params, depth + 1):
                if r not in out:
                    out.append(r)
    return out


# ---- the conversions ----------------------------------------------------------------------------

def node_census(repo):
    node = load_src(repo, NODE)
    model = load_src(repo, MODEL)
    kvv = load_src(repo, KVV)
    mem_fields, _, _ = struct_fields(node, "NodeState")
    ent_fields, ent_derive, _ = struct_fields(model, "NodeStateEntry")
    if "Serialize" not in ent_derive or "Deserialize" not in ent_derive:
        raise ExtractError("NodeStateEntry no longer derives Serialize/Deserialize")
    # save: From<&NodeState> for NodeStateEntry
    body = impl_body(model, r"impl\s+From<&NodeState>\s+for\s+NodeStateEntry\s*\{")
    params, fbody = fn_item(body, r"\bfn\s+from\s*\(")
    if params != ["state"]:
        raise ExtractError("From<&NodeState>::from: unexpected parameters " + str(params))
    env = lets(fbody)
    save = {}
    lit = literal(fbody, "NodeStateEntry")
    if [f for f, _ in lit] != ent_fields:
        raise ExtractError("NodeStateEntry literal does not list the struct's fields in order")
    for f, e in lit:
        save[f] = roots(e, env, r"\bstate\.(\w+)")
        for r in save[f]:
            if r not in mem_fields:
                raise ExtractError(f"NodeStateEntry.{f} reads state.{r}, which is not a field of NodeState")
    # update_node really writes that entry
    _, un = fn_item(kvv, r"\bfn\s+update_node\s*\(")
    if not re.search(r"let\s+entry\s*:\s*NodeStateEntry\s*=\s*state\.into\(\)", un) or "ser_value(&entry)" not in un or "self.put(" not in un:
        raise ExtractError("KVVPersister::update_node no longer writes `NodeStateEntry::from(state)`")
    # the allowlist entry: Node::update_allowlist -> update_node_allowlist -> AllowlistItemEntry { allowlist }
    _, ua = fn_item(node, r"\bfn\s+update_allowlist\s*\(")
    args = call_args(ua, r"\.update_node_allowlist")
    if len(args) != 2:
        raise ExtractError("update_node_allowlist: expected two arguments")
    al_roots = roots(args[1], lets(ua), r"\bstate\.(\w+)")
    if al_roots != ["allowlist"]:
        raise ExtractError("Node::update_allowlist hands %s to the persister, expected state.allowlist" % al_roots)
    p_una, una = fn_item(kvv, r"\bfn\s+update_node_allowlist\s*\(")
    lit = literal(una, "AllowlistItemEntry")
    if lit != [("allowlist", "allowlist")] or "allowlist" not in p_una:
        raise ExtractError("update_node_allowlist no longer stores its argument as AllowlistItemEntry.allowlist")
    save["allowlist_item"] = ["allowlist"]
    _, gna = fn_item(kvv, r"\bfn\s+get_node_allowlist\s*\(")
    if not re.search(r"Ok\(\s*entry\.allowlist\s*\)", gna):
        raise ExtractError("get_node_allowlist no longer returns AllowlistItemEntry.allowlist")
    # load, stage 1: get_nodes -> arguments of NodeState::restore
    _, gn = fn_item(kvv, r"\bfn\s+get_nodes\s*\(")
    genv = lets(gn)
    rargs = call_args(gn, r"NodeState::restore")
    rparams, rbody = fn_item(node, r"\bpub\s+fn\s+restore\s*\((?=\s*invoices_v)")
    if len(rargs) != len(rparams):
        raise ExtractError("get_nodes passes %d arguments to NodeState::restore, which takes %d" % (len(rargs), len(rparams)))
    arg_src = {}
    for p, a in zip(rparams, rargs):
        rs = roots(a, genv, r"\bstate_entry\.(\w+)")
        if re.search(r"get_node_allowlist\s*\(", a) or (a in genv and re.search(r"get_node_allowlist\s*\(", genv[a])):
            rs = rs + ["allowlist_item"]
        for r in rs:
            if r != "allowlist_item" and r not in ent_fields:
                raise ExtractError(f"get_nodes reads state_entry.{r}, which is not a field of NodeStateEntry")
        arg_src[p] = rs
    # stage 2: NodeState::restore: parameters -> fields
    renv = lets(rbody)
    lit = literal(rbody, "NodeState")
    if sorted(f for f, _ in lit) != sorted(mem_fields):
        raise ExtractError("NodeState::restore does not initialise exactly the fields of NodeState")
    restored = {}
    for f, e in lit:
        ps = roots(e, renv, r"(?!x)x(x)", params=rparams)
        restored[f] = [s for p in ps for s in arg_src[p]]
    # stage 3: Node::new_full -> NodeState::with_log_prefix: what the running node keeps
    wparams, wbody = fn_item(node, r"\bfn\s+with_log_prefix\s*\(")
    lit = literal(wbody, "NodeState")
    if sorted(f for f, _ in lit) != sorted(mem_fields):
        raise ExtractError("NodeState::with_log_prefix does not initialise exactly the fields of NodeState")
    _, nf = fn_item(node, r"\bfn\s+new_full\s*\(")
    nenv = lets(nf)
    wargs = call_args(nf, r"state\.with_log_prefix")
    if len(wargs) != len(wparams):
        raise ExtractError("new_full: with_log_prefix argument count")
    warg_src = {p: roots(a, nenv, r"\bstate\.(\w+)") for p, a in zip(wparams, wargs)}
    for p, rs in warg_src.items():
        for r in rs:
            if r not in mem_fields:
                raise ExtractError(f"new_full reads state.{r}, which is not a field of NodeState")
    load = {}
    for f, e in lit:
        src_fields = roots(e, {}, r"\bself\.(\w+)", params=wparams)
        acc = []
        for s in src_fields:
            via = warg_src[s] if s in wparams else [s]
            for g in via:
                for x in restored[g]:
                    if x not in acc:
                        acc.append(x)
        load[f] = acc
    # the restored velocity controls go through update_spec(policy spec) (kept unless the geometry changed)
    vc_update = sorted(set(re.findall(r"(\w+)\.update_spec\(\s*&policy\.(\w+)\(\)\s*\)", nf)))
    return mem_fields, ent_fields + ["allowlist_item"], save, load, vc_update


def velocity_census(repo):
    """the persisted copy of a velocity control: model.rs `VelocityControl` and its two `From` impls"""
    core = load_src(repo, "vls-core/src/util/velocity.rs")
    model = load_src(repo, MODEL)
    mem_fields, _, _ = struct_fields(core, "VelocityControl")
    ent_fields, derive, attrs = struct_fields(model, "VelocityControl")
    if "Serialize" not in derive or "Deserialize" not in derive or any("skip" in a for a in attrs.values()):
        raise ExtractError("model.rs VelocityControl: not plainly serialized any more")
    body = impl_body(model, r"impl\s+From<CoreVelocityControl>\s+for\s+VelocityControl\s*\{")
    _, fb = fn_item(body, r"\bfn\s+from\s*\(")
    lit = literal(fb, "VelocityControl")
    if [f for f, _ in lit] != ent_fields:
        raise ExtractError("From<CoreVelocityControl>: literal does not list the entry's fields in order")
    save = {f: roots(e, lets(fb), r"\bv\.(\w+)") for f, e in lit}
    body = impl_body(model, r"impl\s+From<VelocityControl>\s+for\s+CoreVelocityControl\s*\{")
    _, fb = fn_item(body, r"\bfn\s+from\s*\(")
    lit = literal(fb, "CoreVelocityControl")
    if sorted(f for f, _ in lit) != sorted(mem_fields):
        raise ExtractError("From<VelocityControl> for CoreVelocityControl does not initialise exactly the control's fields")
    load = {f: roots(e, lets(fb), r"\bv\.(\w+)") for f, e in lit}
    for tab, dom in ((save, mem_fields), (load, ent_fields)):
        for f, rs in tab.items():
            for r in rs:
                if r not in dom:
                    raise ExtractError(f"velocity conversion: unknown field {r}")
    return mem_fields, ent_fields, save, load


def enforcement_census(repo):
    src = load_src(repo, VALIDATOR)
    fields, derive, attrs = struct_fields(src, "EnforcementState")
    whole = "Serialize" in derive and "Deserialize" in derive
    ser = {f: whole and not re.search(r"serde\s*\([^)]*\b(skip|skip_serializing|skip_deserializing)\b", attrs[f]) for f in fields}
    return fields, ser


def channel_census(repo):
    node = load_src(repo, NODE)
    model = load_src(repo, MODEL)
    kvv = load_src(repo, KVV)
    chan = load_src(repo, CHANNEL)
    mem_fields, _, _ = struct_fields(chan, "Channel")
    stub_fields, _, _ = struct_fields(chan, "ChannelStub")
    ent_fields, derive, _ = struct_fields(model, "ChannelEntry")
    if "Serialize" not in derive or "Deserialize" not in derive:
        raise ExtractError("ChannelEntry no longer derives Serialize/Deserialize")
    # save (ready channel): update_channel
    _, uc = fn_item(kvv, r"\bfn\s+update_channel\s*\(")
    env = lets(uc)
    lit = literal(uc, "ChannelEntry")
    if [f for f, _ in lit] != ent_fields:
        raise ExtractError("update_channel: ChannelEntry literal does not list the struct's fields in order")
    save = {f: roots(e, env, r"\bchannel\.(\w+)") for f, e in lit}
    for f, rs in save.items():
        for r in rs:
            if r not in mem_fields:
                raise ExtractError(f"update_channel reads channel.{r}, which is not a field of Channel")
    # save (stub): new_channel
    _, nc = fn_item(kvv, r"\bfn\s+new_channel\s*\(")
    lit = literal(nc, "ChannelEntry")
    stub_save = {f: roots(e, lets(nc), r"\bstub\.(\w+)") for f, e in lit}
    # Channel::persist hands the channel itself to update_channel
    _, cp = fn_item(chan, r"\bfn\s+persist\s*\(")
    if not re.search(r"\.update_channel\(\s*&node_id\s*,\s*&?self\s*\)", cp):
        raise ExtractError("Channel::persist no longer calls update_channel(&node_id, &self)")
    # load: From<ChannelEntry> for CoreChannelEntry is the identity on field names
    body = impl_body(model, r"impl\s+From<ChannelEntry>\s+for\s+CoreChannelEntry\s*\{")
    _, fb = fn_item(body, r"\bfn\s+from\s*\(")
    for f, e in literal(fb, "CoreChannelEntry"):
        if roots(e, {}, r"\be\.(\w+)") != [f]:
            raise ExtractError(f"From<ChannelEntry> for CoreChannelEntry: field {f} is not copied from e.{f}")
    # ... and new_from_persistence builds Channel / ChannelStub from it
    _, nfp = fn_item(node, r"\bpub\s+fn\s+new_from_persistence\s*\(")
    nenv = lets(nfp)
    load = {}
    lit = literal(nfp, "Channel")
    if sorted(f for f, _ in lit) != sorted(mem_fields):
        raise ExtractError("new_from_persistence does not initialise exactly the fields of Channel")
    for f, e in lit:
        load[f] = [r for r in roots(e, nenv, r"\bchannel_entry\.(\w+)") if r in ent_fields]
    stub_load = {}
    lit = literal(nfp, "ChannelStub")
    if sorted(f for f, _ in lit) != sorted(stub_fields):
        raise ExtractError("new_from_persistence does not initialise exactly the fields of ChannelStub")
    for f, e in lit:
        stub_load[f] = [r for r in roots(e, nenv, r"\bchannel_entry\.(\w+)") if r in ent_fields]
    return mem_fields, stub_fields, ent_fields, save, load, stub_save, stub_load


def tracker_census(repo):
    model = load_src(repo, MODEL)
    trk = load_src(repo, TRACKER)
    node = load_src(repo, NODE)
    mem_fields, _, _ = struct_fields(trk, "ChainTracker")
    ent_fields, derive, _ = struct_fields(model, "ChainTrackerEntry")
    if "Serialize" not in derive or "Deserialize" not in derive:
        raise ExtractError("ChainTrackerEntry no longer derives Serialize/Deserialize")
    body = impl_body(model, r"impl\s+From<&ChainTracker<ChainMonitor>>\s+for\s+ChainTrackerEntry\s*\{")
    _, fb = fn_item(body, r"\bfn\s+from\s*\(")
    env = lets(fb)
    lit = literal(fb, "ChainTrackerEntry")
    if sorted(f for f, _ in lit) != sorted(ent_fields):
        raise ExtractError("From<&ChainTracker>: ChainTrackerEntry literal does not list the struct's fields")
    save = {}
    for f, e in lit:
        rs = roots(e, env, r"\bt\.(\w+)")
        save[f] = rs
        for r in rs:
            if r not in mem_fields:
                raise ExtractError(f"ChainTrackerEntry.{f} reads t.{r}, which is not a field of ChainTracker")
    # load: into_tracker -> ChainTracker::restore(args) -> fields; listeners come back through restore_listener
    _, it = fn_item(model, r"\bpub\s+fn\s+into_tracker\s*\(")
    ienv = lets(it)
    args = call_args(it, r"ChainTracker::restore")
    rparams, rbody = fn_item(trk, r"\bpub\s+fn\s+restore\s*\((?=\s*headers)")
    if len(args) != len(rparams):
        raise ExtractError("into_tracker: argument count of ChainTracker::restore")
    arg_src = {p: [r for r in roots(a, ienv, r"\bself\.(\w+)") if r in ent_fields] for p, a in zip(rparams, args)}
    lit = literal(rbody, "ChainTracker")
    if sorted(f for f, _ in lit) != sorted(mem_fields):
        raise ExtractError("ChainTracker::restore does not initialise exactly the fields of ChainTracker")
    load = {}
    for f, e in lit:
        ps = roots(e, {}, r"(?!x)x(x)", params=rparams)
        load[f] = [s for p in ps for s in arg_src[p]]
    # the listeners: returned next to the tracker and re-attached by new_from_persistence
    m = re.search(r"\(\s*ChainTracker::restore\s*\(", it)
    tail = it[balanced(it, it.find("(", m.end() - 1), "(", ")") + 1:] if m else ""
    second = re.match(r"\s*,\s*(\w+)\s*,?\s*\)", tail)
    if not second:
        raise ExtractError("into_tracker no longer returns (tracker, listener entries)")
    lroots = [r for r in roots(second.group(1), ienv, r"\bself\.(\w+)") if r in ent_fields]
    _, nfp = fn_item(node, r"\bpub\s+fn\s+new_from_persistence\s*\(")
    if not re.search(r"let\s*\(\s*mut\s+tracker\s*,\s*listener_entries\s*\)", nfp) or "restore_listener(" not in nfp \
            or not re.search(r"listeners\.remove\(\s*&funding_outpoint\s*\)", nfp):
        raise ExtractError("new_from_persistence no longer re-attaches the persisted listeners (restore_listener)")
    load["listeners"] = load.get("listeners", []) + lroots
    return mem_fields, ent_fields, save, load


# ---- Lean output ----------------------------------------------------------------------------------

def lean_enum(name, ctors, doc):
    cs = [c + "_" if c in ("id", "from", "to", "at", "in", "do", "end", "then", "else", "if", "fun", "let", "have", "show", "type") else c for c in ctors]
    out = [f"/-- {doc} -/", f"inductive {name}", "  | " + " | ".join(cs), "  deriving DecidableEq, Repr", "",
           f"def {name}.all : List {name} := [" + ", ".join("." + c for c in cs) + "]", ""]
    return out, dict(zip(ctors, cs))


def lean_table(name, dom, cod, dom_map, cod_map, table, doc):
    out = [f"/-- {doc} -/", f"def {name} : {dom} → List {cod}"]
    for k, c in dom_map.items():
        out.append(f"  | .{c} => [" + ", ".join("." + cod_map[x] for x in table.get(k, [])) + "]")
    out.append("")
    return out


def extract(repo):
    n_mem, n_ent, n_save, n_load, vc_update = node_census(repo)
    e_fields, e_ser = enforcement_census(repo)
    v_mem, v_ent, v_save, v_load = velocity_census(repo)
    c_mem, s_mem, c_ent, c_save, c_load, s_save, s_load = channel_census(repo)
    t_mem, t_ent, t_save, t_load = tracker_census(repo)
    L = ["/- Field census of the persist conversions (vls-persist/src/model.rs, kvv.rs; vls-core/src/node.rs,",
         "   policy/validator.rs, chain/tracker.rs), extracted from the current sources.",
         "   save : persisted field -> in-memory fields it is computed from;",
         "   load : field of the restored object -> persisted fields it is computed from. -/",
         "namespace VlsModel.Gen.PersistConv", ""]
    o, nm = lean_enum("NodeStateF", n_mem, "fields of `NodeState` (node.rs), declaration order"); L += o
    o, ne = lean_enum("NodeEntryF", n_ent, "fields of `NodeStateEntry` (model.rs) and the separate allowlist entry (`AllowlistItemEntry.allowlist`)"); L += o
    L += lean_table("nodeSave", "NodeEntryF", "NodeStateF", ne, nm, n_save,
                    "`From<&NodeState> for NodeStateEntry` (written by `update_node`) and `Node::update_allowlist` → `update_node_allowlist`")
    L += lean_table("nodeLoad", "NodeStateF", "NodeEntryF", nm, ne, n_load,
                    "`get_nodes` → `NodeState::restore` → `Node::new_full` / `NodeState::with_log_prefix`: what the restarted node holds")
    L.append("/-- the restored controls that `Node::new_full` passes through `update_spec(policy spec)` -/")
    L.append("def velocityUpdateSpec : List NodeStateF := [" + ", ".join(
        "." + nm[{"global_velocity_control": "velocity_control"}.get(v, v)] for v, _ in vc_update
        if {"global_velocity_control": "velocity_control"}.get(v, v) in nm) + "]")
    L.append("")
    o, vm = lean_enum("VelocityF", v_mem, "fields of `VelocityControl` (util/velocity.rs)"); L += o
    o, ve = lean_enum("VelocityEntryF", v_ent, "fields of the persisted `VelocityControl` (model.rs)"); L += o
    L += lean_table("velocitySave", "VelocityEntryF", "VelocityF", ve, vm, v_save, "`impl From<CoreVelocityControl> for VelocityControl` (model.rs)")
    L += lean_table("velocityLoad", "VelocityF", "VelocityEntryF", vm, ve, v_load, "`impl From<VelocityControl> for CoreVelocityControl` (model.rs)")
    o, em = lean_enum("EnforcementF", e_fields, "fields of `EnforcementState` (validator.rs), declaration order"); L += o
    L.append("/-- the field is part of the serialized form (the struct derives Serialize and Deserialize, no `serde(skip)`) -/")
    L.append("def enforcementSerialized : EnforcementF → Bool")
    for f in e_fields:
        L.append(f"  | .{em[f]} => {'true' if e_ser[f] else 'false'}")
    L.append("")
    o, cm = lean_enum("ChannelF", c_mem, "fields of `Channel` (channel.rs)"); L += o
    o, sm = lean_enum("StubF", s_mem, "fields of `ChannelStub` (channel.rs)"); L += o
    o, ce = lean_enum("ChannelEntryF", c_ent, "fields of `ChannelEntry` (model.rs)"); L += o
    L += lean_table("channelSave", "ChannelEntryF", "ChannelF", ce, cm, c_save, "`KVVPersister::update_channel` (called by `Channel::persist`)")
    L += lean_table("channelLoad", "ChannelF", "ChannelEntryF", cm, ce, c_load, "`get_node_channels` → `From<ChannelEntry>` → `Channel { .. }` of `Node::new_from_persistence`")
    L += lean_table("stubSave", "ChannelEntryF", "StubF", ce, sm, s_save, "`KVVPersister::new_channel`")
    L += lean_table("stubLoad", "StubF", "ChannelEntryF", sm, ce, s_load, "`ChannelStub { .. }` of `Node::new_from_persistence`")
    o, tm = lean_enum("TrackerF", t_mem, "fields of `ChainTracker` (chain/tracker.rs)"); L += o
    o, te = lean_enum("TrackerEntryF", t_ent, "fields of `ChainTrackerEntry` (model.rs)"); L += o
    L += lean_table("trackerSave", "TrackerEntryF", "TrackerF", te, tm, t_save, "`From<&ChainTracker<ChainMonitor>> for ChainTrackerEntry` (written by `update_tracker`)")
    L += lean_table("trackerLoad", "TrackerF", "TrackerEntryF", tm, te, t_load,
                    "`ChainTrackerEntry::into_tracker` → `ChainTracker::restore`; listeners re-attached by `new_from_persistence` (`restore_listener`)")
    L.append("end VlsModel.Gen.PersistConv")
    facts = {
        "persist_census": {
            "node_save": n_save, "node_load": n_load, "velocity_update_spec": [list(x) for x in vc_update],
            "enforcement_serialized": e_ser,
            "channel_save": c_save, "channel_load": c_load, "stub_save": s_save, "stub_load": s_load,
            "tracker_save": t_save, "tracker_load": t_load,
        }
    }
    obl11 = ["Gen.PersistConv: every field the durable view names is written to its entry and read back into the same field "
             "(theorems C11_gen_census_node, C11_gen_census_enforcement, C11_gen_census_channel, C11_gen_census_tracker); "
             "the fields that do not come back are exactly the listed ones (C11_gen_census_node_lost, ..)"]
    obl12 = ["Gen.PersistConv: both velocity controls are written with the node entry, read back and passed through update_spec "
             "(theorem C12_gen_census_velocity)"]
    return {"PersistConv.lean": "\n".join(L) + "\n"}, {
        "C11": {"facts": facts, "obligations": obl11},
        "C12": {"facts": {"persist_census_velocity": {"node_entry": {k: n_save[k] for k in n_save if "velocity" in k},
                                                       "control_save": v_save, "control_load": v_load,
                                                       "update_spec_in_new_full": [list(x) for x in vc_update]}},
                "obligations": obl12},
    }


if __name__ == "__main__":
    import sys
    out, info = extract(sys.argv[1] if len(sys.argv) > 1 else "/repo")
    print(out["PersistConv.lean"])
