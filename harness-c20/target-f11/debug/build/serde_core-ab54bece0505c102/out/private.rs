#[doc(hidden)]
pub mod __private228 {
    #[doc(hidden)]
    pub use crate::private::*;
}
