#[doc(hidden)]
pub mod __private228 {
    #[doc(hidden)]
    pub use crate::private::*;
}
use serde_core::__private228 as serde_core_private;
