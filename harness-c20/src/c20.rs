//! C20 — concurrent requests neither deadlock nor break per-channel atomicity.
//!
//! A case is one *scenario* (a node with a few channels and one short request list per thread) run
//! under ONE shuttle schedule (scheduler kind + seed), on the real `Node` with every vls-core mutex
//! replaced by a shuttle mutex (hook H1) and the lock-event tap (hook H2):
//!
//!   setup <nchan> <stub 0|1>
//!   req <tid> <kind> [arg]         (several per thread = run in program order by that thread)
//!   run <random|pct> <seed>
//!   ev <tid> <w|a|r> <class> [i]   the lock trace observed for that schedule (want/acquired/released)
//!   ev <tid> f                     thread tid finished all its requests
//!   end
//!
//! The `ev` lines are produced by `gen_case` by running the implementation once (gen_case "may consult
//! the implementation"); `exec_case` re-executes the scenario with the same scheduler seed and prints
//! `trace-differs` at `end` if the observed trace is not the embedded one.  The Lean model `locks`
//! replays the trace on its interleaving semantics: every acquisition must be possible in the model
//! (mutual exclusion), every nested acquisition must be an edge of the generated lock table for the
//! request kind of that thread, a channel request must hold its slot in one critical section, and
//! the final verdict (`done` / `deadlock <wait-for cycle>`) must equal shuttle's.
//!
//! Monitors on the implementation (independent of the model):
//!   * `deadlock:<classes> via <request kinds>` — shuttle reported a deadlock; the cycle is read off the
//!     tap log (locks held / wanted by the blocked threads);
//!   * `non-serializable-outcome` — the run completed but (replies, final state) equals no sequential
//!     order of the same requests (all orders respecting each thread's program order are executed);
//!   * `lock-order:slot-descending` — a slot lock acquired while holding a slot with a larger id;
//!   * `panic` — a request panicked under some schedule but under no sequential order.
use crate::common::*;
use lightning_signer::bitcoin;
use lightning_signer::bitcoin::hashes::Hash;
use lightning_signer::bitcoin::secp256k1::ecdsa::Signature;
use lightning_signer::bitcoin::Txid;
use lightning_signer::channel::{ChannelId, ChannelSlot};
use lightning_signer::util::test_utils::key::make_test_pubkey;
use lightning_signer::lightning::sign::ChannelSigner;
use lightning_signer::lightning::types::payment::PaymentHash;
use lightning_signer::node::{Node, NodeMonitor, SpendType};
use lightning_signer::util::test_utils::*;
use lightning_signer::verif_sync::{tap_enable, tap_mark, tap_take, LockEventKind};
use std::cell::RefCell;
use std::collections::{BTreeMap, BTreeSet, HashMap};
use std::panic::{catch_unwind, AssertUnwindSafe};
use std::sync::Arc;

#[derive(Clone, Debug, PartialEq, Eq)]
pub enum Req {
    /// with_channel: validate holder commitment 1 and revoke commitment 0 (read-modify-write)
    Validate(usize),
    /// with_channel: sign the holder commitment (reads the channel, takes node state)
    SignHolder(usize),
    /// with_channel: sign the next counterparty commitment (read-modify-write of the counterparty side)
    SignCp(usize),
    /// with_channel: sign the next counterparty commitment with one outgoing HTLC of PAY_SAT for the
    /// payment hash approved during setup (read-modify-write of the node ledger: validate..apply)
    PayCp(usize),
    /// like PayCp through the phase-1 entry point (transaction + witness scripts supplied by the caller)
    PayCp1(usize),
    /// with_channel: validate holder commitment 1 carrying one outgoing HTLC of PAY_SAT for the approved
    /// hash and revoke commitment 0 (the revocation re-validates and applies the payment)
    PayHv(usize),
    /// handler level, protocol version 4 (before RevokeCommitmentTx existed): one ValidateCommitmentTx2
    /// request validates holder commitment 1 (content variant 0 or 1) AND revokes commitment 0
    HVal(usize, u8),
    /// a holder commitment validation that the policy refuses (absurd fee): refusals are routine
    Refused(usize),
    /// sign the sweep of a delayed to-us output (`with_channel(|chan| chan.sign_delayed_sweep(..))`, exactly what the
    /// arms SignDelayedPaymentToUs / SignAnyDelayedPaymentToUs do): the validator checks the destination against
    /// the wallet (variant 0: a wallet address) or the allowlist (variant 1: a foreign script, refused) - node_state
    /// through the validator's `wallet` argument while the slot is held
    Sweep(usize, u8),
    /// with_channel_base: read a per-commitment point
    Point(usize),
    Forget(usize),
    Balance,
    Chaninfo,
    Heartbeat,
    Keysend(u8),
    Invoice(u8),
    Allow(u8),
    NewChan(u64),
    /// forget the channel that new_channel(dbid) creates
    ForgetDb(u64),
    Onchain,
    /// setup_channel on the stub (makes it a ready channel with its own monitor)
    SetupChan,
    /// unchecked_sign_onchain_tx of the wallet transaction
    SignOnchain,
    /// tracker.add_block with a block that contains a spend of channel c's funding outpoint
    AddBlock(usize),
    /// tracker.remove_block of the last block added by an AddBlock request
    RmBlock,
    /// Node::persist_all (maintenance API: writes node, channels, tracker and allowlist to the store)
    PersistAll,
    /// protocol level, through a real RootHandler with a VelocityApprover: the PreapproveKeysend arm
    /// (has_payment, approver, add_keysend) for payment hash [x; 32]
    RPreKeysend(u8),
    /// the PreapproveInvoice arm (has_payment, allowlist, approver, add_invoice) for prepared invoice x
    RPreInvoice(u8),
    /// the NewChannel / ForgetChannel arms for (PEER, dbid)
    RNewChan(u64),
    RForget(u64),
    /// the TipInfo arm (height and tip hash read in one tracker section)
    RTipInfo,
    /// the GetHeartbeat arm (the signed heartbeat carries the wall-clock time: the reply is reduced to its
    /// length, the node-level `heartbeat` request compares height and tip)
    RHeartbeat,
    /// ChannelHandler (protocol version 4) arm SignLocalCommitmentTx2 for holder commitment 0
    HSignLocal(usize),
    /// (round 10) ChannelHandler arm GetPerCommitmentPoint2 (with_channel_base) for commitment 1
    HPoint(usize),
    /// (round 10) ChannelHandler arm CheckFutureSecret (with_channel; commitment 0, a constant foreign secret)
    HFuture(usize),
}

impl Req {
    /// request kind in the generated lock table
    pub fn kind(&self) -> &'static str {
        match self {
            Req::Validate(_) | Req::SignHolder(_) | Req::SignCp(_) | Req::PayCp(_) | Req::PayCp1(_) | Req::PayHv(_) | Req::HVal(_, _) | Req::Refused(_) | Req::Sweep(_, _) => "channel_request",
            Req::Point(_) => "channel_base_request",
            Req::Forget(_) | Req::ForgetDb(_) => "forget_channel",
            Req::Balance => "channel_balance",
            Req::Chaninfo => "chaninfo",
            Req::Heartbeat => "get_heartbeat",
            Req::Keysend(_) => "add_keysend",
            Req::Invoice(_) => "add_invoice",
            Req::Allow(_) => "add_allowlist",
            Req::NewChan(_) => "new_channel",
            Req::Onchain => "check_onchain_tx",
            Req::SetupChan => "setup_channel",
            Req::SignOnchain => "unchecked_sign_onchain_tx",
            Req::AddBlock(_) => "add_block",
            Req::RmBlock => "remove_block",
            Req::PersistAll => "persist_all",
            Req::RPreKeysend(_) => "add_keysend",
            Req::RPreInvoice(_) => "add_invoice",
            Req::RNewChan(_) => "new_channel",
            Req::RForget(_) => "forget_channel",
            Req::RTipInfo | Req::RHeartbeat => "get_heartbeat",
            Req::HSignLocal(_) | Req::HFuture(_) => "channel_request",
            Req::HPoint(_) => "channel_base_request",
        }
    }
    pub fn line(&self, tid: usize) -> String {
        match self {
            Req::Validate(c) => format!("req {} validate {}", tid, c),
            Req::SignHolder(c) => format!("req {} signholder {}", tid, c),
            Req::SignCp(c) => format!("req {} signcp {}", tid, c),
            Req::PayCp(c) => format!("req {} paycp {}", tid, c),
            Req::PayCp1(c) => format!("req {} paycp1 {}", tid, c),
            Req::PayHv(c) => format!("req {} payhv {}", tid, c),
            Req::HVal(c, v) => format!("req {} hval{} {}", tid, v, c),
            Req::Refused(c) => format!("req {} refused {}", tid, c),
            Req::Sweep(c, v) => format!("req {} sweep{} {}", tid, v, c),
            Req::Point(c) => format!("req {} point {}", tid, c),
            Req::Forget(c) => format!("req {} forget {}", tid, c),
            Req::Balance => format!("req {} balance", tid),
            Req::Chaninfo => format!("req {} chaninfo", tid),
            Req::Heartbeat => format!("req {} heartbeat", tid),
            Req::Keysend(x) => format!("req {} keysend {}", tid, x),
            Req::Invoice(x) => format!("req {} invoice {}", tid, x),
            Req::Allow(x) => format!("req {} allow {}", tid, x),
            Req::NewChan(d) => format!("req {} newchan {}", tid, d),
            Req::ForgetDb(d) => format!("req {} forgetdb {}", tid, d),
            Req::Onchain => format!("req {} onchain", tid),
            Req::SetupChan => format!("req {} setupchan", tid),
            Req::SignOnchain => format!("req {} signonchain", tid),
            Req::AddBlock(c) => format!("req {} addblock {}", tid, c),
            Req::RmBlock => format!("req {} rmblock", tid),
            Req::PersistAll => format!("req {} persistall", tid),
            Req::RPreKeysend(x) => format!("req {} rprekeysend {}", tid, x),
            Req::RPreInvoice(x) => format!("req {} rpreinvoice {}", tid, x),
            Req::RNewChan(d) => format!("req {} rnewchan {}", tid, d),
            Req::RForget(d) => format!("req {} rforget {}", tid, d),
            Req::RTipInfo => format!("req {} rtipinfo", tid),
            Req::RHeartbeat => format!("req {} rheartbeat", tid),
            Req::HSignLocal(c) => format!("req {} hsignlocal {}", tid, c),
            Req::HPoint(c) => format!("req {} hpoint {}", tid, c),
            Req::HFuture(c) => format!("req {} hfuture {}", tid, c),
        }
    }
    pub fn parse(toks: &[&str]) -> Option<(usize, Req)> {
        let tid: usize = toks.get(1)?.parse().ok()?;
        let arg = || -> Option<u64> { toks.get(3)?.parse().ok() };
        let r = match *toks.get(2)? {
            "validate" => Req::Validate(arg()? as usize),
            "signholder" => Req::SignHolder(arg()? as usize),
            "signcp" => Req::SignCp(arg()? as usize),
            "paycp" => Req::PayCp(arg()? as usize),
            "paycp1" => Req::PayCp1(arg()? as usize),
            "payhv" => Req::PayHv(arg()? as usize),
            "hval0" => Req::HVal(arg()? as usize, 0),
            "hval1" => Req::HVal(arg()? as usize, 1),
            "refused" => Req::Refused(arg()? as usize),
            "sweep0" => Req::Sweep(arg()? as usize, 0),
            "sweep1" => Req::Sweep(arg()? as usize, 1),
            "point" => Req::Point(arg()? as usize),
            "forget" => Req::Forget(arg()? as usize),
            "balance" => Req::Balance,
            "chaninfo" => Req::Chaninfo,
            "heartbeat" => Req::Heartbeat,
            "keysend" => Req::Keysend(arg()? as u8),
            "invoice" => Req::Invoice(arg()? as u8),
            "allow" => Req::Allow(arg()? as u8),
            "newchan" => Req::NewChan(arg()?),
            "forgetdb" => Req::ForgetDb(arg()?),
            "onchain" => Req::Onchain,
            "setupchan" => Req::SetupChan,
            "signonchain" => Req::SignOnchain,
            "addblock" => Req::AddBlock(arg()? as usize),
            "rmblock" => Req::RmBlock,
            "persistall" => Req::PersistAll,
            "rprekeysend" => Req::RPreKeysend(arg()? as u8),
            "rpreinvoice" => Req::RPreInvoice(arg()? as u8),
            "rnewchan" => Req::RNewChan(arg()?),
            "rforget" => Req::RForget(arg()?),
            "rtipinfo" => Req::RTipInfo,
            "rheartbeat" => Req::RHeartbeat,
            "hsignlocal" => Req::HSignLocal(arg()? as usize),
            "hpoint" => Req::HPoint(arg()? as usize),
            "hfuture" => Req::HFuture(arg()? as usize),
            _ => return None,
        };
        Some((tid, r))
    }
}

#[derive(Clone, Debug, Default, PartialEq, Eq)]
pub struct Scenario {
    pub nchan: usize,
    pub stub: bool,
    /// per thread: its requests in program order
    pub threads: Vec<Vec<Req>>,
}

#[derive(Clone, Copy, Debug, PartialEq, Eq)]
pub enum Sched {
    Random,
    Pct,
    /// deterministic single-preemption schedule: the seed encodes (first thread, point kind, index):
    /// thread `first` runs alone up to its k-th switch point (k-th lock release, or k-th switch point
    /// of any kind), then the other threads run until they finish or block, then `first` continues
    Preempt,
}

pub fn preempt_code(first: usize, all_points: bool, at: usize) -> u64 {
    (first as u64) * 100_000 + if all_points { 50_000 } else { 0 } + at as u64
}

struct PreemptScheduler {
    first_task: usize,
    first_name: String,
    at: usize,
    all_points: bool,
    phase: u8,
    count: usize,
    main_blocked: bool,
    executed: bool,
    points: Arc<std::sync::atomic::AtomicUsize>,
    drained: Arc<std::sync::Mutex<Vec<lightning_signer::verif_sync::LockEvent>>>,
    active: Arc<std::sync::atomic::AtomicBool>,
}

impl shuttle::scheduler::Scheduler for PreemptScheduler {
    fn new_execution(&mut self) -> Option<shuttle::scheduler::Schedule> {
        if self.executed {
            None
        } else {
            self.executed = true;
            Some(shuttle::scheduler::Schedule::new(0))
        }
    }
    fn next_task(
        &mut self,
        runnable: &[shuttle::scheduler::TaskId],
        current: Option<shuttle::scheduler::TaskId>,
        _is_yielding: bool,
    ) -> Option<shuttle::scheduler::TaskId> {
        use std::sync::atomic::Ordering;
        let ids: Vec<usize> = runnable.iter().map(|t| usize::from(*t)).collect();
        if self.active.load(Ordering::SeqCst) {
            let evs = tap_take();
            self.drained.lock().unwrap().extend(evs);
        }
        if !self.main_blocked {
            if ids.contains(&0) {
                return Some(0.into());
            }
            self.main_blocked = true;
        }
        let a = self.first_task;
        if self.phase == 0 {
            if current.map(usize::from) == Some(a) && ids.contains(&a) {
                let is_point = self.all_points || {
                    let d = self.drained.lock().unwrap();
                    d.iter().rev().find(|e| e.thread == self.first_name).map(|e| e.kind == LockEventKind::Released).unwrap_or(false)
                };
                if is_point {
                    if self.count == self.at {
                        self.phase = 1;
                    }
                    self.count += 1;
                    self.points.store(self.count, Ordering::SeqCst);
                }
            }
            if self.phase == 0 && ids.contains(&a) {
                return Some(a.into());
            }
        }
        let pick = ids
            .iter()
            .copied()
            .filter(|i| *i != 0 && *i != a)
            .min()
            .or_else(|| if ids.contains(&a) { Some(a) } else { None })
            .unwrap_or(ids[0]);
        Some(pick.into())
    }
    fn next_u64(&mut self) -> u64 {
        0
    }
}

/// one lock event with the lock already classified
#[derive(Clone, Debug, PartialEq, Eq, serde::Serialize, serde::Deserialize)]
pub struct Ev {
    pub tid: usize,
    /// 'w' want, 'a' acquired, 'r' released, 'f' thread finished
    pub k: char,
    pub class: String,
}

impl Ev {
    fn line(&self) -> String {
        if self.k == 'f' {
            format!("ev {} f", self.tid)
        } else {
            format!("ev {} {} {}", self.tid, self.k, self.class)
        }
    }
}

#[derive(Clone, Debug, Default, serde::Serialize, serde::Deserialize)]
pub struct RunResult {
    /// all threads joined
    pub completed: bool,
    /// shuttle's panic text if the execution did not complete
    pub failure: Option<String>,
    /// (tid, index in thread, canonical reply)
    pub replies: Vec<(usize, usize, String)>,
    pub final_state: String,
    /// every write that reached the store, per key, in order
    pub store_log: String,
    pub trace: Vec<Ev>,
    /// Preempt scheduler: number of switch points of the first thread that were counted
    pub points: usize,
    /// per thread and request index: held->acquired class pairs observed (class level)
    pub req_edges: Vec<(usize, usize, String, String)>,
}

struct World {
    /// the node's clock (advances on every read once the requests start)
    clock: Arc<SteppingClock>,
    /// the signed invoices of the `invoice x` requests
    invoices: Vec<lightning_signer::invoice::Invoice>,
    /// the harness-side store (what a restart would read back)
    store: Arc<TrackingPersister>,
    node_ctx: TestNodeContext,
    chans: Vec<TestChannelContext>,
    /// prepared commitment 1 with counterparty signatures, per channel
    commits: Vec<Option<(TestCommitmentTxContext, Signature, Vec<Signature>)>>,
    /// a second, different content for commitment 1 (other balance split), per channel
    commits_b: Vec<Option<(TestCommitmentTxContext, Signature, Vec<Signature>)>>,
    /// real ChannelHandlers negotiated at protocol version 4, per channel
    handlers: Vec<Option<vls_protocol_signer::handler::ChannelHandler>>,
    /// prepared commitment 1 with one outgoing HTLC for the approved payment hash, per channel
    pay_commits: Vec<Option<(TestCommitmentTxContext, Signature, Vec<Signature>)>>,
    onchain: (bitcoin::Transaction, TestFundingTxContext),
    /// the stub's context (for setup_channel)
    stub: Option<TestChannelContext>,
    /// blocks added by AddBlock requests (std mutex: harness bookkeeping, not a lock of the signer)
    blocks: std::sync::Mutex<Vec<bitcoin::Block>>,
    coinbase_ctr: std::sync::atomic::AtomicU32,
    /// a real RootHandler (protocol version 4) whose approver is a VelocityApprover over a refusing
    /// delegate, and that approver (its velocity is part of the final state)
    root: Option<(vls_protocol_signer::handler::RootHandler, Arc<RootApprover>)>,
}

/// a clock that never moves and has no lock
pub struct FixedClock(std::time::Duration);
impl lightning_signer::SendSync for FixedClock {}
impl lightning_signer::util::clock::Clock for FixedClock {
    fn now(&self) -> std::time::Duration {
        self.0
    }
}

type RootApprover =vls_protocol_signer::approver::VelocityApprover<vls_protocol_signer::approver::NegativeApprover>;

fn is_root_req(q: &Req) -> bool {
    matches!(q, Req::RPreKeysend(_) | Req::RPreInvoice(_) | Req::RNewChan(_) | Req::RForget(_) | Req::RTipInfo | Req::RHeartbeat)
}

/// a RootHandler on the node with a velocity approver (its own constant clock: the approver's windows do
/// not depend on how many times the node's clock was read)
fn root_handler(node: &Arc<Node>) -> Option<(vls_protocol_signer::handler::RootHandler, Arc<RootApprover>)> {
    use lightning_signer::util::velocity::{VelocityControl, VelocityControlIntervalType, VelocityControlSpec};
    use vls_protocol::msgs::{self, Message};
    use vls_protocol_signer::handler::{InitHandler, RootHandler};
    // (ManualClock keeps its time behind a mutex of the signer's kind: a constant clock has no lock)
    let clock = Arc::new(FixedClock(std::time::Duration::from_secs(1_700_000_000)));
    let control = VelocityControl::new(VelocityControlSpec { limit_msat: 1_000_000_000, interval_type: VelocityControlIntervalType::Hourly });
    let appr = Arc::new(RootApprover::new(clock, control, vls_protocol_signer::approver::NegativeApprover()));
    let mut init = InitHandler::new(0, node.clone(), appr.clone(), 4);
    let m = msgs::HsmdInit {
        key_version: vls_protocol::model::Bip32KeyVersion { pubkey_version: 0, privkey_version: 0 },
        chain_params: lightning_signer::bitcoin::BlockHash::all_zeros(),
        encryption_key: None,
        dev_privkey: None,
        dev_bip32_seed: None,
        dev_channel_secrets: None,
        dev_channel_secrets_shaseed: None,
        hsm_wire_min_version: 2,
        hsm_wire_max_version: 4,
    };
    let (done, _) = init.handle(Message::HsmdInit(m)).ok()?;
    if !done {
        return None;
    }
    let root: RootHandler = init.into();
    Some((root, appr))
}

fn root_handle(w: &World, msg: vls_protocol::msgs::Message) -> String {
    use vls_protocol_signer::handler::Handler;
    match &w.root {
        None => "noroot".into(),
        Some((root, _)) => match root.handle(msg) {
            Ok(reply) => {
                let v = reply.as_vec();
                format!("ok {}", &hex::encode(&v)[..80.min(v.len() * 2)])
            }
            Err(e) => format!("err:{:?}", e).chars().take(140).collect(),
        },
    }
}

fn mk_tx(inputs: Vec<bitcoin::OutPoint>, tag: u32) -> bitcoin::Transaction {
    use bitcoin::absolute::LockTime;
    use bitcoin::transaction::Version;
    bitcoin::Transaction {
        version: Version::non_standard(0),
        lock_time: LockTime::from_consensus(tag),
        input: inputs
            .into_iter()
            .map(|previous_output| bitcoin::TxIn {
                previous_output,
                script_sig: Default::default(),
                sequence: bitcoin::Sequence::ZERO,
                witness: bitcoin::Witness::default(),
            })
            .collect(),
        output: vec![bitcoin::TxOut { value: bitcoin::Amount::from_sat(tag as u64), script_pubkey: bitcoin::ScriptBuf::new() }],
    }
}

fn coinbase(n: u32) -> bitcoin::Transaction {
    let mut t = mk_tx(vec![], 400_000 + n);
    t.output[0].value = Default::default();
    t
}

fn funding_tx(nn: usize) -> bitcoin::Transaction {
    mk_tx(vec![bitcoin::OutPoint { txid: Txid::from_slice(&[0xA0u8.wrapping_add(nn as u8); 32]).unwrap(), vout: 0 }], 1000 + nn as u32)
}

/// add a block with the given transactions to the node's tracker (caller = the block source)
fn add_block_with(
    w_node: &Arc<Node>,
    txs: Vec<bitcoin::Transaction>,
    book: Option<&std::sync::Mutex<Vec<bitcoin::Block>>>,
) -> (bitcoin::Block, String) {
    use lightning_signer::txoo::proof::TxoProof;
    let mut tracker = w_node.get_tracker();
    // everything the block source decides (coinbase tag, bookkeeping of added blocks) happens while it
    // holds the tracker, as one step with the chain update: the harness adds no shared state of its own
    // whose order could differ from the chain's
    let h = tracker.height();
    let mut all = vec![coinbase(h + 1)];
    all.extend(txs);
    let block = make_block(tracker.tip().0, all);
    let tip = tracker.tip().clone();
    let proof = TxoProof::prove_unchecked(&block, &tip.1, h + 1);
    let r = tracker.add_block(block.header, proof);
    if r.is_ok() {
        if let Some(b) = book {
            b.lock().unwrap().push(block.clone());
        }
    }
    (block, match r { Ok(()) => "ok".into(), Err(e) => format!("err:{:?}", e) })
}

/// A persister without a lock of the signer's kind that keeps the set of stored channel ids and, like
/// the real stores, refuses to create a channel entry that already exists (so a lookup/insert race of
/// `new_channel` shows up as the "channel was in storage but not in memory" panic of the node).
pub struct TrackingPersister {
    channels: std::sync::Mutex<BTreeSet<Vec<u8>>>,
    /// the writes per stored key, in the order they reached the store (key: node / allowlist /
    /// tracker / chan:<oid>); the last one is what a restart would read back
    writes: std::sync::Mutex<BTreeMap<String, Vec<String>>>,
}

impl TrackingPersister {
    fn record(&self, key: String, rec: String) {
        self.writes.lock().unwrap().entry(key).or_default().push(rec);
    }
    /// canonical stored state: the last record of every key
    pub fn stored(&self) -> String {
        let w = self.writes.lock().unwrap();
        w.iter().map(|(k, v)| format!("{}={}", k, v.last().cloned().unwrap_or_default())).collect::<Vec<_>>().join("; ")
    }
    /// the whole write log (for violation descriptions)
    pub fn log(&self) -> String {
        let w = self.writes.lock().unwrap();
        w.iter().map(|(k, v)| format!("{}: {}", k, v.join(" -> "))).collect::<Vec<_>>().join(" | ")
    }
}

fn node_record(state: &lightning_signer::node::NodeState) -> String {
    let mut inv: Vec<String> = state.invoices.keys().map(|h| hex::encode(&h.0[..2])).collect();
    inv.sort();
    let mut pay: Vec<String> = state
        .payments
        .iter()
        .map(|(h, p)| format!("{}:out{}:in{}", hex::encode(&h.0[..2]), p.outgoing.values().sum::<u64>(), p.incoming.values().sum::<u64>()))
        .collect();
    pay.sort();
    format!("hwm{} inv{:?} pay{:?}", state.dbid_high_water_mark, inv, pay)
}

impl lightning_signer::SendSync for TrackingPersister {}

mod tracking {
    use super::{node_record, TrackingPersister};
    use lightning_signer::bitcoin::secp256k1::PublicKey;
    use lightning_signer::chain::tracker::ChainTracker;
    use lightning_signer::channel::{Channel, ChannelId, ChannelStub};
    use lightning_signer::monitor::ChainMonitor;
    use lightning_signer::node::{NodeConfig, NodeState};
    use lightning_signer::persist::{model, ChainTrackerListenerEntry, Error, Persist};
    use lightning_signer::policy::validator::ValidatorFactory;
    use std::sync::Arc;

    #[allow(unused_variables)]
    impl Persist for TrackingPersister {
        fn new_node(&self, node_id: &PublicKey, config: &NodeConfig, state: &NodeState) -> Result<(), Error> {
            self.record("node".into(), node_record(state));
            Ok(())
        }
        fn update_node(&self, node_id: &PublicKey, state: &NodeState) -> Result<(), Error> {
            self.record("node".into(), node_record(state));
            Ok(())
        }
        fn delete_node(&self, node_id: &PublicKey) -> Result<(), Error> {
            Ok(())
        }
        fn new_channel(&self, node_id: &PublicKey, stub: &ChannelStub) -> Result<(), Error> {
            if self.channels.lock().unwrap().insert(stub.id0.as_slice().to_vec()) {
                self.record(format!("chan:{}", stub.id0.oid()), "stub".into());
                Ok(())
            } else {
                Err(Error::AlreadyExists(format!("channel {}", stub.id0)))
            }
        }
        fn delete_channel(&self, node_id: &PublicKey, channel_id: &ChannelId) -> Result<(), Error> {
            self.channels.lock().unwrap().remove(channel_id.as_slice());
            self.record(format!("chan:{}", channel_id.oid()), "deleted".into());
            Ok(())
        }
        fn new_tracker(&self, node_id: &PublicKey, tracker: &ChainTracker<ChainMonitor>) -> Result<(), Error> {
            Ok(())
        }
        fn update_tracker(&self, node_id: &PublicKey, tracker: &ChainTracker<ChainMonitor>) -> Result<(), Error> {
            self.record("tracker".into(), format!("h{} listeners{}", tracker.height(), tracker.listeners.len()));
            Ok(())
        }
        fn get_tracker(
            &self,
            node_id: PublicKey,
            validator_factory: Arc<dyn ValidatorFactory>,
        ) -> Result<(ChainTracker<ChainMonitor>, Vec<ChainTrackerListenerEntry>), Error> {
            Err(Error::Internal("get_tracker unimplemented".to_string()))
        }
        fn update_channel(&self, node_id: &PublicKey, channel: &Channel) -> Result<(), Error> {
            let es = &channel.enforcement_state;
            self.record(
                format!("chan:{}", channel.id0.oid()),
                format!(
                    "ready h{} c{} r{} closed{}",
                    es.next_holder_commit_num, es.next_counterparty_commit_num, es.next_counterparty_revoke_num, es.channel_closed
                ),
            );
            Ok(())
        }
        fn get_channel(&self, node_id: &PublicKey, channel_id: &ChannelId) -> Result<model::ChannelEntry, Error> {
            Err(Error::Internal("get_channel unimplemented".to_string()))
        }
        fn get_node_channels(&self, node_id: &PublicKey) -> Result<Vec<(ChannelId, model::ChannelEntry)>, Error> {
            Ok(Vec::new())
        }
        fn update_node_allowlist(&self, node_id: &PublicKey, allowlist: Vec<String>) -> Result<(), Error> {
            self.record("allowlist".into(), format!("n{}", allowlist.len()));
            Ok(())
        }
        fn get_node_allowlist(&self, node_id: &PublicKey) -> Result<Vec<String>, Error> {
            Ok(Vec::new())
        }
        fn get_nodes(&self) -> Result<Vec<(PublicKey, model::NodeEntry)>, Error> {
            Ok(Vec::new())
        }
        fn clear_database(&self) -> Result<(), Error> {
            Ok(())
        }
        fn signer_id(&self) -> [u8; 16] {
            [0x20; 16]
        }
    }
}

const PEER: [u8; 33] = [2u8; 33];
const CHANNEL_VALUE: u64 = 3_000_000;
/// value of the outgoing HTLC of a `paycp` request; the keysend approved during setup covers ONE of them
const PAY_SAT: u64 = 50_000;
const PAY_HASH: [u8; 32] = [0x77; 32];

/// The node's clock in the C20 world: constant during setup; once armed (when the requests start, in
/// concurrent and sequential runs alike) every read returns a later time, one velocity bucket (300 s)
/// after the previous read.  Two reads of one request are therefore never equal, and a time that was
/// read early and used late is older than everything read in between — which is what happens with a
/// real clock when requests overlap.
pub struct SteppingClock {
    base: std::time::Duration,
    reads: std::sync::atomic::AtomicU64,
    armed: std::sync::atomic::AtomicBool,
}

pub const CLOCK_STEP_SECS: u64 = 300;

impl SteppingClock {
    fn arm(&self) {
        self.armed.store(true, std::sync::atomic::Ordering::SeqCst);
    }
}

impl lightning_signer::SendSync for SteppingClock {}

impl lightning_signer::util::clock::Clock for SteppingClock {
    fn now(&self) -> std::time::Duration {
        use std::sync::atomic::Ordering;
        if self.armed.load(Ordering::SeqCst) {
            let k = self.reads.fetch_add(1, Ordering::SeqCst) + 1;
            self.base + std::time::Duration::from_secs(CLOCK_STEP_SECS * k)
        } else {
            self.base
        }
    }
}

/// Time advances in every scenario except those with the composite payment requests (`payhv` = validate
/// + revoke, `paycp*`): they rely on the 60-second keysend approval made during setup, and `payhv`
/// bundles two protocol requests, so a heartbeat pruning the expired approval between its two halves
/// would be an artefact of the bundling, not an interleaving of protocol requests.
fn clock_advances(sc: &Scenario) -> bool {
    !sc.threads.iter().flatten().any(|q| matches!(q, Req::PayCp(_) | Req::PayCp1(_) | Req::PayHv(_)))
}

fn make_node_ctx() -> (TestNodeContext, Arc<TrackingPersister>, Arc<SteppingClock>) {
    use lightning_signer::bitcoin::secp256k1::Secp256k1;
    use lightning_signer::node::NodeServices;
    use lightning_signer::policy::simple_validator::SimpleValidatorFactory;
    let mut seed = [0u8; 32];
    seed.copy_from_slice(&hex::decode(TEST_SEED[1]).unwrap());
    let store = Arc::new(TrackingPersister {
        channels: std::sync::Mutex::new(BTreeSet::new()),
        writes: std::sync::Mutex::new(BTreeMap::new()),
    });
    let clock = Arc::new(SteppingClock {
        base: std::time::SystemTime::now().duration_since(std::time::UNIX_EPOCH).unwrap(),
        reads: std::sync::atomic::AtomicU64::new(0),
        armed: std::sync::atomic::AtomicBool::new(false),
    });
    let services = NodeServices {
        validator_factory: Arc::new(SimpleValidatorFactory::new()),
        starting_time_factory: make_genesis_starting_time_factory(TEST_NODE_CONFIG.network),
        persister: store.clone(),
        clock: clock.clone(),
        trusted_oracle_pubkeys: vec![],
    };
    let node = Arc::new(Node::new(TEST_NODE_CONFIG, &seed, vec![], services));
    (TestNodeContext { node, secp_ctx: Secp256k1::signing_only() }, store, clock)
}

/// a channel stub created through `new_channel(dbid, peer)`, with matching counterparty keys and the
/// setup of test_utils' `test_chan_ctx`
fn chan_ctx_by_dbid(node_ctx: &TestNodeContext, dbid: u64) -> TestChannelContext {
    let (channel_id, _) = node_ctx.node.new_channel(dbid, &PEER, &node_ctx.node).expect("new_channel");
    let mut setup = make_test_channel_setup();
    setup.channel_value_sat = CHANNEL_VALUE;
    setup.push_value_msat = 0;
    let counterparty_keys = make_test_counterparty_keys(node_ctx, &channel_id, CHANNEL_VALUE);
    TestChannelContext { channel_id, setup, counterparty_keys }
}

/// a real `ChannelHandler` for (PEER, dbid) on the node, negotiated at protocol `version`
fn channel_handler(node: &Arc<Node>, dbid: u64, version: u32) -> Option<vls_protocol_signer::handler::ChannelHandler> {
    use vls_protocol::msgs::{self, Message};
    use vls_protocol_signer::handler::{Handler, InitHandler, RootHandler};
    let mut init = InitHandler::new(0, node.clone(), Arc::new(vls_protocol_signer::approver::PositiveApprover()), version);
    let m = msgs::HsmdInit {
        key_version: vls_protocol::model::Bip32KeyVersion { pubkey_version: 0, privkey_version: 0 },
        chain_params: lightning_signer::bitcoin::BlockHash::all_zeros(),
        encryption_key: None,
        dev_privkey: None,
        dev_bip32_seed: None,
        dev_channel_secrets: None,
        dev_channel_secrets_shaseed: None,
        hsm_wire_min_version: 2,
        hsm_wire_max_version: version,
    };
    let (done, _) = init.handle(Message::HsmdInit(m)).ok()?;
    if !done {
        return None;
    }
    let root: RootHandler = init.into();
    Some(root.for_new_client(1, vls_protocol::model::PubKey(PEER), dbid))
}

fn build_world(sc: &Scenario) -> World {
    let (node_ctx, store, clock) = make_node_ctx();
    let mut chans = Vec::new();
    let mut commits = Vec::new();
    let mut pay_commits = Vec::new();
    let needs = |f: &dyn Fn(&Req) -> bool| sc.threads.iter().flatten().any(|q| f(q));
    let need_plain = needs(&|q| matches!(q, Req::Validate(_) | Req::HVal(_, _) | Req::Refused(_)));
    let need_handler = needs(&|q| matches!(q, Req::HVal(_, _) | Req::HSignLocal(_) | Req::HPoint(_) | Req::HFuture(_)));
    let mut commits_b = Vec::new();
    let mut handlers = Vec::new();
    let need_pay = needs(&|q| matches!(q, Req::PayHv(_)));
    for i in 0..sc.nchan {
        let nn = i + 1;
        // ready channels have the dbids 1, 2, 3: `newchan 2` asks for an existing ready channel
        let mut cc = chan_ctx_by_dbid(&node_ctx, nn as u64);
        let outpoint = bitcoin::OutPoint { txid: funding_tx(nn).compute_txid(), vout: 0 };
        synthesize_setup_channel(&node_ctx, &mut cc, outpoint, 0);
        // commitment 0 (initial), validated sequentially during setup
        let mut c0 = channel_initial_holder_commitment(&node_ctx, &cc);
        let (s0, h0) = counterparty_sign_holder_commitment(&node_ctx, &cc, &mut c0);
        validate_holder_commitment(&node_ctx, &cc, &c0, &s0, &h0).expect("initial commitment");
        // counterparty commitment 0 (an initial commitment may not carry HTLCs)
        node_ctx
            .node
            .with_channel(&cc.channel_id, |chan| {
                chan.sign_counterparty_commitment_tx_phase2(&make_test_pubkey(0x20), 0, 0, CHANNEL_VALUE - 1000, 0, vec![], vec![])
            })
            .expect("counterparty commitment 0");
        // commitment 1, only prepared: validating it is the concurrent request
        if need_plain {
            let mut c1 = channel_commitment(
                &node_ctx,
                &cc,
                1,
                0,
                CHANNEL_VALUE - 1000 - 10_000 * (nn as u64),
                10_000 * (nn as u64),
                vec![],
                vec![],
            );
            let (s1, h1) = counterparty_sign_holder_commitment(&node_ctx, &cc, &mut c1);
            commits.push(Some((c1, s1, h1)));
        } else {
            commits.push(None);
        }
        if need_handler {
            let mut c1 = channel_commitment(
                &node_ctx,
                &cc,
                1,
                0,
                CHANNEL_VALUE - 1000 - 25_000 * (nn as u64),
                25_000 * (nn as u64),
                vec![],
                vec![],
            );
            let (s1, h1) = counterparty_sign_holder_commitment(&node_ctx, &cc, &mut c1);
            commits_b.push(Some((c1, s1, h1)));
            handlers.push(channel_handler(&node_ctx.node, nn as u64, 4));
        } else {
            commits_b.push(None);
            handlers.push(None);
        }
        // commitment 1 with one offered (outgoing) HTLC of PAY_SAT for PAY_HASH
        if need_pay {
            let htlc = lightning_signer::tx::tx::HTLCInfo2 {
                value_sat: PAY_SAT,
                payment_hash: PaymentHash(PAY_HASH),
                cltv_expiry: 150,
            };
            let mut c1 = channel_commitment(&node_ctx, &cc, 1, 0, CHANNEL_VALUE - 1000 - PAY_SAT, 0, vec![htlc], vec![]);
            let (s1, h1) = counterparty_sign_holder_commitment(&node_ctx, &cc, &mut c1);
            pay_commits.push(Some((c1, s1, h1)));
        } else {
            pay_commits.push(None);
        }
        chans.push(cc);
    }
    // an approved keysend for PAY_HASH: enough for one outgoing HTLC of PAY_SAT, not for two
    node_ctx.node.add_keysend(make_test_pubkey(4), PaymentHash(PAY_HASH), PAY_SAT * 1000).expect("keysend approval");
    let stub = if sc.stub {
        // a stub with a larger id than every ready channel
        let mut cc = chan_ctx_by_dbid(&node_ctx, 200);
        cc.setup.funding_outpoint = bitcoin::OutPoint { txid: funding_tx(200).compute_txid(), vout: 0 };
        Some(cc)
    } else {
        None
    };
    // the funding transactions confirm: the monitors start watching the funding outpoints
    {
        // first an empty block with regtest difficulty (the testnet genesis bits cannot be mined here)
        let mut tracker = node_ctx.node.get_tracker();
        let (header, proof) = make_testnet_header(tracker.tip(), tracker.height());
        tracker.add_block(header, proof).expect("first block");
    }
    let coinbase_ctr = std::sync::atomic::AtomicU32::new(1);
    let (_, r) = add_block_with(&node_ctx.node, (1..=sc.nchan).map(funding_tx).collect(), None);
    assert_eq!(r, "ok", "funding block");
    // a wallet-to-wallet transaction for check_onchain_tx
    let mut tx_ctx = TestFundingTxContext::new();
    tx_ctx.add_wallet_input(&node_ctx, SpendType::P2wpkh, 1, 1_000_000);
    tx_ctx.add_wallet_output(&node_ctx, SpendType::P2wpkh, 2, 999_000);
    let tx = tx_ctx.to_tx();
    let invoices = (0..3u8).map(|x| make_current_test_invoice(x, 10_000 + x as u64)).collect();
    let root = if needs(&is_root_req) { root_handler(&node_ctx.node) } else { None };
    World { clock, invoices, store, node_ctx, chans, commits, commits_b, handlers, pay_commits, onchain: (tx, tx_ctx), stub, blocks: std::sync::Mutex::new(Vec::new()), coinbase_ctr, root }
}

fn status_str<T>(r: &Result<T, lightning_signer::util::status::Status>) -> String {
    match r {
        Ok(_) => "ok".into(),
        Err(e) => format!("err:{:?}:{}", e.code(), e.message()),
    }
}

fn do_req(w: &World, r: &Req) -> String {
    let node: &Arc<Node> = &w.node_ctx.node;
    match r {
        Req::Validate(c) => match w.chans.get(*c) {
            None => "nochan".into(),
            Some(cc) => {
                let (c1, s1, h1) = w.commits[*c].as_ref().expect("prepared commitment");
                match validate_holder_commitment(&w.node_ctx, cc, c1, s1, h1) {
                    Ok((p, s)) => format!(
                        "ok {} {}",
                        &hex::encode(p.serialize())[..8],
                        s.map(|k| hex::encode(&k[..])[..8].to_string()).unwrap_or("-".into())
                    ),
                    Err(e) => format!("err:{:?}:{}", e.code(), e.message()),
                }
            }
        },
        Req::SignHolder(c) => match w.chans.get(*c) {
            None => "nochan".into(),
            Some(cc) => {
                let r = node.with_channel(&cc.channel_id, |chan| {
                    let n = chan.enforcement_state.next_holder_commit_num - 1;
                    chan.sign_holder_commitment_tx_phase2(n).map(|s| (n, s))
                });
                match r {
                    Ok((n, s)) => format!("ok {} {}", n, &hex::encode(s.serialize_compact())[..8]),
                    Err(e) => format!("err:{:?}:{}", e.code(), e.message()),
                }
            }
        },
        Req::SignCp(c) => match w.chans.get(*c) {
            None => "nochan".into(),
            Some(cc) => {
                let r = node.with_channel(&cc.channel_id, |chan| {
                    let n = chan.enforcement_state.next_counterparty_commit_num;
                    chan.sign_counterparty_commitment_tx_phase2(
                        &make_test_pubkey(0x20 + n as u8),
                        n,
                        0,
                        CHANNEL_VALUE - 1000,
                        0,
                        vec![],
                        vec![],
                    )
                    .map(|(s, _)| (n, s))
                });
                match r {
                    Ok((n, s)) => format!("ok {} {}", n, &hex::encode(s.serialize_compact())[..8]),
                    Err(e) => format!("err:{:?}:{}", e.code(), e.message()),
                }
            }
        },
        Req::HVal(c, v) => match (w.chans.get(*c), w.handlers.get(*c).and_then(|h| h.as_ref())) {
            (Some(_), Some(h)) => {
                use vls_protocol::model::{BitcoinSignature, Signature as WireSig};
                use vls_protocol::msgs::{self, Message};
                use vls_protocol_signer::handler::Handler;
                let (c1, s1, _) = if *v == 0 { w.commits[*c].as_ref() } else { w.commits_b[*c].as_ref() }.expect("prepared commitment");
                let m = msgs::ValidateCommitmentTx2 {
                    commitment_number: 1,
                    feerate: c1.feerate_per_kw,
                    to_local_value_sat: c1.to_broadcaster,
                    to_remote_value_sat: c1.to_countersignatory,
                    htlcs: Vec::new().into(),
                    signature: BitcoinSignature { signature: WireSig(s1.serialize_compact()), sighash: 1 },
                    htlc_signatures: Vec::new().into(),
                };
                match h.handle(Message::ValidateCommitmentTx2(m)) {
                    Ok(reply) => format!("ok {}", &hex::encode(reply.as_vec())[..40.min(reply.as_vec().len() * 2)]),
                    Err(e) => format!("err:{:?}", e).chars().take(140).collect(),
                }
            }
            _ => "nochan".into(),
        },
        Req::Refused(c) => match w.chans.get(*c) {
            None => "nochan".into(),
            Some(cc) => {
                let (_, s1, _) = w.commits[*c].as_ref().expect("prepared commitment");
                // half of the channel value would be left as fee: refused by the policy
                let r = node.with_channel(&cc.channel_id, |chan| {
                    chan.validate_holder_commitment_tx_phase2(1, 0, CHANNEL_VALUE / 2, 0, vec![], vec![], s1, &[])
                });
                match r {
                    Ok(_) => "ok".into(),
                    Err(e) => format!("err:{:?}:{}", e.code(), e.message().chars().take(90).collect::<String>()),
                }
            }
        },
        Req::Sweep(c, v) => match w.chans.get(*c) {
            None => "nochan".into(),
            Some(cc) => {
                use bitcoin::bip32::{ChildNumber, DerivationPath};
                use lightning_signer::wallet::Wallet;
                let path = DerivationPath::from(vec![ChildNumber::from_normal_idx(7).unwrap()]);
                let dest = if *v == 0 {
                    node.get_native_address(&path).expect("wallet address").script_pubkey()
                } else {
                    bitcoin::ScriptBuf::from(vec![0x51u8])
                };
                let tx = bitcoin::Transaction {
                    version: bitcoin::transaction::Version::TWO,
                    lock_time: bitcoin::absolute::LockTime::ZERO,
                    input: vec![bitcoin::TxIn {
                        previous_output: cc.setup.funding_outpoint,
                        script_sig: Default::default(),
                        sequence: bitcoin::Sequence(cc.setup.counterparty_selected_contest_delay as u32),
                        witness: bitcoin::Witness::default(),
                    }],
                    output: vec![bitcoin::TxOut { value: bitcoin::Amount::from_sat(90_000), script_pubkey: dest }],
                };
                let redeemscript = bitcoin::ScriptBuf::from(vec![0x51u8]);
                let r = node.with_channel(&cc.channel_id, |chan| {
                    chan.sign_delayed_sweep(&tx, 0, 0, &redeemscript, 100_000, &path)
                });
                match r {
                    Ok(sig) => format!("ok {}", &hex::encode(sig.serialize_compact())[..8]),
                    Err(e) => format!("err:{:?}:{}", e.code(), e.message().chars().take(90).collect::<String>()),
                }
            }
        },
        Req::PayHv(c) => match w.chans.get(*c) {
            None => "nochan".into(),
            Some(cc) => {
                let (c1, s1, h1) = w.pay_commits[*c].as_ref().expect("prepared payment commitment");
                match validate_holder_commitment(&w.node_ctx, cc, c1, s1, h1) {
                    Ok((p, _)) => format!("ok {}", &hex::encode(p.serialize())[..8]),
                    Err(e) => format!("err:{:?}:{}", e.code(), e.message().chars().take(90).collect::<String>()),
                }
            }
        },
        Req::PayCp1(c) => match w.chans.get(*c) {
            None => "nochan".into(),
            Some(cc) => {
                let r = node.with_channel(&cc.channel_id, |chan| {
                    let n = chan.enforcement_state.next_counterparty_commit_num;
                    let point = make_test_pubkey(0x40 + n as u8);
                    let htlc = lightning_signer::tx::tx::HTLCInfo2 {
                        value_sat: PAY_SAT,
                        payment_hash: PaymentHash(PAY_HASH),
                        cltv_expiry: 150,
                    };
                    let received = vec![htlc];
                    let mut htlcs = lightning_signer::channel::Channel::htlcs_info2_to_oic(&[], &received);
                    let keys = chan.make_counterparty_tx_keys(&point);
                    let parameters = chan.make_channel_parameters();
                    let cparams = parameters.as_counterparty_broadcastable();
                    let ctx = chan.make_counterparty_commitment_tx(&point, n, 0, 0, CHANNEL_VALUE - 1000 - PAY_SAT, htlcs.clone());
                    let scripts = build_tx_scripts(
                        &keys,
                        CHANNEL_VALUE - 1000 - PAY_SAT,
                        0,
                        &mut htlcs,
                        &cparams,
                        &chan.keys.pubkeys().funding_pubkey,
                        &chan.setup.counterparty_points.funding_pubkey,
                    )
                    .expect("scripts");
                    let wit: Vec<Vec<u8>> = scripts.iter().map(|s| s.as_bytes().to_vec()).collect();
                    let tx = ctx.trust().built_transaction().transaction.clone();
                    chan.sign_counterparty_commitment_tx(&tx, &wit, &point, n, 0, vec![], received).map(|s| (n, s))
                });
                match r {
                    Ok((n, s)) => format!("ok {} {}", n, &hex::encode(s.serialize_compact())[..8]),
                    Err(e) => format!("err:{:?}:{}", e.code(), e.message().chars().take(90).collect::<String>()),
                }
            }
        },
        Req::PayCp(c) => match w.chans.get(*c) {
            None => "nochan".into(),
            Some(cc) => {
                let r = node.with_channel(&cc.channel_id, |chan| {
                    let n = chan.enforcement_state.next_counterparty_commit_num;
                    let htlc = lightning_signer::tx::tx::HTLCInfo2 {
                        value_sat: PAY_SAT,
                        payment_hash: PaymentHash(PAY_HASH),
                        cltv_expiry: 150,
                    };
                    chan.sign_counterparty_commitment_tx_phase2(
                        &make_test_pubkey(0x40 + n as u8),
                        n,
                        0,
                        CHANNEL_VALUE - 1000 - PAY_SAT,
                        0,
                        vec![],
                        vec![htlc],
                    )
                    .map(|(s, _)| (n, s))
                });
                match r {
                    Ok((n, s)) => format!("ok {} {}", n, &hex::encode(s.serialize_compact())[..8]),
                    Err(e) => format!("err:{:?}:{}", e.code(), e.message().chars().take(90).collect::<String>()),
                }
            }
        },
        Req::Point(c) => match w.chans.get(*c) {
            None => "nochan".into(),
            Some(cc) => {
                let r = node
                    .with_channel_base(&cc.channel_id, |base| base.get_per_commitment_point(0));
                match r {
                    Ok(p) => format!("ok {}", &hex::encode(p.serialize())[..8]),
                    Err(e) => format!("err:{:?}:{}", e.code(), e.message()),
                }
            }
        },
        Req::Forget(c) => {
            let id = match w.chans.get(*c) {
                Some(cc) => cc.channel_id.clone(),
                None => ChannelId::new_from_peer_id_and_oid(&PEER, 200),
            };
            status_str(&node.forget_channel(&id))
        }
        Req::ForgetDb(dbid) => {
            let id = ChannelId::new_from_peer_id_and_oid(&PEER, *dbid);
            status_str(&node.forget_channel(&id))
        }
        Req::Balance => format!("{:?}", node.channel_balance()),
        Req::Chaninfo => {
            let v = node.chaninfo();
            format!("slots={} {:?}", v.len(), v.iter().map(|s| s.oid).collect::<Vec<_>>())
        }
        Req::Heartbeat => {
            let hb = node.get_heartbeat();
            format!("height={} tip={}", hb.heartbeat.chain_height, hb.heartbeat.chain_tip)
        }
        Req::Keysend(x) => {
            let r = node.add_keysend(make_test_pubkey(2), PaymentHash([*x; 32]), 1000 * (*x as u64 + 1));
            match r {
                Ok(b) => format!("ok {}", b),
                Err(e) => format!("err:{:?}:{}", e.code(), e.message()),
            }
        }
        Req::Invoice(x) => {
            // the invoice object is built once per world: two `invoice x` requests of one run present
            // the same signed invoice (an invoice built at request time would carry the wall-clock
            // second and two requests straddling a second boundary would be different invoices)
            let r = node.add_invoice(w.invoices[*x as usize % w.invoices.len()].clone());
            match r {
                Ok(b) => format!("ok {}", b),
                Err(e) => format!("err:{:?}:{}", e.code(), e.message()),
            }
        }
        Req::Allow(x) => {
            let addr = make_test_funding_wallet_addr(node, 100 + *x as u32, SpendType::P2wpkh);
            status_str(&node.add_allowlist(&[addr.to_string()]))
        }
        Req::NewChan(dbid) => {
            match node.new_channel(*dbid, &PEER, node) {
                Ok((id, slot)) => format!(
                    "ok {} {}",
                    &hex::encode(id.as_slice())[..8],
                    match slot {
                        Some(ChannelSlot::Stub(_)) => "stub",
                        Some(ChannelSlot::Ready(_)) => "ready",
                        None => "none",
                    }
                ),
                Err(e) => format!("err:{:?}:{}", e.code(), e.message()),
            }
        }
        Req::SetupChan => match &w.stub {
            None => "nostub".into(),
            Some(cc) => {
                let r = node.setup_channel(
                    cc.channel_id.clone(),
                    None,
                    cc.setup.clone(),
                    &bitcoin::bip32::DerivationPath::master(),
                );
                match r {
                    Ok(_) => "ok".into(),
                    Err(e) => format!("err:{:?}:{}", e.code(), e.message()),
                }
            }
        },
        Req::SignOnchain => {
            let (tx, c) = &w.onchain;
            match node.unchecked_sign_onchain_tx(tx, &c.ipaths, &c.prev_outs, c.iuckeys.clone()) {
                Ok(wit) => format!("ok {}", wit.len()),
                Err(e) => format!("err:{:?}:{}", e.code(), e.message()),
            }
        }
        Req::AddBlock(c) => match w.chans.get(*c) {
            None => "nochan".into(),
            Some(cc) => {
                let spend = mk_tx(vec![cc.setup.funding_outpoint], 5000 + *c as u32);
                let (_, r) = add_block_with(node, vec![spend], Some(&w.blocks));
                r
            }
        },
        Req::RmBlock => {
            use lightning_signer::txoo::proof::TxoProof;
            let mut tracker = node.get_tracker();
            let block = w.blocks.lock().unwrap().pop();
            match block {
                None => "noblock".into(),
                Some(block) => {
                    if tracker.headers().is_empty() {
                        return "noprev".into();
                    }
                    let prev = tracker.headers()[0].clone();
                    let h = tracker.height();
                    let proof = TxoProof::prove_unchecked(&block, &prev.1, h);
                    match tracker.remove_block(proof, prev) {
                        Ok(_) => "ok".into(),
                        Err(e) => format!("err:{:?}", e),
                    }
                }
            }
        }
        Req::PersistAll => {
            node.persist_all();
            "ok".into()
        }
        Req::RPreKeysend(x) => {
            use vls_protocol::model::{PubKey, Sha256};
            use vls_protocol::msgs::{self, Message};
            root_handle(w, Message::PreapproveKeysend(msgs::PreapproveKeysend {
                destination: PubKey(make_test_pubkey(2).serialize()),
                payment_hash: Sha256([*x; 32]),
                amount_msat: 1000 * (*x as u64 + 1),
            }))
        }
        Req::RPreInvoice(x) => {
            use vls_protocol::msgs::{self, Message};
            let s = match &w.invoices[*x as usize % w.invoices.len()] {
                lightning_signer::invoice::Invoice::Bolt11(inv) => inv.to_string(),
                _ => return "noinvoice".into(),
            };
            root_handle(w, Message::PreapproveInvoice(msgs::PreapproveInvoice { invstring: vls_protocol::serde_bolt::WireString(s.into_bytes()) }))
        }
        Req::RNewChan(d) => {
            use vls_protocol::msgs::{self, Message};
            root_handle(w, Message::NewChannel(msgs::NewChannel { peer_id: vls_protocol::model::PubKey(PEER), dbid: *d }))
        }
        Req::RForget(d) => {
            use vls_protocol::msgs::{self, Message};
            root_handle(w, Message::ForgetChannel(msgs::ForgetChannel { node_id: vls_protocol::model::PubKey(PEER), dbid: *d }))
        }
        Req::RTipInfo => {
            use vls_protocol::msgs::{self, Message};
            root_handle(w, Message::TipInfo(msgs::TipInfo {}))
        }
        Req::RHeartbeat => {
            use vls_protocol::msgs::{self, Message};
            let r = root_handle(w, Message::GetHeartbeat(msgs::GetHeartbeat {}));
            if r.starts_with("ok ") { "ok".into() } else { r }
        }
        Req::HSignLocal(c) => match w.handlers.get(*c).and_then(|h| h.as_ref()) {
            Some(h) => {
                use vls_protocol::msgs::{self, Message};
                use vls_protocol_signer::handler::Handler;
                match h.handle(Message::SignLocalCommitmentTx2(msgs::SignLocalCommitmentTx2 { commitment_number: 0 })) {
                    Ok(reply) => format!("ok {}", &hex::encode(reply.as_vec())[..24.min(reply.as_vec().len() * 2)]),
                    Err(e) => format!("err:{:?}", e).chars().take(140).collect(),
                }
            }
            None => "nochan".into(),
        },
        Req::HPoint(c) | Req::HFuture(c) => match w.handlers.get(*c).and_then(|h| h.as_ref()) {
            Some(h) => {
                use vls_protocol::msgs::{self, Message};
                use vls_protocol_signer::handler::Handler;
                let m = if matches!(r, Req::HPoint(_)) {
                    Message::GetPerCommitmentPoint2(msgs::GetPerCommitmentPoint2 { commitment_number: 1 })
                } else {
                    Message::CheckFutureSecret(msgs::CheckFutureSecret {
                        commitment_number: 0,
                        secret: vls_protocol::model::DisclosedSecret([1u8; 32]),
                    })
                };
                match h.handle(m) {
                    Ok(reply) => format!("ok {}", &hex::encode(reply.as_vec())[..24.min(reply.as_vec().len() * 2)]),
                    Err(e) => format!("err:{:?}", e).chars().take(140).collect(),
                }
            }
            None => "nochan".into(),
        },
        Req::Onchain => {
            let (tx, c) = &w.onchain;
            let r = node.check_onchain_tx(tx, &[], &c.prev_outs, &c.iuckeys, &c.opaths);
            match r {
                Ok(()) => "ok".into(),
                Err(e) => format!("err:{:?}", e).chars().take(80).collect(),
            }
        }
    }
}

/// canonical final state: node ledger, channel map, per-channel enforcement state, tracker summary
fn digest(w: &World) -> String {
    let node = &w.node_ctx.node;
    let mut s = String::new();
    {
        let st = node.get_state();
        let mut inv: Vec<String> = st.invoices.keys().map(|h| hex::encode(&h.0[..2])).collect();
        inv.sort();
        // in-flight totals per payment hash (sum over channels)
        let mut pay: Vec<String> = st
            .payments
            .iter()
            .map(|(h, p)| {
                format!(
                    "{}:out{}:in{}",
                    hex::encode(&h.0[..2]),
                    p.outgoing.values().sum::<u64>(),
                    p.incoming.values().sum::<u64>()
                )
            })
            .collect();
        pay.sort();
        s += &format!(
            "hwm={} inv={:?} pay={:?} allow={} excess={} vel={};",
            st.dbid_high_water_mark,
            inv,
            pay,
            st.allowlist.len(),
            st.excess_amount,
            st.velocity_control.velocity()
        );
    }
    let slots: Vec<(ChannelId, _)> =
        node.get_channels().iter().map(|(k, v)| (k.clone(), Arc::clone(v))).collect();
    for (id, slot) in slots {
        let g = slot.lock().unwrap();
        match &*g {
            ChannelSlot::Stub(_) => s += &format!(" {}/oid{}=stub;", &hex::encode(id.as_slice())[..4], id.oid()),
            ChannelSlot::Ready(c) => {
                let es = &c.enforcement_state;
                s += &format!(
                    " oid{}=ready h{} c{} r{} closed={} forget={} bal={:?} chain={:?};",
                    id.oid(),
                    es.next_holder_commit_num,
                    es.next_counterparty_commit_num,
                    es.next_counterparty_revoke_num,
                    es.channel_closed,
                    c.monitor.forget_seen(),
                    es.current_holder_commit_info.as_ref().map(|i| (i.to_broadcaster_value_sat, i.to_countersigner_value_sat)),
                    c.monitor.as_chain_state(),
                );
            }
        }
    }
    {
        let t = node.get_tracker();
        s += &format!(" tracker h={} listeners={}", t.height(), t.listeners.len());
    }
    if let Some((_, appr)) = &w.root {
        // the approver's velocity control: charged once per approved payment in every sequential order
        s += &format!(" approver_vel={}", appr.control().velocity());
    }
    // the persisted state: last record written per key
    s += &format!(" STORE[{}]", w.store.stored());
    s
}

/// Learn which mutex address is which lock class by touching each lock once with the tap on.
fn classify(w: &World) -> HashMap<usize, String> {
    let node = &w.node_ctx.node;
    let mut map: HashMap<usize, String> = HashMap::new();
    let mut probe = |name: String, f: &dyn Fn()| {
        tap_enable(true);
        f();
        tap_enable(false);
        for e in tap_take() {
            map.entry(e.addr).or_insert_with(|| name.clone());
        }
    };
    probe("node_state".into(), &|| drop(node.get_state()));
    probe("channels".into(), &|| drop(node.get_channels()));
    probe("tracker".into(), &|| drop(node.get_tracker()));
    // `add_invoice`/`allowlist` paths: the only remaining node-level lock is the validator factory
    probe("validator_factory".into(), &|| {
        let _ = node.add_keysend(make_test_pubkey(3), PaymentHash([0xEE; 32]), 0);
        let _ = node.add_invoice(make_current_test_invoice(0xEE, 1));
    });
    if let Some((_, appr)) = &w.root {
        probe("approver".into(), &|| drop(appr.control()));
    }
    let ids: Vec<ChannelId> = node.get_channels().keys().cloned().collect();
    for (rank, id) in ids.iter().enumerate() {
        // BTreeMap iteration order = ChannelId order = the rank used for slot instances
        probe(format!("slot {}", rank), &|| {
            let s = node.get_channel(id).unwrap();
            drop(s.lock().unwrap());
        });
        probe(format!("monitor {}", rank), &|| {
            let _ = node.with_channel(id, |c| {
                let _ = c.monitor.forget_seen();
                Ok(())
            });
        });
    }
    map
}

fn thread_index(name: &str) -> usize {
    name.strip_prefix('t').and_then(|s| s.parse().ok()).unwrap_or(99)
}

struct PreemptShared {
    points: Arc<std::sync::atomic::AtomicUsize>,
    drained: Arc<std::sync::Mutex<Vec<lightning_signer::verif_sync::LockEvent>>>,
    active: Arc<std::sync::atomic::AtomicBool>,
}

fn scheduler_run<F: Fn() + Send + Sync + 'static>(sched: Sched, seed: u64, ps: &PreemptShared, f: F) -> Result<(), String> {
    let mut config = shuttle::Config::new();
    config.failure_persistence = shuttle::FailurePersistence::None;
    config.max_steps = shuttle::MaxSteps::FailAfter(2_000_000);
    let r = catch_unwind(AssertUnwindSafe(|| match sched {
        Sched::Random => {
            let s = shuttle::scheduler::RandomScheduler::new_from_seed(seed, 1);
            shuttle::Runner::new(s, config).run(f);
        }
        Sched::Pct => {
            let s = shuttle::scheduler::PctScheduler::new_from_seed(seed, 3, 1);
            shuttle::Runner::new(s, config).run(f);
        }
        Sched::Preempt => {
            let first = (seed / 100_000) as usize;
            let rest = seed % 100_000;
            let s = PreemptScheduler {
                first_task: first + 1,
                first_name: format!("t{}", first),
                at: (rest % 50_000) as usize,
                all_points: rest >= 50_000,
                phase: 0,
                count: 0,
                main_blocked: false,
                executed: false,
                points: ps.points.clone(),
                drained: ps.drained.clone(),
                active: ps.active.clone(),
            };
            shuttle::Runner::new(s, config).run(f);
        }
    }));
    r.map_err(|e| {
        if let Some(s) = e.downcast_ref::<String>() {
            s.clone()
        } else if let Some(s) = e.downcast_ref::<&str>() {
            s.to_string()
        } else {
            "?".into()
        }
    })
}

/// Run the scenario.  `order = None`: one thread per request list under the given scheduler, tap on.
/// `order = Some(seq)`: sequentially in one thread, `seq` = thread index of each successive request.
struct Worker {
    child: std::process::Child,
    stdin: std::process::ChildStdin,
    stdout: std::io::BufReader<std::process::ChildStdout>,
}

thread_local! {
    static WORKER: RefCell<Option<Worker>> = RefCell::new(None);
}

fn spawn_worker() -> Option<Worker> {
    let exe = std::env::current_exe().ok()?;
    let mut child = std::process::Command::new(exe)
        .arg("--worker")
        .stdin(std::process::Stdio::piped())
        .stdout(std::process::Stdio::piped())
        .stderr(std::process::Stdio::null())
        .spawn()
        .ok()?;
    let stdin = child.stdin.take()?;
    let stdout = std::io::BufReader::new(child.stdout.take()?);
    Some(Worker { child, stdin, stdout })
}

/// Every run happens in a separate worker process (`harness-c20 --worker`, one request per line): a
/// run that ABORTS the process — a panic while another panic unwinds, e.g. an arithmetic overflow under
/// a lock followed by a destructor that needs the same lock — is an outcome to report, not the end of
/// the check.  The worker is restarted after an abort.
pub fn run_scenario(sc: &Scenario, sched: Sched, seed: u64, order: Option<Vec<usize>>) -> RunResult {
    use std::io::{BufRead, Write};
    if std::env::var("VERIF_C20_NOFORK").is_ok() {
        return run_scenario_inproc(sc, sched, seed, order);
    }
    let sname = match sched {
        Sched::Pct => "pct",
        Sched::Random => "random",
        Sched::Preempt => "preempt",
    };
    let mut lines = scenario_lines(sc);
    lines.push(format!("run {} {}", sname, seed));
    let req = serde_json::json!({ "ops": lines, "order": order }).to_string();
    WORKER.with(|w| {
        let mut w = w.borrow_mut();
        if w.is_none() {
            *w = spawn_worker();
        }
        let wk = match w.as_mut() {
            Some(x) => x,
            None => return run_scenario_inproc(sc, sched, seed, order),
        };
        let mut resp = String::new();
        let ok = wk.stdin.write_all(req.as_bytes()).is_ok()
            && wk.stdin.write_all(b"\n").is_ok()
            && wk.stdin.flush().is_ok()
            && wk.stdout.read_line(&mut resp).map(|n| n > 0).unwrap_or(false);
        if ok {
            if let Ok(r) = serde_json::from_str::<RunResult>(&resp) {
                return r;
            }
        }
        // the worker died on this request
        let status = wk.child.wait().map(|s| format!("{:?}", s)).unwrap_or_default();
        *w = None;
        RunResult {
            completed: false,
            failure: Some(format!(
                "process aborted ({}): a request panicked while another panic was unwinding",
                status
            )),
            ..Default::default()
        }
    })
}

/// `harness-c20 --worker`: executes one run per input line, prints one JSON result per line
pub fn worker_loop() {
    use std::io::{BufRead, Write};
    std::panic::set_hook(Box::new(|_| {}));
    let stdin = std::io::stdin();
    let stdout = std::io::stdout();
    for line in stdin.lock().lines() {
        let line = match line {
            Ok(l) => l,
            Err(_) => break,
        };
        let v: serde_json::Value = match serde_json::from_str(&line) {
            Ok(v) => v,
            Err(_) => break,
        };
        let ops: Vec<String> = v["ops"].as_array().map(|a| a.iter().filter_map(|x| x.as_str().map(|s| s.to_string())).collect()).unwrap_or_default();
        let order: Option<Vec<usize>> = v["order"].as_array().map(|a| a.iter().filter_map(|x| x.as_u64().map(|n| n as usize)).collect());
        let r = match parse_case(&ops) {
            Some((sc, sched, seed, _)) => run_scenario_inproc(&sc, sched, seed, order),
            None => RunResult { completed: false, failure: Some("worker: malformed request".into()), ..Default::default() },
        };
        let mut out = stdout.lock();
        let _ = out.write_all(serde_json::to_string(&r).unwrap_or_default().as_bytes());
        let _ = out.write_all(b"\n");
        let _ = out.flush();
    }
}

fn run_scenario_inproc(sc: &Scenario, sched: Sched, seed: u64, order: Option<Vec<usize>>) -> RunResult {
    let shared: Arc<std::sync::Mutex<RunResult>> = Arc::new(std::sync::Mutex::new(RunResult::default()));
    let classes: Arc<std::sync::Mutex<HashMap<usize, String>>> = Arc::new(std::sync::Mutex::new(HashMap::new()));
    let sc2 = sc.clone();
    let (sh2, cl2) = (shared.clone(), classes.clone());
    tap_enable(false);
    let _ = tap_take();
    let concurrent = order.is_none();
    let ps = PreemptShared {
        points: Arc::new(std::sync::atomic::AtomicUsize::new(0)),
        drained: Arc::new(std::sync::Mutex::new(Vec::new())),
        active: Arc::new(std::sync::atomic::AtomicBool::new(false)),
    };
    let active2 = ps.active.clone();
    let res = scheduler_run(sched, seed, &ps, move || {
        let w = Arc::new(build_world(&sc2));
        if concurrent {
            *cl2.lock().unwrap() = classify(&w);
            if clock_advances(&sc2) {
                w.clock.arm();
            }
            // probes above added a keysend/invoice: rebuild nothing, they are part of every run
            // (sequential runs do the same probe below so that the states are comparable)
            tap_enable(true);
            active2.store(true, std::sync::atomic::Ordering::SeqCst);
            let mut hs = Vec::new();
            for (tid, reqs) in sc2.threads.iter().enumerate() {
                let (w, reqs, sh) = (w.clone(), reqs.clone(), sh2.clone());
                let h = shuttle::thread::Builder::new()
                    .name(format!("t{}", tid))
                    .spawn(move || {
                        for (i, r) in reqs.iter().enumerate() {
                            tap_mark(1000 + i);
                            let out = do_req(&w, r);
                            sh.lock().unwrap().replies.push((tid, i, out));
                        }
                        tap_mark(tid);
                    })
                    .unwrap();
                hs.push(h);
            }
            for h in hs {
                h.join().unwrap();
            }
            active2.store(false, std::sync::atomic::Ordering::SeqCst);
            tap_enable(false);
        } else {
            let _ = classify(&w);
            if clock_advances(&sc2) {
                w.clock.arm();
            }
            let mut next = vec![0usize; sc2.threads.len()];
            for &tid in order.as_ref().unwrap() {
                let i = next[tid];
                next[tid] += 1;
                let out = do_req(&w, &sc2.threads[tid][i]);
                sh2.lock().unwrap().replies.push((tid, i, out));
            }
        }
        let d = digest(&w);
        let mut g = sh2.lock().unwrap();
        g.store_log = w.store.log();
        g.final_state = d;
        g.completed = true;
    });
    tap_enable(false);
    let mut raw = std::mem::take(&mut *ps.drained.lock().unwrap());
    raw.extend(tap_take());
    let mut out = std::mem::take(&mut *shared.lock().unwrap());
    out.trace.clear();
    out.points = ps.points.load(std::sync::atomic::Ordering::SeqCst);
    if let Err(msg) = res {
        out.completed = false;
        out.failure = Some(msg);
    }
    if concurrent {
        let cl = classes.lock().unwrap();
        // mutexes created while the requests run: the slot of a channel made by new_channel, and the
        // new slot + monitor state made by setup_channel.  Named at first sight from the request
        // the touching thread is executing (setup_channel touches the new monitor while it holds the
        // stub's slot, and the new slot while it holds no slot).
        let mut unknown: BTreeMap<usize, String> = BTreeMap::new();
        let n_threads = sc.threads.len();
        let mut cur_req = vec![0usize; n_threads];
        let mut holds_slot = vec![0usize; n_threads];
        let mut held_now: Vec<Vec<String>> = vec![Vec::new(); n_threads];
        for e in raw.iter() {
            let tid = thread_index(&e.thread);
            if tid >= n_threads {
                continue; // main thread
            }
            if e.kind == LockEventKind::Mark {
                if e.addr >= 1000 {
                    cur_req[tid] = e.addr - 1000;
                } else {
                    out.trace.push(Ev { tid, k: 'f', class: String::new() });
                }
                continue;
            }
            let class = match cl.get(&e.addr) {
                Some(c) => c.clone(),
                None => {
                    let n = unknown.len();
                    unknown
                        .entry(e.addr)
                        .or_insert_with(|| {
                            let in_setup = matches!(sc.threads[tid].get(cur_req[tid]), Some(Req::SetupChan));
                            let creates = sc.threads.iter().flatten().any(|q| matches!(q, Req::SetupChan | Req::NewChan(_) | Req::RNewChan(_)));
                            if in_setup && holds_slot[tid] > 0 {
                                format!("monitor {}", 100 + n)
                            } else if creates {
                                format!("slot {}", 100 + n)
                            } else {
                                // no request of this scenario creates a mutex: a lock the harness does
                                // not know (the model answers bad-op: reported, never silently mapped)
                                format!("unclassified {}", n)
                            }
                        })
                        .clone()
                }
            };
            let k = match e.kind {
                LockEventKind::Want => 'w',
                LockEventKind::Acquired => 'a',
                LockEventKind::Released => 'r',
                LockEventKind::Mark => 'f',
            };
            if k == 'a' {
                for h in &held_now[tid] {
                    if *h != class {
                        // instance-aware: `slot 0 -> channels` and `channels -> slot 0` form a cycle,
                        // `channels -> slot 1` does not close it
                        out.req_edges.push((tid, cur_req[tid], h.clone(), class.clone()));
                    }
                }
                held_now[tid].push(class.clone());
            } else if k == 'r' {
                if let Some(p) = held_now[tid].iter().rposition(|c| *c == class) {
                    held_now[tid].remove(p);
                }
            }
            if class.starts_with("slot") {
                if k == 'a' {
                    holds_slot[tid] += 1;
                } else if k == 'r' {
                    holds_slot[tid] = holds_slot[tid].saturating_sub(1);
                }
            }
            out.trace.push(Ev { tid, k, class });
        }
    }
    out.replies.sort();
    out
}

// ------------------------------------------------------------------------------------------------
// analysis of a trace

/// per thread: held locks (in acquisition order) and the pending want, at the end of the trace
fn end_state(trace: &[Ev], nthreads: usize) -> (Vec<Vec<String>>, Vec<Option<String>>, Vec<bool>) {
    let mut held = vec![Vec::<String>::new(); nthreads];
    let mut want = vec![None; nthreads];
    let mut fin = vec![false; nthreads];
    for e in trace {
        if e.tid >= nthreads {
            continue;
        }
        match e.k {
            'w' => want[e.tid] = Some(e.class.clone()),
            'a' => {
                want[e.tid] = None;
                held[e.tid].push(e.class.clone());
            }
            'r' => {
                if let Some(p) = held[e.tid].iter().rposition(|c| *c == e.class) {
                    held[e.tid].remove(p);
                }
            }
            'f' => fin[e.tid] = true,
            _ => {}
        }
    }
    (held, want, fin)
}

fn base(class: &str) -> &str {
    class.split(' ').next().unwrap_or(class)
}

/// canonical description of the wait-for cycle among the blocked threads:
/// (`t0:node_state>slot 0 t1:slot 0>node_state`, kind `deadlock:node_state<->slot via a x b`)
/// Request kinds whose rows of the generated lock table are NOT rank-increasing (the complement of
/// `subKinds` in lean/VlsModel/Props/C20.lean; finding F11).  A deadlock in which none of the blocked
/// requests is of such a kind contradicts `C20_partial` and gets its own violation kind.
pub const CYCLIC_KINDS: &[&str] = &["add_block", "remove_block", "persist_all"];

pub fn describe_deadlock(sc: &Scenario, trace: &[Ev], replies: &[(usize, usize, String)]) -> (String, String) {
    let n = sc.threads.len();
    let (held, want, fin) = end_state(trace, n);
    let holder = |c: &str| (0..n).find(|t| held[*t].iter().any(|h| h == c));
    // follow wants from the first blocked thread until a thread repeats
    let start = (0..n).find(|t| !fin[*t] && want[*t].is_some());
    let mut cycle: Vec<usize> = Vec::new();
    if let Some(s) = start {
        let mut cur = s;
        let mut path = vec![];
        loop {
            if let Some(p) = path.iter().position(|x| *x == cur) {
                cycle = path[p..].to_vec();
                break;
            }
            path.push(cur);
            match want[cur].as_ref().and_then(|c| holder(c)) {
                Some(nx) => cur = nx,
                None => break,
            }
        }
    }
    // a thread asking for a lock it holds itself (re-entrant acquisition; the guards are released by the
    // unwinding afterwards, so this is read off the trace, not off the final state)
    let relock = {
        let mut h: Vec<Vec<String>> = vec![Vec::new(); n];
        let mut found = None;
        for e in trace {
            if e.tid >= n {
                continue;
            }
            match e.k {
                'w' if h[e.tid].contains(&e.class) => {
                    found = Some((e.tid, e.class.clone()));
                    break;
                }
                'a' => h[e.tid].push(e.class.clone()),
                'r' => {
                    if let Some(p) = h[e.tid].iter().rposition(|c| *c == e.class) {
                        h[e.tid].remove(p);
                    }
                }
                _ => {}
            }
        }
        found
    };
    if let Some((t, w)) = relock {
        let done = replies.iter().filter(|r| r.0 == t).count();
        let k = sc.threads[t].get(done).map(|r| r.kind()).unwrap_or("?");
        return (format!("t{}:{}>{} (requests: {})", t, w, w, k), format!("deadlock:self-relock:{}", base(&w)));
    }
    if cycle.is_empty() {
        let desc: Vec<String> = (0..n)
            .filter(|t| !fin[*t])
            .map(|t| format!("t{}:{}>{}", t, held[t].join("+"), want[t].clone().unwrap_or("-".into())))
            .collect();
        return (desc.join(" "), "deadlock:unidentified".into());
    }
    // rotate so that the smallest thread id comes first
    let m = cycle.iter().enumerate().min_by_key(|(_, t)| **t).map(|(i, _)| i).unwrap();
    cycle.rotate_left(m);
    let k = cycle.len();
    let mut parts = Vec::new();
    let mut classes = BTreeSet::new();
    let mut kinds = BTreeSet::new();
    for (i, &t) in cycle.iter().enumerate() {
        // the lock of t that its predecessor in the cycle wants
        let pred = cycle[(i + k - 1) % k];
        let wanted_from_t = want[pred].clone().unwrap_or_default();
        let w = want[t].clone().unwrap_or_default();
        parts.push(format!("t{}:{}>{}", t, wanted_from_t, w));
        classes.insert(base(&wanted_from_t).to_string());
        classes.insert(base(&w).to_string());
        // the request the thread is executing = the first one without a reply
        let done = replies.iter().filter(|r| r.0 == t).count();
        if let Some(r) = sc.threads[t].get(done) {
            kinds.insert(r.kind());
        }
    }
    let cls = classes.into_iter().collect::<Vec<_>>().join("<->");
    let via = kinds.iter().cloned().collect::<Vec<_>>().join(" x ");
    let kind = if kinds.contains("persist_all") {
        // finding F11d: whatever the other requests are, the inverted order is persist_all's
        "deadlock:persist_all-holds-node_state".to_string()
    } else if kinds.iter().any(|k| CYCLIC_KINDS.contains(k)) {
        format!("deadlock:{}", cls)
    } else {
        format!("deadlock-among-ordered-requests:{}", cls)
    };
    (format!("{} (requests: {})", parts.join(" "), via), kind)
}

/// the digest without the ` approver_vel=<n>` segment
fn strip_approver(digest: &str) -> String {
    match digest.find(" approver_vel=") {
        None => digest.to_string(),
        Some(a) => {
            let rest = &digest[a + 1..];
            let b = rest.find(' ').map(|k| a + 1 + k).unwrap_or(digest.len());
            format!("{}{}", &digest[..a], &digest[b..])
        }
    }
}

fn mem_part(digest: &str) -> &str {
    digest.split(" STORE[").next().unwrap_or(digest)
}

fn store_part(digest: &str) -> &str {
    digest.split(" STORE[").nth(1).unwrap_or("")
}

fn pay_part(digest: &str) -> &str {
    let a = digest.find("pay=[").unwrap_or(0);
    let b = digest[a..].find(']').map(|k| a + k).unwrap_or(digest.len());
    &digest[a..b]
}

/// slot acquired while a slot with a larger rank is held
fn slot_descending(trace: &[Ev], nthreads: usize) -> Option<String> {
    let mut held = vec![Vec::<String>::new(); nthreads];
    for e in trace {
        if e.tid >= nthreads {
            continue;
        }
        match e.k {
            'a' => {
                if let Some(i) = e.class.strip_prefix("slot ").and_then(|s| s.parse::<usize>().ok()) {
                    for h in &held[e.tid] {
                        if let Some(j) = h.strip_prefix("slot ").and_then(|s| s.parse::<usize>().ok()) {
                            if j >= i && i < 100 && j < 100 {
                                return Some(format!("thread {} acquired slot {} while holding slot {}", e.tid, i, j));
                            }
                        }
                    }
                }
                held[e.tid].push(e.class.clone());
            }
            'r' => {
                if let Some(p) = held[e.tid].iter().rposition(|c| *c == e.class) {
                    held[e.tid].remove(p);
                }
            }
            _ => {}
        }
    }
    None
}

/// all merges of the threads' request lists that respect program order (as thread-index sequences)
fn serial_orders(lens: &[usize]) -> Vec<Vec<usize>> {
    fn go(rem: &mut Vec<usize>, cur: &mut Vec<usize>, out: &mut Vec<Vec<usize>>) {
        if rem.iter().all(|x| *x == 0) {
            out.push(cur.clone());
            return;
        }
        for t in 0..rem.len() {
            if rem[t] > 0 {
                rem[t] -= 1;
                cur.push(t);
                go(rem, cur, out);
                cur.pop();
                rem[t] += 1;
            }
        }
    }
    let mut out = Vec::new();
    go(&mut lens.to_vec(), &mut Vec::new(), &mut out);
    out
}

// ------------------------------------------------------------------------------------------------

pub struct C20 {
    /// quick tier (a third of the generated pairs per run) or thorough (all of them)
    quick: bool,
    /// run seed (selects the third)
    seed: u64,
    /// scenario text -> outcomes (replies, final state) of every sequential order
    serial_cache: RefCell<HashMap<String, Vec<(Vec<(usize, usize, String)>, String, bool)>>>,
    /// case text -> result of the run done while generating the case
    run_cache: RefCell<HashMap<String, RunResult>>,
    /// scenario being scheduled and how many more schedules it gets
    current: RefCell<Option<(Scenario, usize)>>,
    /// lock-order graph observed so far (class level): (held, acquired) -> a request that did it
    edge_src: RefCell<BTreeMap<(String, String), (Req, usize, bool)>>,
    /// class cycles already turned into directed cases
    cycles_done: RefCell<BTreeSet<Vec<String>>>,
    /// directed cases waiting to be generated: (cycle id, scenario, scheduler, seed)
    directed: RefCell<std::collections::VecDeque<(usize, Scenario, Sched, u64)>>,
    /// directed enumerations that are finished: (cycle id, first thread) exhausted / cycle found
    directed_stop: RefCell<BTreeSet<(usize, usize)>>,
}

const SCHEDULES_PER_SCENARIO: usize = 5;
const DIRECTED_MAX_POINTS: usize = 150;
const DIRECTED_RANDOM: usize = 200;
const CORPUS_MAX_POINTS: usize = 60;

fn scenario_lines(sc: &Scenario) -> Vec<String> {
    let mut v = vec![format!("setup {} {}", sc.nchan, if sc.stub { 1 } else { 0 })];
    for (tid, reqs) in sc.threads.iter().enumerate() {
        for r in reqs {
            v.push(r.line(tid));
        }
    }
    v
}

fn parse_case(ops: &[String]) -> Option<(Scenario, Sched, u64, Vec<String>)> {
    let mut sc = Scenario::default();
    let mut sched = None;
    let mut evs = Vec::new();
    for l in ops {
        let t: Vec<&str> = l.split(' ').collect();
        match t[0] {
            "setup" => {
                sc.nchan = t.get(1)?.parse().ok()?;
                sc.stub = *t.get(2)? == "1";
            }
            "req" => {
                let (tid, r) = Req::parse(&t)?;
                while sc.threads.len() <= tid {
                    sc.threads.push(vec![]);
                }
                sc.threads[tid].push(r);
            }
            "run" => {
                let s = match *t.get(1)? {
                    "pct" => Sched::Pct,
                    "preempt" => Sched::Preempt,
                    _ => Sched::Random,
                };
                sched = Some((s, t.get(2)?.parse::<u64>().ok()?));
            }
            "ev" => evs.push(l.clone()),
            "end" => {}
            _ => return None,
        }
    }
    let (s, seed) = sched?;
    if sc.nchan > 4 || sc.threads.is_empty() || sc.threads.len() > 4 {
        return None;
    }
    Some((sc, s, seed, evs))
}

impl C20 {
    /// run the scenario once under (sched, seed) and embed the observed lock trace in the case
    fn make_case(&self, sc: &Scenario, sched: Sched, seed: u64) -> Vec<String> {
        self.make_case_r(sc, sched, seed).0
    }

    /// ... also returns (switch points counted by the Preempt scheduler, completed)
    fn make_case_r(&self, sc: &Scenario, sched: Sched, seed: u64) -> (Vec<String>, usize, bool) {
        let sc = sc.clone();
        let mut ops = scenario_lines(&sc);
        let sname = match sched {
            Sched::Pct => "pct",
            Sched::Random => "random",
            Sched::Preempt => "preempt",
        };
        ops.push(format!("run {} {}", sname, seed));
        let r = run_scenario(&sc, sched, seed, None);
        if std::env::var("VERIF_C20_DET").is_ok() {
            let r2 = run_scenario(&sc, sched, seed, None);
            if r2.trace != r.trace {
                let k = r.trace.iter().zip(r2.trace.iter()).position(|(a, b)| a != b).unwrap_or(0);
                eprintln!("NONDET {:?} {:?} seed {} at {}: {:?} vs {:?} (len {} {}) completed {} {}", sc, sched, seed, k, r.trace.get(k), r2.trace.get(k), r.trace.len(), r2.trace.len(), r.completed, r2.completed);
            }
        }
        for e in &r.trace {
            ops.push(e.line());
        }
        let aborted = r.failure.as_deref().map(|m| m.starts_with("process aborted")).unwrap_or(false);
        ops.push(if aborted { "end abort".into() } else { "end".into() });
        self.lockdep(&sc, &r);
        let (points, completed) = (r.points, r.completed);
        self.run_cache.borrow_mut().insert(ops.join("\n"), r);
        (ops, points, completed)
    }

    /// Lock-order graph over everything observed so far.  A new cycle of lock classes (length 2 or
    /// 3) whose edges come from requests outside the known-cyclic kinds is a potential deadlock even if
    /// no schedule showed it yet: queue directed cases (the requests that produced the edges, one per
    /// thread) — for two threads the complete single-preemption enumeration in both orders, for three
    /// threads a batch of random/PCT schedules — so that the deadlock is exhibited as a concrete run.
    fn lockdep(&self, sc: &Scenario, r: &RunResult) {
        let mut fresh = Vec::new();
        {
            let mut g = self.edge_src.borrow_mut();
            for (tid, ri, a, b) in &r.req_edges {
                let req = match sc.threads.get(*tid).and_then(|t| t.get(*ri)) {
                    Some(q) => q.clone(),
                    None => continue,
                };
                if CYCLIC_KINDS.contains(&req.kind()) {
                    continue;
                }
                let key = (a.clone(), b.clone());
                if !g.contains_key(&key) {
                    g.insert(key.clone(), (req, sc.nchan, sc.stub));
                    fresh.push(key);
                }
            }
        }
        let g = self.edge_src.borrow();
        for (a, b) in fresh {
            let mut cycles: Vec<Vec<(String, String)>> = Vec::new();
            if g.contains_key(&(b.clone(), a.clone())) {
                cycles.push(vec![(a.clone(), b.clone()), (b.clone(), a.clone())]);
            }
            for ((x, c), _) in g.iter() {
                if *x == b && *c != a && g.contains_key(&(c.clone(), a.clone())) {
                    cycles.push(vec![(a.clone(), b.clone()), (b.clone(), c.clone()), (c.clone(), a.clone())]);
                }
            }
            for cyc in cycles {
                let mut classes: Vec<String> = cyc.iter().map(|e| e.0.clone()).collect();
                classes.sort();
                if !self.cycles_done.borrow_mut().insert(classes) {
                    continue;
                }
                let id = self.cycles_done.borrow().len();
                let srcs: Vec<&(Req, usize, bool)> = cyc.iter().map(|e| &g[e]).collect();
                let dsc = Scenario {
                    nchan: srcs.iter().map(|s| s.1).max().unwrap_or(1),
                    stub: srcs.iter().any(|s| s.2),
                    threads: srcs.iter().map(|s| vec![s.0.clone()]).collect(),
                };
                if std::env::var("VERIF_C20_DBG").is_ok() {
                    eprintln!("LOCKDEP cycle {:?} -> directed {:?}", cyc, dsc);
                }
                let mut q = self.directed.borrow_mut();
                if dsc.threads.len() == 2 {
                    for k in 0..DIRECTED_MAX_POINTS {
                        for first in 0..2 {
                            q.push_back((id, dsc.clone(), Sched::Preempt, preempt_code(first, true, k)));
                        }
                    }
                } else {
                    for k in 0..DIRECTED_RANDOM as u64 {
                        q.push_back((id, dsc.clone(), if k % 2 == 0 { Sched::Pct } else { Sched::Random }, 0x5eed_0000 + k * 7919));
                    }
                }
            }
        }
    }

    /// next directed case, if any is pending
    fn next_directed(&self) -> Option<Vec<String>> {
        loop {
            let (id, sc, sched, seed) = self.directed.borrow_mut().pop_front()?;
            let first = if sched == Sched::Preempt { (seed / 100_000) as usize } else { 9 };
            {
                let stop = self.directed_stop.borrow();
                if stop.contains(&(id, 99)) || stop.contains(&(id, first)) {
                    continue;
                }
            }
            let (ops, points, completed) = self.make_case_r(&sc, sched, seed);
            if !completed {
                // exhibited: no more directed cases for this cycle
                self.directed_stop.borrow_mut().insert((id, 99));
            } else if sched == Sched::Preempt && points <= (seed % 50_000) as usize {
                // the first thread has no such switch point: this order is exhausted
                self.directed_stop.borrow_mut().insert((id, first));
            }
            return Some(ops);
        }
    }

    /// complete single-preemption enumeration of a two-thread scenario (both orders), preempting the
    /// first thread after each of its lock releases
    fn enumerate_pair(&self, sc: &Scenario, out: &mut Vec<Vec<String>>) {
        for first in 0..2usize {
            for k in 0..CORPUS_MAX_POINTS {
                let (ops, points, _) = self.make_case_r(sc, Sched::Preempt, preempt_code(first, false, k));
                out.push(ops);
                if points <= k {
                    break;
                }
            }
        }
    }

    fn serial_outcomes(&self, sc: &Scenario) -> Vec<(Vec<(usize, usize, String)>, String, bool)> {
        let key = scenario_lines(sc).join("\n");
        if let Some(v) = self.serial_cache.borrow().get(&key) {
            return v.clone();
        }
        let lens: Vec<usize> = sc.threads.iter().map(|t| t.len()).collect();
        let mut outs = Vec::new();
        for o in serial_orders(&lens) {
            let r = run_scenario(sc, Sched::Random, 1, Some(o));
            outs.push((r.replies, r.final_state, r.completed));
        }
        self.serial_cache.borrow_mut().insert(key, outs.clone());
        outs
    }

    fn evaluate(&self, ops: &[String], sc: &Scenario, embedded: &[String], r: &RunResult) -> CaseOut {
        let mut co = CaseOut::default();
        let n_ops = ops.len();
        // one output line per op: everything before `end` is "ok"
        for l in ops {
            if l.starts_with("end") {
                break;
            }
            co.out.push("ok".into());
        }
        let observed: Vec<String> = r.trace.iter().map(|e| e.line()).collect();
        let nthreads = sc.threads.len();
        let verdict;
        if r.completed {
            verdict = "done".to_string();
            co.tags.insert("completed".into());
            // serializability
            let serial = self.serial_outcomes(sc);
            let mine = (&r.replies, &r.final_state);
            if !serial.iter().any(|(rep, fin, ok)| *ok && rep == mine.0 && fin == mine.1) {
                // a specific shape gets its own kind: a channel created by new_channel(dbid) exists at the
                // end although the high-water mark has reached dbid (the id was handed out again after
                // a forget_channel raised the mark)
                let hwm: u64 = r.final_state.strip_prefix("hwm=").and_then(|t| t.split(' ').next()).and_then(|t| t.parse().ok()).unwrap_or(0);
                let reuse = sc.threads.iter().flatten().any(|q| match q {
                    Req::NewChan(d) | Req::RNewChan(d) => *d <= hwm && r.final_state.contains(&format!("/oid{}=stub;", d)),
                    _ => false,
                });
                // setup_channel made a channel ready although a concurrent forget_channel of its stub was
                // acknowledged: the channel is alive, unforgotten, at or below the high-water mark
                let resurrected = sc.threads.iter().flatten().any(|q| matches!(q, Req::SetupChan))
                    && r.final_state.split(';').any(|seg| {
                        seg.trim_start().starts_with("oid200=ready") && seg.contains("forget=false") && hwm >= 200
                    });
                co.violations.push(Violation {
                    kind: if resurrected {
                        "forgotten-channel-resurrected:setup_channel".into()
                    } else if reuse {
                        "id-reuse:new_channel-after-forget".into()
                    } else if serial.iter().any(|(rep, fin, ok)| *ok && rep == mine.0 && strip_approver(fin) == strip_approver(mine.1)) {
                        // replies, node, channels, tracker and store are those of a sequential order; only
                        // the velocity charged to the front end's VelocityApprover is not (finding F11e)
                        "non-serializable-outcome:approver-velocity".into()
                    } else if serial.iter().any(|(rep, fin, ok)| *ok && rep == mine.0 && mem_part(fin) == mem_part(mine.1)) {
                        // replies and in-memory state are those of a sequential order, the STORED state
                        // (what a restart reads back) is not the one of that order
                        "non-serializable-outcome:store".into()
                    } else if serial.iter().any(|(_, fin, ok)| *ok && fin == mine.1) {
                        // the final state is that of a sequential order, the replies are not
                        "non-serializable-outcome:replies".into()
                    } else if !serial.iter().any(|(_, fin, ok)| *ok && pay_part(fin) == pay_part(&r.final_state)) {
                        // the in-flight payment totals themselves equal no sequential order
                        "non-serializable-outcome:payments".into()
                    } else {
                        "non-serializable-outcome".into()
                    },
                    desc: format!(
                        "concurrent outcome equals none of the {} sequential orders: replies {:?} final {}; store writes: {}; first sequential: {:?}",
                        serial.len(), r.replies, r.final_state, r.store_log, serial.first()
                    ),
                    at: n_ops - 1,
                });
            }
            if serial.len() > 1 && serial.iter().any(|s| (&s.0, &s.1) != (&serial[0].0, &serial[0].1)) {
                co.tags.insert("order-sensitive".into());
            }
        } else {
            let msg = r.failure.clone().unwrap_or_default();
            if msg.contains("deadlock") {
                let (desc, kind) = describe_deadlock(sc, &r.trace, &r.replies);
                verdict = format!("deadlock {}", desc.split(" (requests").next().unwrap_or(""));
                co.tags.insert(kind.clone());
                co.violations.push(Violation {
                    kind,
                    desc: format!("shuttle: {} | wait-for cycle: {}", msg.lines().next().unwrap_or(""), desc),
                    at: n_ops - 1,
                });
            } else if msg.starts_with("process aborted") {
                // the process died: a panic while another panic was unwinding (no lock trace survives)
                verdict = "abort".to_string();
                co.tags.insert("abort".into());
                co.violations.push(Violation {
                    kind: "abort".into(),
                    desc: format!("the signer process aborts under this schedule: {}", msg),
                    at: n_ops - 1,
                });
            } else {
                verdict = "panic".to_string();
                co.tags.insert("panic".into());
                let serial = self.serial_outcomes(sc);
                if serial.iter().all(|s| s.2) {
                    co.violations.push(Violation {
                        kind: "panic".into(),
                        desc: format!("panicked under this schedule but under no sequential order: {}", msg.lines().next().unwrap_or("")),
                        at: n_ops - 1,
                    });
                }
            }
        }
        if let Some(d) = slot_descending(&r.trace, nthreads) {
            co.violations.push(Violation { kind: "lock-order:slot-descending".into(), desc: d, at: n_ops - 1 });
        }
        let truncated = !ops.iter().any(|l| l.starts_with("end"));
        if !(embedded == observed.as_slice() || (truncated && observed.starts_with(embedded))) {
            // a hand-edited / shrunk case whose embedded trace is not the trace of its scenario
            if std::env::var("VERIF_C20_DET").is_ok() {
                let k = embedded.iter().zip(observed.iter()).position(|(a, b)| a != b).unwrap_or(embedded.len().min(observed.len()));
                eprintln!("STALE at {} of {}/{}: {:?} vs {:?}; completed {} failure {:?}\n  ops {:?}", k, embedded.len(), observed.len(), embedded.get(k), observed.get(k), r.completed, r.failure.as_ref().map(|s| s.lines().next().unwrap_or("").to_string()), ops.iter().filter(|o| !o.starts_with("ev")).collect::<Vec<_>>());
            }
            panic!("stale trace: the embedded ev lines are not the lock trace of this scenario and schedule");
        }
        if !truncated {
            co.out.push(verdict);
        } else {
            co.violations.clear(); // a prefix of a case (correspondence shrinking): outputs only
        }
        co.out.truncate(n_ops);
        let blocked = r.trace.windows(2).any(|w| w[0].k == 'w' && !(w[1].k == 'a' && w[1].tid == w[0].tid));
        if blocked {
            co.tags.insert("contended".into());
        }
        for t in &sc.threads {
            for q in t {
                co.tags.insert(format!("req:{}", q.kind()));
            }
        }
        // result classes of the sweep-signing requests (signed / refused by the destination policy / other)
        for (tid, k, rep) in &r.replies {
            if let Some(Req::Sweep(_, v)) = sc.threads.get(*tid).and_then(|t| t.get(*k)) {
                let class = if rep.starts_with("ok") {
                    "signed"
                } else if rep.contains("destination") || rep.contains("policy") {
                    "refused-destination"
                } else {
                    "other"
                };
                co.tags.insert(format!("sweep{}:{}", v, class));
            }
        }
        co.nontrivial = blocked || !r.completed;
        co
    }
}

#[path = "gen_pairs.rs"]
mod gen_pairs;

/// one representative request per request kind of the generated lock table (None: the harness has no
/// request of that kind, or it needs a preceding request — remove_block)
pub fn kind_representative(kind: &str) -> Option<Req> {
    Some(match kind {
        "channel_request" => Req::Validate(0),
        "channel_base_request" => Req::Point(0),
        "forget_channel" => Req::Forget(0),
        "channel_balance" => Req::Balance,
        "chaninfo" => Req::Chaninfo,
        "check_onchain_tx" => Req::Onchain,
        "unchecked_sign_onchain_tx" => Req::SignOnchain,
        "new_channel" => Req::NewChan(50),
        "setup_channel" => Req::SetupChan,
        "get_heartbeat" => Req::Heartbeat,
        "add_invoice" => Req::Invoice(1),
        "add_keysend" => Req::Keysend(1),
        "add_allowlist" => Req::Allow(0),
        "add_block" => Req::AddBlock(0),
        "persist_all" => Req::PersistAll,
        _ => return None,
    })
}

fn gen_scenario(rng: &mut Rng) -> Scenario {
    let nchan = rng.range(1, 3) as usize;
    let stub = rng.chance(1, 4);
    let nthreads = rng.range(2, 3) as usize;
    let mut threads = Vec::new();
    let mut total = 0;
    for _ in 0..nthreads {
        let len = if total < 4 && rng.chance(1, 3) { 2 } else { 1 };
        total += len;
        let mut v = Vec::new();
        for _ in 0..len {
            let c = rng.below(nchan as u64) as usize;
            let r = match rng.below(41) {
                0..=3 => Req::Validate(c),
                4 => Req::SignCp(c),
                5 => Req::SignHolder(c),
                6 => Req::Point(c),
                7..=8 => Req::Forget(if rng.chance(1, 5) { 9 } else { c }),
                9..=11 => Req::Balance,
                12 => Req::Chaninfo,
                13..=14 => Req::Heartbeat,
                15..=17 => Req::Keysend(rng.below(3) as u8),
                18..=20 => Req::Invoice(rng.below(3) as u8),
                21 => Req::Allow(rng.below(2) as u8),
                // dbids 1..3 are the ready channels, 200 the stub, 50/100/150 fresh ones
                22..=23 => {
                    let d = *rng.pick(&[1u64, 2, 50, 100, 150, 200]);
                    if rng.chance(1, 3) { Req::ForgetDb(d) } else { Req::NewChan(d) }
                }
                24 => Req::Onchain,
                25 => Req::SetupChan,
                26 => Req::SignOnchain,
                27..=28 => Req::AddBlock(c),
                29 => Req::RmBlock,
                30..=32 => Req::PayCp(c),
                33 => Req::PayCp1(c),
                34..=35 => Req::PayHv(c),
                36..=37 => Req::HVal(c, rng.below(2) as u8),
                40 => Req::PersistAll,
                39 => Req::Sweep(c, rng.below(2) as u8),
                _ => Req::Refused(c),
            };
            v.push(r);
        }
        threads.push(v);
    }
    // same request issued twice concurrently (check-then-act and lookup/insert races need that)
    if rng.chance(1, 4) {
        let dup = threads[0][0].clone();
        let last = threads.len() - 1;
        threads[last][0] = dup;
    }
    Scenario { nchan, stub, threads }
}

impl Group for C20 {
    fn property(&self) -> &'static str {
        "C20"
    }
    fn model(&self) -> Option<&'static str> {
        Some("locks")
    }
    fn rule(&self) -> &'static str {
        "non-trivial = at least one thread had to wait for a lock held by another thread (contention in the observed trace) or the schedule did not complete"
    }
    fn gen_case(&self, rng: &mut Rng, _tier: Tier) -> Vec<String> {
        if let Some(ops) = self.next_directed() {
            return ops;
        }
        // several schedules per scenario: the sequential orders of a scenario are executed once
        let sc = {
            let mut cur = self.current.borrow_mut();
            match cur.take() {
                Some((sc, left)) if left > 0 => {
                    *cur = Some((sc.clone(), left - 1));
                    sc
                }
                _ => {
                    let sc = gen_scenario(rng);
                    *cur = Some((sc.clone(), SCHEDULES_PER_SCENARIO - 1));
                    sc
                }
            }
        };
        let sched = if rng.chance(1, 2) { Sched::Pct } else { Sched::Random };
        let seed = rng.next() >> 16;
        self.make_case(&sc, sched, seed)
    }
    fn exec_case(&self, ops: &[String]) -> CaseOut {
        let (sc, sched, seed, evs) = match parse_case(ops) {
            Some(x) => x,
            None => panic!("malformed C20 case"),
        };
        let cached = self.run_cache.borrow_mut().remove(&ops.join("\n"));
        let r = match cached {
            Some(r) => r,
            None => run_scenario(&sc, sched, seed, None),
        };
        self.evaluate(ops, &sc, &evs, &r)
    }
    fn budget(&self, tier: Tier) -> usize {
        match tier {
            Tier::Quick => 350,
            Tier::Thorough => 50_000,
        }
    }
    fn corpus(&self) -> Vec<Vec<String>> {
        // (1) curated two-thread pairs, complete single-preemption enumeration (the first thread is
        //     preempted after each of its lock releases, both orders): check-then-act, lookup/insert,
        //     split read-modify-write and lost-update races need exactly one preemption at the right
        //     release, and this finds it deterministically.
        let p = |nchan: usize, stub: bool, a: Req, b: Req| Scenario { nchan, stub, threads: vec![vec![a], vec![b]] };
        let pairs = vec![
            // same request twice
            p(1, false, Req::NewChan(50), Req::NewChan(50)),
            p(1, true, Req::Forget(9), Req::Forget(9)),
            p(1, false, Req::Invoice(1), Req::Invoice(1)),
            p(1, false, Req::Keysend(1), Req::Keysend(1)),
            // approvals and fee control with a clock that advances on every read: a time read before the
            // node-state lock and used after another request's later time must not break the windows
            p(1, false, Req::Keysend(1), Req::Keysend(2)),
            p(1, false, Req::Invoice(1), Req::Invoice(2)),
            p(1, false, Req::Invoice(1), Req::Keysend(2)),
            p(1, false, Req::Keysend(1), Req::Heartbeat),
            p(1, false, Req::Invoice(1), Req::Heartbeat),
            p(1, false, Req::Keysend(1), Req::Onchain),
            p(1, false, Req::Invoice(1), Req::Onchain),
            p(1, true, Req::SetupChan, Req::SetupChan),
            p(1, false, Req::Forget(0), Req::Forget(0)),
            // id reuse
            p(1, true, Req::ForgetDb(200), Req::NewChan(200)),
            p(1, false, Req::NewChan(1), Req::Forget(0)),
            // one approved payment, two channels
            p(2, false, Req::PayCp(0), Req::PayCp(1)),
            p(2, false, Req::PayHv(0), Req::PayHv(1)),
            p(2, false, Req::PayCp1(0), Req::PayCp1(1)),
            p(2, false, Req::PayCp(0), Req::PayHv(1)),
            // one handler request = validation + revocation of one channel (protocol version 4)
            p(1, false, Req::HVal(0, 0), Req::HVal(0, 1)),
            p(1, false, Req::HVal(0, 0), Req::HVal(0, 0)),
            p(1, false, Req::HVal(0, 0), Req::SignHolder(0)),
            p(1, false, Req::HVal(0, 1), Req::Validate(0)),
            p(1, false, Req::HVal(0, 0), Req::Heartbeat),
            // refused validations against the tracker users
            p(1, false, Req::Refused(0), Req::Heartbeat),
            p(1, true, Req::Refused(0), Req::SetupChan),
            p(1, false, Req::Refused(0), Req::SignOnchain),
            p(1, false, Req::Refused(0), Req::Validate(0)),
            p(1, false, Req::Refused(0), Req::AddBlock(0)),
            // sweep signing (validator -> wallet / allowlist under the slot) against the users of node_state,
            // the tracker and the channel
            p(1, false, Req::Sweep(0, 0), Req::Allow(0)),
            p(1, false, Req::Sweep(0, 1), Req::Allow(1)),
            p(1, false, Req::Sweep(0, 0), Req::Validate(0)),
            p(1, false, Req::Sweep(0, 1), Req::Heartbeat),
            p(1, false, Req::Sweep(0, 0), Req::AddBlock(0)),
            p(1, false, Req::Sweep(0, 0), Req::SignOnchain),
            p(1, false, Req::Sweep(0, 1), Req::Forget(0)),
            p(2, false, Req::Sweep(0, 0), Req::Sweep(1, 1)),
            // same channel read-modify-write
            p(1, false, Req::Validate(0), Req::SignCp(0)),
            p(1, false, Req::Validate(0), Req::SignHolder(0)),
            p(1, false, Req::PayCp(0), Req::Validate(0)),
            // map / tracker / ledger users against each other
            p(1, true, Req::SetupChan, Req::NewChan(50)),
            p(1, true, Req::SetupChan, Req::Forget(9)),
            p(1, true, Req::SetupChan, Req::AddBlock(0)),
            // a channel created and forgotten / set up concurrently (memory and store must agree with one order)
            p(1, false, Req::NewChan(50), Req::ForgetDb(50)),
            p(1, false, Req::NewChan(50), Req::Heartbeat),
            // read-only requests against a block: the reply must be one a sequential order gives
            p(1, false, Req::Heartbeat, Req::AddBlock(0)),
            p(1, false, Req::Balance, Req::AddBlock(0)),
            p(1, false, Req::Chaninfo, Req::AddBlock(0)),
            p(1, false, Req::Heartbeat, Req::Validate(0)),
            p(1, false, Req::Balance, Req::PayCp(0)),
            p(1, true, Req::SetupChan, Req::Heartbeat),
            p(1, false, Req::Heartbeat, Req::Forget(0)),
            p(1, false, Req::Onchain, Req::Onchain),
            p(1, false, Req::SignOnchain, Req::Forget(0)),
            p(1, false, Req::AddBlock(0), Req::Forget(0)),
            // protocol level (real RootHandler arms, velocity approver): duplicate and mixed approvals,
            // channel creation against forgetting, tip info against a block
            p(1, false, Req::RPreInvoice(1), Req::RPreInvoice(1)),
            p(1, false, Req::RPreKeysend(1), Req::RPreKeysend(1)),
            p(1, false, Req::RPreInvoice(1), Req::RPreKeysend(2)),
            p(1, false, Req::RPreInvoice(1), Req::Invoice(1)),
            p(1, false, Req::RPreInvoice(1), Req::RPreInvoice(2)),
            p(1, false, Req::RNewChan(50), Req::RForget(50)),
            p(1, false, Req::RNewChan(50), Req::RNewChan(50)),
            p(1, false, Req::RTipInfo, Req::AddBlock(0)),
            p(1, false, Req::RPreKeysend(1), Req::Heartbeat),
            p(1, false, Req::RForget(1), Req::Validate(0)),
            p(1, false, Req::RHeartbeat, Req::RForget(1)),
            p(1, false, Req::RHeartbeat, Req::Validate(0)),
            p(1, false, Req::RHeartbeat, Req::RNewChan(50)),
            p(1, false, Req::HSignLocal(0), Req::Keysend(1)),
            p(1, false, Req::HSignLocal(0), Req::HVal(0, 0)),
            p(1, false, Req::HSignLocal(0), Req::Balance),
            // (round 10) two more ChannelHandler arms: GetPerCommitmentPoint2 (with_channel_base), CheckFutureSecret
            p(1, false, Req::HPoint(0), Req::HVal(0, 0)),
            p(1, false, Req::HPoint(0), Req::Forget(0)),
            p(1, false, Req::HFuture(0), Req::Validate(0)),
            p(1, false, Req::HFuture(0), Req::AddBlock(0)),
            p(2, false, Req::HFuture(0), Req::HPoint(1)),
        ];
        let mut out = Vec::new();
        for sc in &pairs {
            self.enumerate_pair(sc, &mut out);
        }
        // (1b) pairs GENERATED from the lock table of the current sources (translate/x_locks.py ->
        //      gen_pairs.rs): every two request kinds whose programs touch a common lock class, one
        //      representative request each, complete single-preemption enumeration in both orders.
        let mut seen: BTreeSet<String> = pairs.iter().map(|sc| scenario_lines(sc).join("|")).collect();
        //      Quick tier: a third of them per run, selected by the seed (seeds 1..3 cover all); thorough: all.
        for (gi, (ka, kb)) in gen_pairs::GEN_PAIRS.iter().enumerate() {
            if self.quick && (gi as u64 + self.seed) % 3 != 0 {
                continue;
            }
            if let (Some(a), Some(b)) = (kind_representative(ka), kind_representative(kb)) {
                let stub = a == Req::SetupChan || b == Req::SetupChan;
                let sc = p(1, stub, a, b);
                if seen.insert(scenario_lines(&sc).join("|")) {
                    self.enumerate_pair(&sc, &mut out);
                }
            }
        }
        // (2) three-thread scenarios and the known slot<->monitor cycle under random/PCT schedules
        let scs = vec![
            Scenario { nchan: 1, stub: false, threads: vec![vec![Req::AddBlock(0), Req::RmBlock], vec![Req::Validate(0)]] },
            Scenario { nchan: 1, stub: false, threads: vec![vec![Req::Invoice(1)], vec![Req::Keysend(1)], vec![Req::Balance]] },
            Scenario { nchan: 1, stub: false, threads: vec![vec![Req::Invoice(2)], vec![Req::Validate(0)], vec![Req::Keysend(2)]] },
            Scenario { nchan: 3, stub: false, threads: vec![vec![Req::PayCp(0)], vec![Req::PayCp(1)], vec![Req::PayHv(2)]] },
            Scenario { nchan: 1, stub: true, threads: vec![vec![Req::SetupChan], vec![Req::SignOnchain], vec![Req::Balance]] },
            Scenario { nchan: 1, stub: false, threads: vec![vec![Req::NewChan(100), Req::ForgetDb(100)], vec![Req::NewChan(50)], vec![Req::NewChan(100)]] },
        ];
        for sc in &scs {
            for seed in 1..=8u64 {
                out.push(self.make_case(sc, if seed % 2 == 0 { Sched::Pct } else { Sched::Random }, seed * 7919));
            }
        }
        out
    }
}

/// debug helper: `VERIF_C20_TRY="signcp 0"` prints the sequential reply of one request
pub fn try_req() {
    if let Ok(v) = std::env::var("VERIF_C20_TRY") {
        let line = format!("req 0 {}", v);
        let t: Vec<&str> = line.split(' ').collect();
        let (_, r) = Req::parse(&t).expect("request");
        let sc = Scenario { nchan: 2, stub: true, threads: vec![vec![r.clone(), r]] };
        let out = run_scenario(&sc, Sched::Random, 1, Some(vec![0, 0]));
        println!("{:?}\n{}", out.replies, out.final_state);
        std::process::exit(0);
    }
}

pub fn groups(quick: bool, seed: u64) -> Vec<Box<dyn Group>> {
    vec![Box::new(C20 { quick, seed, serial_cache: RefCell::new(HashMap::new()), run_cache: RefCell::new(HashMap::new()), current: RefCell::new(None), edge_src: RefCell::new(BTreeMap::new()), cycles_done: RefCell::new(BTreeSet::new()), directed: RefCell::new(Default::default()), directed_stop: RefCell::new(BTreeSet::new()) })]
}
