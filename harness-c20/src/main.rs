//! vls-verif-harness-c20: property C20 (concurrency) harness.  Same command line and report format
//! as `harness/src/main.rs`; built with `--cfg vls_verif` (hooks H1 + H2 in /repo) so that the real
//! `Node`/`Channel` code runs under shuttle's controlled scheduler with the lock-event tap.
//!
//!   harness-c20 C20 --tier quick|thorough --seed N --model-bin PATH --out report.json
//!               [--replay FILE] [--group NAME] [--cases N]
#[allow(dead_code)]
#[path = "../../harness/src/common.rs"]
mod common;
mod c20;
use common::*;

fn main() {
    let args: Vec<String> = std::env::args().collect();
    if args.len() >= 2 && args[1] == "--worker" {
        c20::worker_loop();
        return;
    }
    if args.len() < 2 || args[1] != "C20" {
        eprintln!("usage: harness-c20 C20 [--tier T] [--seed N] [--model-bin P] [--out F] [--replay F] [--group G] [--cases N]");
        std::process::exit(2);
    }
    let prop = args[1].clone();
    let mut tier = Tier::Quick;
    let mut seed = 1u64;
    let mut model_bin = "/verif/lean/.lake/build/bin/vlsmodel".to_string();
    let mut out = None;
    let mut replay = None;
    let mut group = None;
    let mut cases = None;
    let mut i = 2;
    while i < args.len() {
        let v = args.get(i + 1).cloned().unwrap_or_default();
        match args[i].as_str() {
            "--tier" => tier = if v == "thorough" { Tier::Thorough } else { Tier::Quick },
            "--seed" => seed = v.parse().unwrap_or(1),
            "--model-bin" => model_bin = v,
            "--out" => out = Some(v),
            "--replay" => replay = Some(v),
            "--group" => group = Some(v),
            "--cases" => cases = v.parse().ok(),
            x => {
                eprintln!("unknown argument {}", x);
                std::process::exit(2);
            }
        }
        i += 2;
    }
    c20::try_req();
    let gs = c20::groups(matches!(tier, Tier::Quick), seed);
    let mut reports = Vec::new();
    for (k, g) in gs.iter().enumerate() {
        let gname = format!("{}#{}", prop, k);
        if let Some(sel) = &group {
            if *sel != k.to_string() {
                continue;
            }
        }
        let cfg = RunCfg {
            tier,
            seed: seed.wrapping_add(k as u64 * 7919),
            model_bin: model_bin.clone(),
            replay: replay.clone(),
            cases_override: cases,
        };
        let t0 = std::time::Instant::now();
        let mut rep = run_group(g.as_ref(), &cfg);
        rep.extra.insert("group".into(), serde_json::json!(gname));
        rep.extra.insert("wall_s".into(), serde_json::json!(t0.elapsed().as_secs_f64()));
        reports.push(rep);
    }
    let js = serde_json::to_string_pretty(&reports).unwrap();
    match out {
        Some(p) => std::fs::write(p, js).unwrap(),
        None => println!("{}", js),
    }
}
