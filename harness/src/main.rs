//! vls-verif-harness: runs the real implementation and the Lean model on the same operation
//! sequences (correspondence) and evaluates property monitors on the implementation trace.
//!
//!   harness <PROPERTY> --tier quick|thorough --seed N --model-bin PATH --out report.json
//!           [--replay FILE] [--group NAME] [--cases N]
mod common;
mod props;
use common::*;

fn groups_for(prop: &str) -> Vec<Box<dyn Group>> {
    match prop {
        "C01" => props::c01::groups(),
        "C02" => props::c02::groups(),
        "C03" => props::c03::groups(),
        "C04" => props::c04::groups(),
        "C05" => props::c05::groups(),
        "C06" => props::c06::groups(),
        "C07" => props::c07::groups(),
        "C08" => props::c08::groups(),
        "C09" => props::c09::groups(),
        "C10" => props::c10::groups(),
        "C11" => props::c11::groups(),
        "C12" => props::c12::groups(),
        "C13" => props::c13::groups(),
        "C14" => props::c14::groups(),
        "C15" => props::c15::groups(),
        "C16" => props::c16::groups(),
        "C17" => props::c17::groups(),
        "C18" => props::c18::groups(),
        "C19" => props::c19::groups(),
        "C20" => props::c20::groups(),
        _ => vec![],
    }
}

fn main() {
    let args: Vec<String> = std::env::args().collect();
    if args.len() < 2 {
        eprintln!("usage: harness <PROPERTY> [--tier T] [--seed N] [--model-bin P] [--out F] [--replay F] [--group G] [--cases N]");
        std::process::exit(2);
    }
    let prop = args[1].clone();
    let mut tier = Tier::Quick;
    let mut seed = 1u64;
    let mut model_bin = "/verif/lean/.lake/build/bin/vlsmodel".to_string();
    let mut out = None;
    let mut replay = None;
    let mut group = None;
    let mut cases = None;
    let mut i = 2;
    while i < args.len() {
        let v = args.get(i + 1).cloned().unwrap_or_default();
        match args[i].as_str() {
            "--tier" => tier = if v == "thorough" { Tier::Thorough } else { Tier::Quick },
            "--seed" => seed = v.parse().unwrap_or(1),
            "--model-bin" => model_bin = v,
            "--out" => out = Some(v),
            "--replay" => replay = Some(v),
            "--group" => group = Some(v),
            "--cases" => cases = v.parse().ok(),
            x => {
                eprintln!("unknown argument {}", x);
                std::process::exit(2);
            }
        }
        i += 2;
    }
    let mut gs = groups_for(&prop);
    // translator differential (rs2lean): the functions translated for this property, real Rust vs generated Lean
    gs.extend(props::fn_gen::groups(&prop));
    if gs.is_empty() {
        eprintln!("no harness group for property {}", prop);
        std::process::exit(2);
    }
    let mut reports = Vec::new();
    for (k, g) in gs.iter().enumerate() {
        let gname = format!("{}#{}", prop, k);
        if let Some(sel) = &group {
            if *sel != k.to_string() {
                continue;
            }
        }
        let cfg = RunCfg {
            tier,
            seed: seed.wrapping_add(k as u64 * 7919),
            model_bin: model_bin.clone(),
            replay: replay.clone(),
            cases_override: cases,
        };
        let t0 = std::time::Instant::now();
        let mut rep = run_group(g.as_ref(), &cfg);
        rep.extra.insert("group".into(), serde_json::json!(gname));
        rep.extra.insert("wall_s".into(), serde_json::json!(t0.elapsed().as_secs_f64()));
        reports.push(rep);
    }
    let js = serde_json::to_string_pretty(&reports).unwrap();
    match out {
        Some(p) => std::fs::write(p, js).unwrap(),
        None => println!("{}", js),
    }
}
