//! C13 — the chain tracker follows only validated blocks and rejects atomically.
//!
//! A real `ChainTracker<ChainMonitor>` (regtest or testnet rules) with one real `ChainMonitor`
//! listener, real mined headers and blocks, real `TxoProof`s whose attestations are signed by 0–3
//! oracle keys (trusted sets of 0–3 keys, majority edges), compact and streamed delivery.
//! Invalid requests: broken link, missing PoW, changed bits off the retarget boundary, transitions
//! at the boundary (x1, /2, /4, /8, over the chain maximum), proofs for another height / filter
//! header / block, too few trusted attestations, `ProofType::Block`, wrong prev-header arguments,
//! removal beyond the header window, streamed hash mismatch.
//! Every op line = abstract tokens for the Lean model `tracker` + `|` + the raw objects (hex).
//! Monitors: (a) snapshot of headers/tip/height/monitor State/ListenSlot around every refusal,
//! (b) an accepted block satisfies link/PoW/majority by independent evaluation, (c) a request the
//! generator built as correct must succeed, also after refusals, (d) a panic in `block_chunk` after a
//! refused streamed request (stale monitor decode state, F4b).
use super::c14::world::{coinbase, listener_digest_ids, mk_tx, panic_msg};
use crate::common::*;
use lightning_signer::bitcoin::block::{Header as BlockHeader, Version as BlockVersion};
use lightning_signer::bitcoin::consensus::{deserialize, serialize};
use lightning_signer::bitcoin::hash_types::{FilterHeader, TxMerkleNode};
use lightning_signer::bitcoin::hashes::Hash;
use lightning_signer::bitcoin::secp256k1::{Keypair, PublicKey, Secp256k1, SecretKey};
use lightning_signer::bitcoin::{merkle_tree, Block, BlockHash, CompactTarget, Network, OutPoint, Transaction, Txid};
use lightning_signer::chain::tracker::{ChainTracker, Error as TErr, Headers};
use lightning_signer::channel::ChannelId;
use lightning_signer::monitor::{ChainMonitor, ChainMonitorBase};
use lightning_signer::policy::simple_validator::SimpleValidatorFactory;
use lightning_signer::txoo::proof::{ProofType, TxoProof};
use lightning_signer::txoo::util::sign_attestation;
use lightning_signer::txoo::{Attestation, SignedAttestation};
use lightning_signer::util::test_utils::*;
use lightning_signer::OrderedSet;
use std::collections::{BTreeMap, HashMap, VecDeque};
#[allow(unused_imports)]
use std::iter::FromIterator;
use std::panic::{catch_unwind, AssertUnwindSafe};
use std::sync::Arc;

const F: u64 = 1;
const D: u64 = 2;
const X0: u64 = 20;
const REGTEST_BITS: u32 = 0x207fffff;
const DUMMY_KEY: u64 = 9;

fn oracle_secret(k: u64) -> [u8; 32] {
    if k == DUMMY_KEY { [2u8; 32] } else { [10 + k as u8; 32] }
}
fn oracle_key(k: u64) -> (Keypair, PublicKey) {
    let secp = Secp256k1::new();
    let sk = SecretKey::from_slice(&oracle_secret(k)).unwrap();
    (Keypair::from_secret_key(&secp, &sk), PublicKey::from_secret_key(&secp, &sk))
}

fn mine(prev: BlockHash, merkle_root: TxMerkleNode, bits: u32, time: u32, want_pow: bool) -> BlockHeader {
    let mut nonce = 0;
    loop {
        let h = BlockHeader {
            version: BlockVersion::from_consensus(0),
            prev_blockhash: prev,
            merkle_root,
            time,
            bits: CompactTarget::from_consensus(bits),
            nonce,
        };
        if h.validate_pow(h.target()).is_ok() == want_pow {
            return h;
        }
        nonce += 1;
        if nonce > 5_000_000 {
            panic!("mining gave up");
        }
    }
}

fn mk_block(prev: BlockHash, txs: Vec<Transaction>, bits: u32, time: u32, want_pow: bool) -> Block {
    let txids: Vec<Txid> = txs.iter().map(|t| t.compute_txid()).collect();
    let root = merkle_tree::calculate_root(txids.into_iter()).unwrap();
    let header = mine(prev, TxMerkleNode::from_raw_hash(root.into()), bits, time, want_pow);
    Block { header, txdata: txs }
}

struct W13 {
    tracker: ChainTracker<ChainMonitor>,
    fo: OutPoint,
    txs: BTreeMap<u64, Transaction>,
    ids: HashMap<Txid, u64>,
    cb: u32,
}

impl W13 {
    /// content-derived ids (first four bytes; the all-zero value is 0)
    fn hid(&mut self, h: &BlockHash, _learn: bool) -> u64 {
        let b = h.to_byte_array();
        if b.iter().all(|x| *x == 0) { 0 } else { 1 + u32::from_le_bytes([b[0], b[1], b[2], b[3]]) as u64 }
    }
    fn fid(&mut self, f: &FilterHeader) -> u64 {
        let b = f.to_byte_array();
        if b.iter().all(|x| *x == 0) { 0 } else { 1 + u32::from_le_bytes([b[0], b[1], b[2], b[3]]) as u64 }
    }
    fn hdr_tok(&mut self, h: &BlockHeader, learn: bool) -> String {
        let prev = self.hid(&h.prev_blockhash, false);
        let id = self.hid(&h.block_hash(), learn);
        format!("{}:{}:{}:{}:{}", id, prev, h.bits.to_consensus(), h.time, if h.validate_pow(h.target()).is_ok() { 1 } else { 0 })
    }
    fn headers_tok(&mut self, h: &Headers, learn: bool) -> String {
        let a = self.hdr_tok(&h.0, learn);
        let f = self.fid(&h.1);
        format!("V{}:{}", a, f)
    }
    fn tx_tok(&self, t: &Transaction) -> String {
        let id = self.ids.get(&t.compute_txid()).cloned().unwrap_or(999);
        let ins: Vec<String> = t.input.iter().map(|i| format!("{}.{}", self.ids.get(&i.previous_output.txid).cloned().unwrap_or(999), i.previous_output.vout)).collect();
        format!("T{}:{}:{}:p", id, if ins.is_empty() { "-".into() } else { ins.join(";") }, t.output.len())
    }

    /// `init <net> <height> <bits> <nwin> <zero-filter-tip> <deep> <trusted>`
    fn new(net: &str, height: u32, bits: u32, nwin: usize, zero_tip: bool, deep: bool, trusted: &[u64]) -> (W13, Vec<String>) {
        let network = if net == "t" { Network::Testnet } else { Network::Regtest };
        // a chain of nwin+1 mined headers ending in the tip
        let mut prev = BlockHash::all_zeros();
        let mut chain: Vec<Headers> = Vec::new();
        for i in 0..=nwin {
            let blk = mk_block(prev, vec![coinbase(900_000 + i as u32)], bits, 1000 + i as u32, true);
            let fh = if zero_tip && i == nwin { FilterHeader::all_zeros() } else { FilterHeader::from_byte_array([(i % 250) as u8 + 1; 32]) };
            prev = blk.block_hash();
            chain.push(Headers(blk.header, fh));
        }
        let tip = chain.pop().unwrap();
        let headers: VecDeque<Headers> = chain.iter().rev().cloned().collect();
        let (_, node_id) = oracle_key(7);
        let tkeys: Vec<PublicKey> = trusted.iter().map(|k| oracle_key(*k).1).collect();
        let mut tracker = ChainTracker::restore(
            headers.clone(),
            tip.clone(),
            height,
            network,
            std::collections::BTreeMap::new(),
            node_id,
            Arc::new(SimpleValidatorFactory::new()),
            tkeys,
        );
        tracker.set_allow_deep_reorgs(deep);
        let funding = mk_tx(vec![make_outpoint(1), make_outpoint(2)], 1, 11);
        let fo = OutPoint::new(funding.compute_txid(), 0);
        let base = ChainMonitorBase::new(fo, height, &ChannelId::new(&[33u8; 32]));
        base.add_funding_outpoint(&fo);
        base.add_funding_inputs(&funding);
        let monitor = base.as_monitor(Box::new(DummyCommitmentPointProvider {}));
        tracker.add_listener(monitor, OrderedSet::from_iter(vec![fo.txid]));
        tracker.add_listener_watches(&fo, funding.input.iter().map(|i| i.previous_output).collect());
        let mut txs = BTreeMap::new();
        txs.insert(F, funding);
        txs.insert(D, mk_tx(vec![make_outpoint(2)], 1, 12));
        for i in 0..6u64 {
            txs.insert(X0 + i, mk_tx(vec![make_outpoint(50 + i as u32)], 1, 100 + i as u32));
        }
        let mut ids = HashMap::new();
        ids.insert(Txid::all_zeros(), 0u64);
        for (k, t) in &txs {
            ids.insert(t.compute_txid(), *k);
        }
        let mut w = W13 { tracker, fo, txs, ids, cb: 0 };
        // model set-up lines
        let mut lines = Vec::new();
        let tip_tok = w.headers_tok(&tip, true);
        let tr: Vec<String> = trusted.iter().map(|k| k.to_string()).collect();
        lines.push(format!("init {} {} {} {} {}", net, height, tip_tok, if deep { 1 } else { 0 }, if tr.is_empty() { "-".into() } else { tr.join(",") }));
        let mut wl = String::from("window");
        for h in headers.iter() {
            wl.push(' ');
            wl.push_str(&w.headers_tok(h, true));
        }
        lines.push(wl);
        lines.push(format!("listener 1 {} {} 0 0.1;0.2", height, F));
        (w, lines)
    }

    fn digest(&mut self) -> String {
        let t = &self.tracker;
        let hs: Vec<(BlockHash, FilterHeader)> = t.headers().iter().map(|h| (h.0.block_hash(), h.1)).collect();
        let tip = t.tip().clone();
        let height = t.height();
        let l = listener_digest_ids(t, &self.fo, &self.ids);
        let hstr: Vec<String> = hs.iter().map(|(h, f)| format!("{}/{}", self.hid(h, false), self.fid(f))).collect();
        let tipid = self.hid(&tip.0.block_hash(), false);
        let tf = self.fid(&tip.1);
        format!("h={} tip={}/{} n={} hdrs={} L 1:{}", height, tipid, tf, hs.len(), if hstr.is_empty() { "-".into() } else { hstr.join(",") }, l)
    }

    /// attest (block hash, height, filter header) with the given oracle keys
    fn attest(keys: &[u64], hash: BlockHash, height: u32, fh: FilterHeader) -> Vec<(PublicKey, SignedAttestation)> {
        let secp = Secp256k1::new();
        keys.iter()
            .map(|k| {
                let (kp, pk) = oracle_key(*k);
                (pk, sign_attestation(Attestation { block_hash: hash, block_height: height, filter_header: fh, time: 0 }, &kp, &secp))
            })
            .collect()
    }

    fn proof_tok(&mut self, p: &TxoProof, verify_ok: bool) -> (String, Vec<String>) {
        let ty = match &p.proof { ProofType::Filter(..) => "f", ProofType::Block(_) => "b", ProofType::ExternalBlock() => "x" };
        let att: Vec<String> = p
            .attestations
            .iter()
            .map(|(pk, _)| (1..=9u64).find(|k| oracle_key(*k).1 == *pk).unwrap_or(99).to_string())
            .collect();
        let (fh, cons) = if p.attestations.is_empty() {
            (0, 1)
        } else {
            let f0 = p.attestations[0].1.attestation.filter_header;
            (self.fid(&f0), if p.attestations.iter().all(|a| a.1.attestation.filter_header == f0) { 1 } else { 0 })
        };
        let txs: Vec<String> = match &p.proof {
            ProofType::Filter(_, spv) => spv.txs.iter().filter(|t| !t.input.is_empty()).map(|t| self.tx_tok(t)).collect(),
            _ => vec![],
        };
        (format!("P{}:{}:{}:{}:{}", ty, if verify_ok { 1 } else { 0 }, if att.is_empty() { "-".into() } else { att.join(",") }, fh, cons), txs)
    }
}

fn hexs<T: lightning_signer::bitcoin::consensus::Encodable>(x: &T) -> String {
    hex::encode(serialize(x))
}

fn err_str(e: &TErr) -> &'static str {
    match e {
        TErr::InvalidChain => "err:invalid-chain",
        TErr::OrphanBlock(_) => "err:orphan",
        TErr::InvalidBlock => "err:invalid-block",
        TErr::BlockDecodeError => "err:decode-error",
        TErr::ReorgTooDeep => "err:reorg-too-deep",
        TErr::InvalidProof => "err:invalid-proof",
    }
}

/// raw request as carried after the `|`
enum Raw {
    Add { valid: bool, header: BlockHeader, proof: TxoProof, streamed_txs: Vec<Transaction> },
    Remove { valid: bool, proof: TxoProof, prev: Headers, streamed_txs: Vec<Transaction> },
    Chunk { hash: BlockHash, block: Block },
    Trusted(Vec<u64>),
}

impl W13 {
    /// abstract (model) part of the line for a raw request, computed against the current tracker state
    fn abstract_line(&mut self, raw: &Raw) -> String {
        let secp = Secp256k1::new();
        match raw {
            Raw::Add { header, proof, streamed_txs, .. } => {
                let ext = proof.proof.is_external();
                let hash = header.block_hash();
                let watches = self.tracker.get_all_forward_watches().1;
                let tipf = self.tracker.tip().1;
                let v = if proof.attestations.is_empty() && false { false } else {
                    proof.verify(self.tracker.height() + 1, header, if ext { Some(&hash) } else { None }, &tipf, &watches, &secp).is_ok()
                };
                let ht = self.hdr_tok(header, true);
                let (pt, mut txs) = self.proof_tok(proof, v);
                if ext { txs = streamed_txs.iter().filter(|t| !t.input.is_empty()).map(|t| self.tx_tok(t)).collect(); }
                format!("add H{} {} {}", ht, pt, txs.join(" ")).trim_end().to_string()
            }
            Raw::Remove { proof, prev, streamed_txs, .. } => {
                let ext = proof.proof.is_external();
                let prev_hash = prev.0.block_hash();
                let watches = self.tracker.get_all_reverse_watches().1;
                let tip = self.tracker.tip().0;
                let v = proof.verify(self.tracker.height(), &tip, if ext { Some(&prev_hash) } else { None }, &prev.1, &watches, &secp).is_ok();
                let (pt, mut txs) = self.proof_tok(proof, v);
                if ext { txs = streamed_txs.iter().filter(|t| !t.input.is_empty()).map(|t| self.tx_tok(t)).collect(); }
                let vt = self.headers_tok(prev, false);
                format!("remove {} {} {}", pt, vt, txs.join(" ")).trim_end().to_string()
            }
            Raw::Chunk { hash, block } => {
                let d = self.hid(hash, true);
                let a = self.hid(&block.block_hash(), true);
                format!("chunk {} {}", d, a)
            }
            Raw::Trusted(ks) => {
                let tr: Vec<String> = ks.iter().map(|k| k.to_string()).collect();
                format!("trusted {}", if tr.is_empty() { "-".into() } else { tr.join(",") })
            }
        }
    }

    fn raw_str(raw: &Raw) -> String {
        match raw {
            Raw::Add { valid, header, proof, streamed_txs } => {
                let t: Vec<String> = streamed_txs.iter().map(|t| hexs(t)).collect();
                format!("A {} {} {} {}", if *valid { 1 } else { 0 }, hexs(header), hexs(proof), if t.is_empty() { "-".into() } else { t.join(",") })
            }
            Raw::Remove { valid, proof, prev, streamed_txs } => {
                let t: Vec<String> = streamed_txs.iter().map(|t| hexs(t)).collect();
                format!("R {} {} {} {} {}", if *valid { 1 } else { 0 }, hexs(proof), hexs(&prev.0), hex::encode(prev.1.to_byte_array()), if t.is_empty() { "-".into() } else { t.join(",") })
            }
            Raw::Chunk { hash, block } => format!("C {} {}", hex::encode(hash.to_byte_array()), hexs(block)),
            Raw::Trusted(ks) => format!("T {}", ks.iter().map(|k| k.to_string()).collect::<Vec<_>>().join(",")),
        }
    }

    fn parse_raw(s: &str) -> Raw {
        let t: Vec<&str> = s.split_whitespace().collect();
        let txs = |x: &str| -> Vec<Transaction> {
            if x == "-" { vec![] } else { x.split(',').map(|h| deserialize(&hex::decode(h).unwrap()).unwrap()).collect() }
        };
        match t[0] {
            "A" => Raw::Add { valid: t[1] == "1", header: deserialize(&hex::decode(t[2]).unwrap()).unwrap(), proof: deserialize(&hex::decode(t[3]).unwrap()).unwrap(), streamed_txs: txs(t[4]) },
            "R" => {
                let mut f = [0u8; 32];
                f.copy_from_slice(&hex::decode(t[4]).unwrap());
                Raw::Remove { valid: t[1] == "1", proof: deserialize(&hex::decode(t[2]).unwrap()).unwrap(), prev: Headers(deserialize(&hex::decode(t[3]).unwrap()).unwrap(), FilterHeader::from_byte_array(f)), streamed_txs: txs(t[5]) }
            }
            "C" => {
                let mut h = [0u8; 32];
                h.copy_from_slice(&hex::decode(t[1]).unwrap());
                Raw::Chunk { hash: BlockHash::from_byte_array(h), block: deserialize(&hex::decode(t[2]).unwrap()).unwrap() }
            }
            _ => Raw::Trusted(if t.len() > 1 && !t[1].is_empty() { t[1].split(',').map(|k| k.parse().unwrap()).collect() } else { vec![] }),
        }
    }

    /// execute on the real tracker: (result class, panicked)
    fn exec(&mut self, raw: Raw) -> (String, bool) {
        let tr = &mut self.tracker;
        let r = catch_unwind(AssertUnwindSafe(|| match raw {
            Raw::Add { header, proof, .. } => tr.add_block(header, proof).map(|_| ()),
            Raw::Remove { proof, prev, .. } => tr.remove_block(proof, prev).map(|_| ()),
            Raw::Chunk { hash, block } => tr.block_chunk(hash, 0, &serialize(&block)),
            Raw::Trusted(ks) => {
                tr.trusted_oracle_pubkeys = ks.iter().map(|k| oracle_key(*k).1).collect();
                Ok(())
            }
        }));
        match r {
            Err(e) => (format!("panic {}", panic_msg(e)), true),
            Ok(Ok(())) => ("ok".into(), false),
            Ok(Err(e)) => (err_str(&e).into(), false),
        }
    }
}

pub struct C13;

/// generator-side bookkeeping of the blocks we connected (to build removals)
struct GenState {
    w: W13,
    blocks: Vec<Block>,       // connected by us, tip last
    confirmed: Vec<Vec<u64>>, // pool ids per connected block
    trusted: Vec<u64>,
    bits: u32,
}

impl GenState {
    fn push(&mut self, ops: &mut Vec<String>, raw: Raw) -> String {
        let a = self.w.abstract_line(&raw);
        ops.push(format!("{} | {}", a, W13::raw_str(&raw)));
        let (r, _) = self.w.exec(raw);
        r
    }

    fn pick_txs(&self, rng: &mut Rng) -> Vec<u64> {
        let conf: Vec<u64> = self.confirmed.iter().flatten().cloned().collect();
        let mut v = Vec::new();
        for id in [F, D, X0, X0 + 1, X0 + 2] {
            let ok = !conf.contains(&id) && !(id == F && conf.contains(&D)) && !(id == D && conf.contains(&F)) && !(id == D && v.contains(&F)) && !(id == F && v.contains(&D));
            if ok && rng.chance(1, 4) {
                v.push(id);
            }
        }
        v
    }

    /// keys that satisfy (or, with `fail`, just miss) the majority of the trusted set
    fn attesters(&self, rng: &mut Rng, fail: bool) -> Vec<u64> {
        let need = (self.trusted.len() + 1) / 2;
        let k = if fail { need.saturating_sub(1) } else { need + rng.below((self.trusted.len() - need + 1) as u64) as usize };
        let mut ks: Vec<u64> = self.trusted.iter().cloned().take(k).collect();
        if ks.is_empty() || rng.chance(1, 3) {
            ks.push(DUMMY_KEY); // an untrusted oracle (also avoids an empty attestation list)
        }
        ks
    }
}

impl Group for C13 {
    fn property(&self) -> &'static str { "C13" }
    fn model(&self) -> Option<&'static str> { Some("tracker") }
    fn rule(&self) -> &'static str {
        "real ChainTracker on regtest/testnet rules starting at heights 0, 5, 2012..2015 (retarget boundary 2016), 4031, with \
         0..99 remembered headers (window limit 100), zero / non-zero tip filter header, trusted oracle sets of 0-3 keys with \
         attestations at the majority edge; valid and invalid add/remove requests (link, PoW, bits, retarget x1 /2 /4 /8 and \
         over the chain maximum, proof for wrong height / filter header / block, ProofType::Block, wrong prev-header argument, \
         removal with an empty window), compact and streamed; each refusal is followed by further correct requests; \
         non-trivial = at least one accepted and one refused request"
    }
    fn budget(&self, tier: Tier) -> usize { if tier == Tier::Quick { 600 } else { 12000 } }
    fn model_line(&self, op: &str) -> Option<String> {
        Some(op.split(" | ").next().unwrap().trim_end().to_string())
    }
    fn gen_case(&self, rng: &mut Rng, tier: Tier) -> Vec<String> {
        let net = if rng.chance(1, 5) { "t" } else { "r" };
        let height = if net == "t" { *rng.pick(&[0u32, 5, 300]) } else { *rng.pick(&[0u32, 5, 2012, 2013, 2014, 2015, 2015, 4031, 300]) };
        let nwin = match rng.below(8) { 0 => 0, 1 => 1, 2 => 97, 3 => 98, 4 => 99, _ => rng.range(2, 6) as usize };
        let nwin = nwin.min(height as usize);
        let zero_tip = rng.chance(1, 6);
        let deep = rng.chance(1, 6);
        let ntr = rng.below(4) as usize;
        let trusted: Vec<u64> = (1..=ntr as u64).collect();
        let (w, lines) = W13::new(net, height, REGTEST_BITS, nwin, zero_tip, deep, &trusted);
        let mut ops = vec![
            format!("{} | S {} {} {} {} {} {} {}", lines[0], net, height, REGTEST_BITS, nwin, zero_tip as u8, deep as u8,
                    if trusted.is_empty() { "-".to_string() } else { trusted.iter().map(|k| k.to_string()).collect::<Vec<_>>().join(",") }),
            format!("{} | -", lines[1]),
            format!("{} | -", lines[2]),
        ];
        let mut g = GenState { w, blocks: vec![], confirmed: vec![], trusted, bits: REGTEST_BITS };
        let steps = rng.range(3, if tier == Tier::Quick { 10 } else { 18 });
        for _ in 0..steps {
            let h = g.w.tracker.height();
            let tip = g.w.tracker.tip().clone();
            let boundary = (h + 1) % 2016 == 0;
            let choice = rng.below(20);
            let streamed = rng.chance(1, 4);
            g.w.cb += 1;
            let cbn = g.w.cb;
            match choice {
                // ---- additions -------------------------------------------------------------
                0..=11 => {
                    // 0..=5 valid, 6.. invalid flavours
                    let ids = g.pick_txs(rng);
                    let mut txs = vec![coinbase(cbn)];
                    txs.extend(ids.iter().map(|i| g.w.txs[i].clone()));
                    let mut bits = g.bits;
                    let mut prev = tip.0.block_hash();
                    let mut want_pow = true;
                    let mut valid = true;
                    let mut att_h = h + 1;
                    let mut prev_f = tip.1;
                    let mut fail_majority = false;
                    let mut block_type = false;
                    match choice {
                        6 => { prev = g.w.tracker.headers().get(0).map(|x| x.0.block_hash()).unwrap_or(BlockHash::all_zeros()); valid = false; }
                        7 => { want_pow = false; bits = 0x1d00ffff; valid = false; }
                        8 => {
                            // changed bits: allowed only at the boundary (and on testnet)
                            bits = *rng.pick(&[0x203fffffu32, 0x201fffff, 0x200fffff, 0x217fffff, 0x207fffff]);
                            let t4 = bits == 0x203fffff || bits == 0x201fffff || bits == 0x207fffff;
                            valid = bits == g.bits || (boundary && t4 && g.bits == REGTEST_BITS) || (net == "t" && !boundary);
                            if boundary && g.bits != REGTEST_BITS { valid = bits == g.bits; }
                        }
                        9 => { if rng.chance(1, 2) { att_h = h + 2 } else { prev_f = FilterHeader::from_byte_array([0xee; 32]) }; valid = tip.1.to_byte_array().iter().all(|x| *x == 0); }
                        10 => { fail_majority = !g.trusted.is_empty(); valid = !fail_majority || tip.1.to_byte_array().iter().all(|x| *x == 0); }
                        11 => { block_type = true; valid = false; }
                        _ => {}
                    }
                    let block = mk_block(prev, txs.clone(), bits, 2000 + cbn, want_pow);
                    let base = TxoProof::prove_unchecked(&block, &prev_f, att_h);
                    let fh = base.attestations[0].1.attestation.filter_header;
                    let keys = g.attesters(rng, fail_majority);
                    let mut proof = TxoProof { attestations: W13::attest(&keys, block.block_hash(), att_h, fh), proof: base.proof.clone() };
                    if block_type { proof.proof = ProofType::Block(block.clone()); }
                    let is_stream = streamed && !block_type;
                    if is_stream {
                        proof.proof = ProofType::ExternalBlock();
                        let r = g.push(&mut ops, Raw::Chunk { hash: block.block_hash(), block: block.clone() });
                        if r.starts_with("panic") { break; }
                    }
                    let r = g.push(&mut ops, Raw::Add { valid, header: block.header, proof, streamed_txs: if is_stream { txs.clone() } else { vec![] } });
                    if r.starts_with("panic") { break; }
                    if r == "ok" {
                        g.blocks.push(block);
                        g.confirmed.push(ids);
                        g.bits = bits;
                    }
                }
                // ---- removals --------------------------------------------------------------
                12..=17 => {
                    if g.blocks.is_empty() && choice != 17 { continue; }
                    let Some(block) = g.blocks.last().cloned().or_else(|| None) else {
                        // removal with nothing connected by us: uses the preloaded window / empty window
                        let prev = g.w.tracker.headers().get(0).cloned().unwrap_or(Headers(tip.0, tip.1));
                        let blk = mk_block(prev.0.block_hash(), vec![coinbase(cbn)], g.bits, 1, true);
                        let p = TxoProof::prove_unchecked(&blk, &prev.1, h);
                        let r = g.push(&mut ops, Raw::Remove { valid: false, proof: p, prev, streamed_txs: vec![] });
                        if r.starts_with("panic") { break; }
                        continue;
                    };
                    let good_prev = g.w.tracker.headers().get(0).cloned().unwrap_or(Headers(tip.0, tip.1));
                    let mut prev = good_prev.clone();
                    let mut valid = true;
                    let mut att_h = h;
                    let mut fail_majority = false;
                    match choice {
                        14 => { prev = g.w.tracker.headers().get(1).cloned().unwrap_or(Headers(tip.0, tip.1)); valid = false; }
                        15 => { prev = Headers(good_prev.0, FilterHeader::from_byte_array([0xdd; 32])); valid = false; }
                        16 => { if rng.chance(1, 2) { att_h = h + 1; } else { fail_majority = !g.trusted.is_empty(); } valid = (att_h == h && !fail_majority) || good_prev.1.to_byte_array().iter().all(|x| *x == 0); }
                        _ => {}
                    }
                    let base = TxoProof::prove_unchecked(&block, &good_prev.1, att_h);
                    let fh = base.attestations[0].1.attestation.filter_header;
                    let keys = g.attesters(rng, fail_majority);
                    let mut proof = TxoProof { attestations: W13::attest(&keys, block.block_hash(), att_h, fh), proof: base.proof.clone() };
                    let is_stream = streamed && choice == 13;
                    if is_stream {
                        proof.proof = ProofType::ExternalBlock();
                        valid = false; // see notes: the code compares the streamed hash with the *previous* header
                        let r = g.push(&mut ops, Raw::Chunk { hash: block.block_hash(), block: block.clone() });
                        if r.starts_with("panic") { break; }
                    }
                    let r = g.push(&mut ops, Raw::Remove { valid, proof, prev, streamed_txs: if is_stream { block.txdata.clone() } else { vec![] } });
                    if r.starts_with("panic") { break; }
                    if r == "ok" {
                        g.blocks.pop();
                        g.confirmed.pop();
                        g.bits = g.w.tracker.tip().0.bits.to_consensus();
                    }
                }
                // ---- change of the trusted set ---------------------------------------------
                _ => {
                    let n = rng.below(4);
                    g.trusted = (1..=n).collect();
                    let t = g.trusted.clone();
                    g.push(&mut ops, Raw::Trusted(t));
                }
            }
        }
        ops
    }

    fn exec_case(&self, ops: &[String]) -> CaseOut {
        let mut co = CaseOut::default();
        let mut w: Option<W13> = None;
        let mut pending: Vec<String> = Vec::new(); // set-up lines that must follow `init`
        let mut dead = false;
        let (mut n_ok, mut n_err) = (0, 0);
        let mut rejected_streamed = false;
        for (i, op) in ops.iter().enumerate() {
            if dead {
                co.out.push("dead".into());
                continue;
            }
            if op.starts_with("init ") {
                let raw = op.split_once(" | S ").expect("setup parameters").1;
                let t: Vec<&str> = raw.split_whitespace().collect();
                let trusted: Vec<u64> = if t[6] == "-" { vec![] } else { t[6].split(',').map(|k| k.parse().unwrap()).collect() };
                let (nw, lines) = W13::new(t[0], t[1].parse().unwrap(), t[2].parse().unwrap(), t[3].parse().unwrap(), t[4] == "1", t[5] == "1", &trusted);
                assert_eq!(lines[0], op.split(" | ").next().unwrap(), "stale init line");
                w = Some(nw);
                pending = vec![lines[2].clone(), lines[1].clone()];
                co.out.push("ok".into());
                continue;
            }
            if let Some(expect) = pending.pop() {
                assert_eq!(expect, op.split(" | ").next().unwrap(), "malformed case: set-up line missing");
                co.out.push("ok".into());
                continue;
            }
            let wd = w.as_mut().expect("setup first");
            let (abs, raw_s) = op.split_once(" | ").expect("raw part");
            let raw = W13::parse_raw(raw_s);
            // the abstract tokens must describe this request in the current state (stale after shrinking → reject case)
            let now = wd.abstract_line(&raw);
            assert_eq!(now, abs.trim_end(), "stale abstract tokens");
            let before = wd.digest();
            let old_tip = wd.tracker.tip().clone();
            let old_headers0 = wd.tracker.headers().get(0).cloned();
            let trusted = wd.tracker.trusted_oracle_pubkeys.clone();
            let kind = match &raw { Raw::Add { .. } => "add", Raw::Remove { .. } => "remove", Raw::Chunk { .. } => "chunk", Raw::Trusted(_) => "trusted" };
            let (valid, ext, att, hdr, prev_arg) = match &raw {
                Raw::Add { valid, header, proof, .. } => (*valid, proof.proof.is_external(), proof.attestations.iter().map(|a| a.0).collect::<Vec<_>>(), Some(*header), None),
                Raw::Remove { valid, proof, prev, .. } => (*valid, proof.proof.is_external(), proof.attestations.iter().map(|a| a.0).collect::<Vec<_>>(), None, Some(prev.clone())),
                _ => (false, false, vec![], None, None),
            };
            let (res, panicked) = wd.exec(raw);
            if panicked {
                dead = true;
                co.tags.insert(format!("{}:panic", kind));
                if kind == "chunk" && rejected_streamed && res.contains("on_block_start") {
                    co.violations.push(Violation {
                        kind: "streamed-reject-leaves-decode-state".into(),
                        desc: format!("a streamed request was refused earlier in this history; the next streamed block panics in the monitor: {}", res),
                        at: i,
                    });
                }
                // `self.height - 1` at height 0 (deep reorgs allowed, empty window): overflow check of the debug
                // build; a release build refuses the request with OrphanBlock — modelled, not a violation
                let h0_underflow = kind == "remove" && before.starts_with("h=0 ") && res.contains("subtract with overflow");
                if h0_underflow { co.tags.insert("remove:panic:height0-underflow".into()); }
                if (kind == "add" || kind == "remove") && !h0_underflow {
                    co.violations.push(Violation {
                        kind: "tracker-abort".into(),
                        desc: format!("{} panicked inside the implementation instead of returning a refusal: {}", kind, res),
                        at: i,
                    });
                }
                co.out.push("panic".into());
                continue;
            }
            let after = wd.digest();
            co.tags.insert(format!("{}:{}", kind, res));
            if res == "ok" && kind != "trusted" && kind != "chunk" {
                n_ok += 1;
                // (b) independent evaluation of the acceptance conditions
                let need = (trusted.len() + 1) / 2;
                let have = trusted.iter().filter(|k| att.contains(k)).count();
                let (prev_f, linked, pow) = if let Some(h) = hdr {
                    (old_tip.1, h.prev_blockhash == old_tip.0.block_hash(), h.validate_pow(h.target()).is_ok())
                } else {
                    let p = prev_arg.clone().unwrap();
                    (p.1, old_tip.0.prev_blockhash == p.0.block_hash() && old_headers0.as_ref().map(|h0| h0.0 == p.0 && h0.1 == p.1).unwrap_or(true), true)
                };
                let bypass = prev_f.to_byte_array().iter().all(|x| *x == 0);
                if !linked || !pow || (!bypass && have < need) {
                    co.violations.push(Violation {
                        kind: "accepted-invalid-block".into(),
                        desc: format!("{} accepted with linked={} pow={} trusted attestations {}/{} (need {}), bypass={}", kind, linked, pow, have, trusted.len(), need, bypass),
                        at: i,
                    });
                }
                if have == need && need > 0 { co.tags.insert("majority-edge:accepted".into()); }
            } else if res.starts_with("err") {
                n_err += 1;
                if ext { rejected_streamed = true; }
                // (a) a refusal changes nothing
                if before != after {
                    co.violations.push(Violation {
                        kind: "rejected-request-changed-state".into(),
                        desc: format!("{} refused ({}) but the tracker changed: before [{}] after [{}]", kind, res, before, after),
                        at: i,
                    });
                }
                // (c) a correct request must succeed
                if valid {
                    co.violations.push(Violation {
                        kind: "correct-request-rejected".into(),
                        desc: format!("a correct {} was refused with {} (refusals so far: {})", kind, res, n_err - 1),
                        at: i,
                    });
                }
                if kind == "remove" && ext && res == "err:decode-error" { co.tags.insert("streamed-remove:decode-error".into()); }
            }
            if res == "ok" && (kind == "add" || kind == "remove") && !valid {
                co.tags.insert("generator-expected-refusal-but-accepted".into());
            }
            co.out.push(if res == "ok" || res.starts_with("err") { format!("{} {}", res, after) } else { res });
        }
        co.nontrivial = n_ok > 0 && n_err > 0;
        co
    }
}

pub fn groups() -> Vec<Box<dyn Group>> {
    vec![Box::new(C13)]
}
