//! C18 — channel keys are a stable function of (seed, network, channel id).
//!
//! Two groups against the Lean model `keys` (`lean/VlsModel/Model/Keys.lean`):
//!  * `C18Unit`: the derivation functions themselves (`hkdf_sha256`, `KeyDerive::{channels_seed,
//!    keys_id, channel_keys}` for Native and Ldk, LDK's `build_commitment_secret` and the real
//!    `CounterpartyCommitmentSecrets`), byte for byte against the executable Lean HKDF/SHA-256;
//!  * `C18Node`: real `Node`s (random seeds, Native and Ldk, several networks) with random sets and
//!    creation orders of channel ids, `setup_channel`, real validate/revoke sequences, restarts
//!    through `KVVPersister<MemoryKVVStore>` + `Node::restore_node`, and fresh nodes on the same seed.
//! Monitors (ghost ledger keyed by (style, seed, network, channel id), kept across restarts and node
//! instantiations): `keys-depend-on-history`, `keys-collide-across-ids`, `secret-tree-law-broken`,
//! `public-keys-not-from-secrets`, `sweep-keys-differ-from-channel-keys` (every place that re-derives a
//! signer from a keys id / descriptor must produce the channel's keys), `secret-does-not-match-commitment-number` (a secret handed out for
//! number k by a repeated revocation / the old GetPerCommitmentPoint reply is not the secret k).
use crate::common::*;
use lightning_signer::bitcoin::bip32::{ChildNumber, DerivationPath, Xpriv};
use lightning_signer::bitcoin::hashes::sha256::Hash as Sha256;
use lightning_signer::bitcoin::hashes::Hash;
use lightning_signer::bitcoin::secp256k1::{PublicKey, Secp256k1, SecretKey};
use lightning_signer::bitcoin::{Network, OutPoint, Txid};
use lightning_signer::channel::{ChannelBase, ChannelId, ChannelSlot};
use lightning_signer::lightning::ln::chan_utils::{
    build_commitment_secret, ChannelPublicKeys, CounterpartyCommitmentSecrets,
};
use lightning_signer::bitcoin::secp256k1::{ecdsa::Signature as EcdsaSig, Message as SecpMessage};
use lightning_signer::bitcoin::sighash::{EcdsaSighashType, SighashCache};
use lightning_signer::bitcoin::{Amount, ScriptBuf, TxOut, WPubkeyHash};
use lightning_signer::lightning::chain::transaction::OutPoint as LdkOutPoint;
use lightning_signer::lightning::ln::chan_utils::get_revokeable_redeemscript;
use lightning_signer::lightning::ln::channel_keys::{DelayedPaymentKey, RevocationKey};
use lightning_signer::lightning::sign::{
    ChannelSigner, DelayedPaymentOutputDescriptor, InMemorySigner, SpendableOutputDescriptor,
    StaticPaymentOutputDescriptor,
};
use lightning_signer::node::{Node, NodeConfig, NodeServices};
use lightning_signer::persist::Persist;
use lightning_signer::policy::simple_validator::SimpleValidatorFactory;
use lightning_signer::signer::derive::{key_derive, KeyDerivationStyle};
use lightning_signer::util::clock::StandardClock;
use lightning_signer::util::crypto_utils::hkdf_sha256;
use lightning_signer::util::test_utils::*;
use std::collections::BTreeMap;
use std::sync::Arc;
use vls_persist::kvv::memory::MemoryKVVStore;
use vls_persist::kvv::{JsonFormat, KVVPersister};
use vls_protocol::model::PubKey;
use vls_protocol::msgs::{self, Message, SerBolt};
use vls_protocol_signer::approver::PositiveApprover;
use vls_protocol_signer::handler::{ChannelHandler, Handler, InitHandler, RootHandler};

const INITIAL: u64 = (1 << 48) - 1;

fn hx(b: &[u8]) -> String {
    if b.is_empty() { "-".into() } else { hex::encode(b) }
}
fn unhx(s: &str) -> Option<Vec<u8>> {
    if s == "-" { Some(vec![]) } else { hex::decode(s).ok() }
}
fn net_of(s: &str) -> Option<Network> {
    match s {
        "bitcoin" => Some(Network::Bitcoin),
        "testnet" => Some(Network::Testnet),
        "signet" => Some(Network::Signet),
        "regtest" => Some(Network::Regtest),
        _ => None,
    }
}
fn style_of(s: &str) -> Option<KeyDerivationStyle> {
    match s {
        "n" => Some(KeyDerivationStyle::Native),
        "l" => Some(KeyDerivationStyle::Ldk),
        _ => None,
    }
}

/// the secret material of a signer in the canonical form the model prints
fn material(k: &InMemorySigner) -> String {
    format!(
        "id={} f={} r={} h={} p={} d={} s={}",
        hx(&k.channel_keys_id()),
        hx(&k.funding_key.secret_bytes()),
        hx(&k.revocation_base_key.secret_bytes()),
        hx(&k.htlc_base_key.secret_bytes()),
        hx(&k.payment_key.secret_bytes()),
        hx(&k.delayed_payment_base_key.secret_bytes()),
        hx(&k.commitment_seed)
    )
}

fn secrets_of(k: &InMemorySigner) -> Vec<(&'static str, Vec<u8>)> {
    vec![
        ("keys_id", k.channel_keys_id().to_vec()),
        ("funding", k.funding_key.secret_bytes().to_vec()),
        ("revocation", k.revocation_base_key.secret_bytes().to_vec()),
        ("htlc", k.htlc_base_key.secret_bytes().to_vec()),
        ("payment", k.payment_key.secret_bytes().to_vec()),
        ("delayed", k.delayed_payment_base_key.secret_bytes().to_vec()),
        ("commitment_seed", k.commitment_seed.to_vec()),
    ]
}

fn pubs(p: &ChannelPublicKeys) -> String {
    format!(
        "F={} R={} P={} D={} H={}",
        p.funding_pubkey,
        p.revocation_basepoint.to_public_key(),
        p.payment_point,
        p.delayed_payment_basepoint.to_public_key(),
        p.htlc_basepoint.to_public_key()
    )
}

fn pubs_from_secrets(k: &InMemorySigner) -> String {
    let secp = Secp256k1::new();
    let pk = |s: &SecretKey| PublicKey::from_secret_key(&secp, s);
    format!(
        "F={} R={} P={} D={} H={}",
        pk(&k.funding_key),
        pk(&k.revocation_base_key),
        pk(&k.payment_key),
        pk(&k.delayed_payment_base_key),
        pk(&k.htlc_base_key)
    )
}

/// BIP32 oracle for the LDK style: private key of m/3'/idx' of the master key of `seed`.
/// `idx` is what the implementation's own keys_id says; the model checks it against its keys_id.
fn ldk_oracle(seed: &[u8], net: Network, id: &[u8]) -> Option<String> {
    let kd = key_derive(KeyDerivationStyle::Ldk, net);
    let base = kd.channels_seed(seed);
    let kid = kd.keys_id(ChannelId::new(id), &base);
    let mut b = [0u8; 8];
    b.copy_from_slice(&kid[0..8]);
    let idx = u64::from_be_bytes(b);
    if idx >= (1 << 31) {
        return None;
    }
    let secp = Secp256k1::new();
    let master = Xpriv::new_master(net, seed).ok()?;
    let child = master
        .derive_priv(&secp, &[ChildNumber::from_hardened_idx(3).unwrap()])
        .ok()?
        .derive_priv(&secp, &[ChildNumber::from_hardened_idx(idx as u32).ok()?])
        .ok()?;
    Some(format!("{}:{}", idx, hx(&child.private_key.secret_bytes())))
}

/// What HMAC does to its key before use: keys longer than the block are hashed, then the key is
/// zero-padded to the block.  `keys_id` uses the channel id as the HMAC key (HKDF salt), so two ids
/// with the same normal form *necessarily* derive the same keys (known finding, see notes/C18.md).
fn hmac_key_norm(id: &[u8]) -> Vec<u8> {
    let mut v = if id.len() > 64 { Sha256::hash(id).to_byte_array().to_vec() } else { id.to_vec() };
    while v.last() == Some(&0) {
        v.pop();
    }
    v
}

fn collide_kind(a: &[u8], b: &[u8]) -> &'static str {
    if hmac_key_norm(a) == hmac_key_norm(b) { "keys-collide-hmac-key-normalisation" } else { "keys-collide-across-ids" }
}

fn id_hex(id: &[u8]) -> String {
    hx(id)
}

/// `oid()` and `ldk_channel_keys_id()` of a real `ChannelId` (both panic on ids of the wrong length)
fn oid_ldk(id: &ChannelId) -> String {
    let o = std::panic::catch_unwind(std::panic::AssertUnwindSafe(|| id.oid())).map(|v| v.to_string()).unwrap_or("panic".into());
    let l = std::panic::catch_unwind(std::panic::AssertUnwindSafe(|| id.ldk_channel_keys_id())).map(|v| hx(&v)).unwrap_or("panic".into());
    format!("oid={} ldk={}", o, l)
}

fn le_chan_id(peer: &[u8], dbid: u64) -> Vec<u8> {
    let mut v = peer.to_vec();
    v.extend_from_slice(&dbid.to_le_bytes());
    v
}

// ---------------------------------------------------------------------------------------------
// unit group
// ---------------------------------------------------------------------------------------------

pub struct C18Unit;

fn derive_material(style: KeyDerivationStyle, seed: &[u8], net: Network, id: &[u8], basepoint_index: u32) -> Result<(String, String), String> {
    let r = std::panic::catch_unwind(std::panic::AssertUnwindSafe(|| {
        let secp = Secp256k1::new();
        let kd = key_derive(style, net);
        let base = kd.channels_seed(seed);
        let kid = kd.keys_id(ChannelId::new(id), &base);
        let master = kd.master_key(seed);
        let (f, r, h, p, d, s) = kd.channel_keys(seed, &kid, basepoint_index, &master, &secp);
        (
            hx(&base),
            format!(
                "id={} f={} r={} h={} p={} d={} s={}",
                hx(&kid), hx(&f.secret_bytes()), hx(&r.secret_bytes()), hx(&h.secret_bytes()),
                hx(&p.secret_bytes()), hx(&d.secret_bytes()), hx(&s)
            ),
        )
    }));
    r.map_err(|_| "panic".to_string())
}

impl Group for C18Unit {
    fn property(&self) -> &'static str { "C18" }
    fn model(&self) -> Option<&'static str> { Some("keys") }
    fn rule(&self) -> &'static str {
        "unit: hkdf_sha256 on random inputs (secret/info/salt lengths 0..130, i.e. across the HMAC block size); \
         KeyDerive::{channels_seed,keys_id,channel_keys} for Native and Ldk on random seeds (16..64 bytes), all four \
         networks, channel ids of length 0, 8, 32, 41, 64, 65, 100 (the id is the HKDF salt), each derivation repeated \
         with a different basepoint_index (must not matter); build_commitment_secret on indices with 0, 1, few, many, \
         all of the 48 bits set; tree law through the real CounterpartyCommitmentSecrets (descending provide over a \
         2^bits window, then get_secret); non-trivial = a case holding at least one key derivation and one tree query \
         with bits > 0"
    }
    fn budget(&self, tier: Tier) -> usize { if tier == Tier::Quick { 1200 } else { 12000 } }
    fn corpus(&self) -> Vec<Vec<String>> {
        let s1 = "01".repeat(32);
        let s2 = "02".repeat(32);
        let z = "00".repeat(32);
        let ff = "ff".repeat(32);
        vec![
            // the repository's own known-answer vectors (derive.rs, crypto_utils.rs) and BOLT-3 appendix D
            vec![
                "hkdf32 01 02 03".to_string(),
                format!("hkdf32 {} {} {}", s2, hx(b"per-peer seed"), s1),
                format!("native_keys {} testnet {}", s1, s1),
                format!("ldk_keys {} testnet {} {}", s1, s1, ldk_oracle(&[1u8; 32], Network::Testnet, &[1u8; 32]).unwrap_or("0:00".into())),
                format!("commit_secret {} 281474976710655", z),
                format!("commit_secret {} 281474976710655", ff),
                format!("commit_secret {} 187649984473770", ff),
                format!("commit_secret {} 93824992236885", ff),
                format!("commit_secret {} 1", s1),
                format!("tree {} 281474976710655 0", s1),
                format!("tree {} 281474976710655 3", s1),
                format!("tree {} 281474976710400 8", s1),
                format!("tree {} 281474976710144 7", s1),
            ],
            // known finding: the channel id is the HMAC key of keys_id, so trailing zero bytes do not
            // count and an id longer than 64 bytes equals its SHA-256
            vec![
                format!("native_keys {} testnet {}", s1, "ab".repeat(41)),
                format!("native_keys {} testnet {}00", s1, "ab".repeat(41)),
                format!("native_keys {} testnet {}", s1, "cd".repeat(65)),
                format!("native_keys {} testnet {}", s1, hx(&Sha256::hash(&[0xcdu8; 65]).to_byte_array())),
            ],
            // ChannelId constructors and accessors at their boundaries; slice_to_be64 around 2^31 / 2^32
            vec![
                format!("chanid {} 1", "02".repeat(33)),
                format!("chanid {} 18446744073709551615", "02".repeat(33)),
                format!("chanid {} 72057594037927936", "02".repeat(33)),
                format!("chanid {}00 0", "02".repeat(32)),
                "chanid_oid 0".to_string(),
                "chanid_oid 258".to_string(),
                "chanid_oid 18446744073709551615".to_string(),
                "oid_of 0102030405060708".to_string(),
                "oid_of 01020304050607".to_string(),
                "oid_of".to_string() + " " + &"07".repeat(32),
                "oid_of".to_string() + " " + &"07".repeat(33),
                "be64 000000007fffffff".to_string(),
                "be64 0000000080000000".to_string(),
                "be64 00000000ffffffff00".to_string(),
                "be64 0000000100000000".to_string(),
                "be64 ffffffffffffffff".to_string(),
                "be64 01020304050607".to_string(),
                format!("native_keys {} testnet {}", s1, "02".repeat(33) + "0100000000000000"),
                format!("tree {} 281474976710655 3", s1),
            ],
        ]
    }
    fn gen_case(&self, rng: &mut Rng, tier: Tier) -> Vec<String> {
        let mut ops = Vec::new();
        let n = rng.range(4, 10);
        let seedlen = *rng.pick(&[32usize, 32, 32, 16, 64, 33]);
        let seed = rng.bytes(seedlen);
        let cseed = rng.bytes(32);
        for _ in 0..n {
            match rng.below(12) {
                10 | 11 => {
                    // the ids the node API builds (ChannelId constructors), in pairs that differ in one place,
                    // each followed by the key derivation for that id (distinctness monitor below)
                    let mut peer = rng.bytes(33);
                    if rng.chance(1, 4) { peer[32] = 0; }
                    let oid = match rng.below(7) {
                        0 => 0,
                        1 => 1,
                        2 => u64::MAX,
                        3 => 1u64 << rng.below(64),
                        4 => rng.below(1000),
                        5 => rng.next() & 0xff00_0000_0000_00ff,
                        _ => rng.next(),
                    };
                    let net = *rng.pick(&["bitcoin", "testnet", "signet", "regtest"]);
                    match rng.below(5) {
                        0 => {
                            ops.push(format!("chanid_oid {}", oid));
                            let mut id = vec![0u8; 24];
                            id.extend_from_slice(&oid.to_le_bytes());
                            ops.push(format!("native_keys {} {} {}", hx(&seed), net, hx(&id)));
                        }
                        1 => {
                            let l = *rng.pick(&[0usize, 1, 7, 8, 9, 31, 32, 33, 41, 64]);
                            ops.push(format!("oid_of {}", hx(&rng.bytes(l))));
                            let l = *rng.pick(&[0usize, 1, 7, 8, 9, 32]);
                            ops.push(format!("be64 {}", hx(&rng.bytes(l))));
                        }
                        _ => {
                            ops.push(format!("chanid {} {}", hx(&peer), oid));
                            ops.push(format!("native_keys {} {} {}", hx(&seed), net, hx(&le_chan_id(&peer, oid))));
                            // a neighbour: same peer / other dbid, or other peer / same dbid
                            let (p2, o2) = match rng.below(4) {
                                0 => (peer.clone(), oid.wrapping_add(1)),
                                1 => (peer.clone(), oid ^ (1u64 << rng.below(64))),
                                2 => { let mut q = peer.clone(); let k = rng.below(33) as usize; q[k] ^= 1 << rng.below(8); (q, oid) }
                                _ => { let mut q = peer.clone(); q[32] = (oid & 0xff) as u8; (q, oid >> 8) }
                            };
                            ops.push(format!("chanid {} {}", hx(&p2), o2));
                            ops.push(format!("native_keys {} {} {}", hx(&seed), net, hx(&le_chan_id(&p2, o2))));
                        }
                    }
                }
                0 => {
                    let la = *rng.pick(&[0usize, 1, 32, 63, 64, 65, 130]);
                    let a = rng.bytes(la);
                    let lb = *rng.pick(&[0usize, 1, 9, 13, 64, 100]);
                    let b = rng.bytes(lb);
                    let lc = *rng.pick(&[0usize, 1, 32, 41, 64, 65, 130]);
                    let c = rng.bytes(lc);
                    ops.push(format!("hkdf32 {} {} {}", hx(&a), hx(&b), hx(&c)));
                }
                1 | 2 | 3 | 4 => {
                    let net = *rng.pick(&["bitcoin", "testnet", "signet", "regtest"]);
                    let idlen = *rng.pick(&[0usize, 8, 32, 32, 41, 41, 64, 65, 100]);
                    let mut id = rng.bytes(idlen);
                    if rng.chance(1, 6) {
                        for b in id.iter_mut() { *b = 0; }
                    }
                    if rng.chance(1, 2) {
                        ops.push(format!("native_keys {} {} {}", hx(&seed), net, hx(&id)));
                    } else if let Some(o) = ldk_oracle(&seed, net_of(net).unwrap(), &id) {
                        ops.push(format!("ldk_keys {} {} {} {}", hx(&seed), net, hx(&id), o));
                    }
                }
                5 | 6 => {
                    let idx = match rng.below(6) {
                        0 => 0,
                        1 => INITIAL,
                        2 => 1u64 << rng.below(48),
                        3 => INITIAL - rng.below(1000),
                        4 => INITIAL ^ (1u64 << rng.below(48)),
                        _ => rng.below(1 << 48),
                    };
                    ops.push(format!("commit_secret {} {}", hx(&cseed), idx));
                }
                _ => {
                    let maxbits = if tier == Tier::Quick { 7 } else { 10 };
                    let bits = rng.range(0, maxbits);
                    let idx = match rng.below(4) {
                        0 => INITIAL - rng.below(300),
                        1 => rng.below(1 << 48),
                        2 => (rng.below(1 << 40) << 8) | 0xff,
                        _ => rng.below(1 << 48) & !((1u64 << bits) - 1),
                    };
                    let idx = (idx | (1u64 << bits)) & ((1u64 << 48) - 1);
                    ops.push(format!("tree {} {} {}", hx(&cseed), idx, bits));
                }
            }
        }
        ops
    }
    fn exec_case(&self, ops: &[String]) -> CaseOut {
        let mut co = CaseOut::default();
        let (mut saw_keys, mut saw_tree) = (false, false);
        // (style, seed, net) -> id -> material, for the distinctness monitor
        let mut seen: BTreeMap<String, BTreeMap<Vec<u8>, String>> = BTreeMap::new();
        // HMAC key form of every id a ChannelId constructor produced in this case -> the request
        let mut ids_seen: BTreeMap<Vec<u8>, String> = BTreeMap::new();
        for (i, op) in ops.iter().enumerate() {
            let t: Vec<&str> = op.split_whitespace().collect();
            let line = match t.as_slice() {
                ["hkdf32", a, b, c] => match (unhx(a), unhx(b), unhx(c)) {
                    (Some(a), Some(b), Some(c)) => { co.tags.insert("hkdf32".into()); hx(&hkdf_sha256(&a, &b, &c)) }
                    _ => "bad-op".into(),
                },
                [k @ ("native_keys" | "ldk_keys"), s, n, id, ..] => match (unhx(s), net_of(n), unhx(id)) {
                    (Some(seed), Some(net), Some(id)) => {
                        let style = if *k == "native_keys" { KeyDerivationStyle::Native } else { KeyDerivationStyle::Ldk };
                        match derive_material(style, &seed, net, &id, 0) {
                            Err(e) => {
                                co.tags.insert(format!("{}:panic", k));
                                co.violations.push(Violation {
                                    kind: "derivation-panicked".into(),
                                    desc: format!("{} panicked for seed {} id {}", k, s, id_hex(&id)),
                                    at: i,
                                });
                                e
                            }
                            Ok((base, m)) => {
                                saw_keys = true;
                                co.tags.insert(format!("{}:idlen{}", k, id.len()));
                                // the manager's counter must not matter
                                let other = derive_material(style, &seed, net, &id, 1 + (i as u32) * 7919);
                                if other.as_ref().ok().map(|x| &x.1) != Some(&m) {
                                    co.violations.push(Violation {
                                        kind: "keys-depend-on-history".into(),
                                        desc: format!("{} channel_keys differs with basepoint_index: {} vs {:?}", k, m, other),
                                        at: i,
                                    });
                                }
                                let e = seen.entry(format!("{} {} {}", k, s, n)).or_default();
                                for (oid, om) in e.iter() {
                                    if *oid != id {
                                        let a: Vec<&str> = om.split(' ').map(|x| &x[x.find('=').unwrap() + 1..]).collect();
                                        let b: Vec<&str> = m.split(' ').map(|x| &x[x.find('=').unwrap() + 1..]).collect();
                                        if a.iter().any(|x| b.contains(x)) {
                                            co.violations.push(Violation {
                                                kind: collide_kind(oid, &id).into(),
                                                desc: format!("ids {} and {} share key material: {} / {}", hx(oid), hx(&id), om, m),
                                                at: i,
                                            });
                                        }
                                    }
                                }
                                e.insert(id.clone(), m.clone());
                                format!("base={} {}", base, m)
                            }
                        }
                    }
                    _ => "bad-op".into(),
                },
                [k @ ("chanid" | "chanid_oid"), rest @ ..] => {
                    let built = match (*k, rest) {
                        ("chanid", [p, o]) => match (unhx(p), o.parse::<u64>()) {
                            (Some(peer), Ok(oid)) if peer.len() == 33 => {
                                let mut pa = [0u8; 33];
                                pa.copy_from_slice(&peer);
                                Some((ChannelId::new_from_peer_id_and_oid(&pa, oid), oid, format!("peer {} oid {}", p, oid)))
                            }
                            _ => None,
                        },
                        ("chanid_oid", [o]) => o.parse::<u64>().ok().map(|oid| (ChannelId::new_from_oid(oid), oid, format!("oid {}", oid))),
                        _ => None,
                    };
                    match built {
                        None => "bad-op".into(),
                        Some((id, oid, req)) => {
                            co.tags.insert(format!("{}:len{}", k, id.inner().len()));
                            let back = std::panic::catch_unwind(std::panic::AssertUnwindSafe(|| id.oid())).ok();
                            if back != Some(oid) {
                                co.violations.push(Violation {
                                    kind: "channel-id-loses-request".into(),
                                    desc: format!("ChannelId built for {} is {} and reports oid {:?}", req, hx(id.inner()), back),
                                    at: i,
                                });
                            }
                            // two different requests must give ids that HMAC (the HKDF salt) can tell apart
                            if let Some(prev) = ids_seen.get(&hmac_key_norm(id.inner())) {
                                if *prev != req {
                                    co.violations.push(Violation {
                                        kind: "channel-id-constructor-not-injective".into(),
                                        desc: format!("requests [{}] and [{}] give ids with the same HMAC key form ({})", prev, req, hx(id.inner())),
                                        at: i,
                                    });
                                }
                            }
                            // a CLN request with dbid 0 is refused by new_channel; LDK oid ids live in their own nodes
                            if !(*k == "chanid" && oid == 0) {
                                ids_seen.insert(hmac_key_norm(id.inner()), req);
                            }
                            format!("id={} {}", hx(id.inner()), oid_ldk(&id))
                        }
                    }
                }
                ["oid_of", idh] => match unhx(idh) {
                    Some(idb) => {
                        co.tags.insert(format!("oid_of:{}", if idb.len() < 8 { "short" } else if idb.len() == 32 { "len32" } else { "other" }));
                        oid_ldk(&ChannelId::new(&idb))
                    }
                    None => "bad-op".into(),
                },
                ["be64", b] => match unhx(b) {
                    Some(bs) => {
                        co.tags.insert(format!("be64:{}", if bs.len() < 8 { "short" } else { "ok" }));
                        match std::panic::catch_unwind(|| lightning_signer::util::byte_utils::slice_to_be64(&bs)) {
                            Ok(v) => v.to_string(),
                            Err(_) => "panic".into(),
                        }
                    }
                    None => "bad-op".into(),
                },
                ["commit_secret", s, idx] => match (unhx(s), idx.parse::<u64>()) {
                    (Some(seed), Ok(idx)) if seed.len() == 32 => {
                        let mut a = [0u8; 32];
                        a.copy_from_slice(&seed);
                        co.tags.insert(format!("commit_secret:bits{}", (idx.count_ones() + 7) / 8 * 8));
                        hx(&build_commitment_secret(&a, idx))
                    }
                    _ => "bad-op".into(),
                },
                ["tree", s, idx, bits] => match (unhx(s), idx.parse::<u64>(), bits.parse::<u32>()) {
                    // the real store only accepts secrets in the order a channel releases them, so the
                    // window must be a whole subtree: bit `bits` of idx set (the base then has exactly
                    // `bits` trailing zeros); the driver applies the same restriction
                    (Some(seed), Ok(idx), Ok(bits)) if seed.len() == 32 && bits <= 16 && idx < (1 << 48) && (idx >> bits) & 1 == 1 => {
                        let mut a = [0u8; 32];
                        a.copy_from_slice(&seed);
                        let whole = build_commitment_secret(&a, idx);
                        let base = idx & !((1u64 << bits) - 1);
                        let top = base | ((1u64 << bits) - 1);
                        // the counterparty's compact store, fed the way a channel feeds it: descending
                        let mut store = CounterpartyCommitmentSecrets::new();
                        let mut accepted = true;
                        let mut j = top;
                        loop {
                            if store.provide_secret(j, build_commitment_secret(&a, j)).is_err() {
                                accepted = false;
                                break;
                            }
                            if j == base { break; }
                            j -= 1;
                        }
                        // every index of the window must come back, the queried one is printed
                        let mut all_back = accepted;
                        if accepted {
                            for j in base..=top {
                                if store.get_secret(j) != Some(build_commitment_secret(&a, j)) { all_back = false; }
                            }
                        }
                        let via = if accepted { store.get_secret(idx) } else { None };
                        if bits > 0 { saw_tree = true; }
                        co.tags.insert(format!("tree:bits{}", bits));
                        if via != Some(whole) || !all_back {
                            co.violations.push(Violation {
                                kind: "secret-tree-law-broken".into(),
                                desc: format!("seed {} window [{}, {}]: store accepted={} reproduces-all={} get_secret({})={:?} but build_commitment_secret gives {}",
                                    s, base, top, accepted, all_back, idx, via.map(|v| hx(&v)), hx(&whole)),
                                at: i,
                            });
                        }
                        format!("{} {}", hx(&whole), via.map(|v| hx(&v)).unwrap_or("none".into()))
                    }
                    _ => "bad-op".into(),
                },
                _ => "bad-op".into(),
            };
            co.out.push(line);
        }
        co.nontrivial = saw_keys && saw_tree;
        co
    }
}

// ---------------------------------------------------------------------------------------------
// node group
// ---------------------------------------------------------------------------------------------

pub struct C18Node;

struct Live {
    node: Arc<Node>,
    persister: Arc<dyn Persist>,
    style: KeyDerivationStyle,
    seed: Vec<u8>,
    net: Network,
    cfgkey: String,
    /// ids created by new_channel_with_random_id on this store
    random_ids: Vec<ChannelId>,
    /// every id under which a channel of this store was reachable: lookup id -> (id0, ready)
    known: std::cell::RefCell<BTreeMap<Vec<u8>, (Vec<u8>, bool)>>,
}

#[derive(Default)]
struct ChanLedger {
    obs: Option<(String, String)>,
    /// commitment number -> (secret, point if it was ever handed out)
    commits: BTreeMap<u64, (Vec<u8>, Option<PublicKey>)>,
    store: Option<CounterpartyCommitmentSecrets>,
    released: BTreeMap<u64, [u8; 32]>,
}

fn services(persister: Arc<dyn Persist>, net: Network, inst: u64) -> NodeServices {
    NodeServices {
        validator_factory: Arc::new(SimpleValidatorFactory::new()),
        // a different starting time on every instantiation, as on a real restart
        starting_time_factory: if inst == 0 { make_genesis_starting_time_factory(net) } else { FixedStartingTimeFactory::new(1_700_000_000 + inst * 977, (inst * 31337) as u32) },
        persister,
        clock: Arc::new(StandardClock()),
        trusted_oracle_pubkeys: vec![],
    }
}

fn with_keys<T>(slot: &ChannelSlot, f: impl FnOnce(&InMemorySigner, bool) -> T) -> T {
    match slot {
        ChannelSlot::Stub(s) => f(&s.keys, false),
        ChannelSlot::Ready(c) => f(&c.keys, true),
    }
}

struct Mon<'a> {
    ledger: &'a mut BTreeMap<(String, Vec<u8>), ChanLedger>,
    co: &'a mut CaseOut,
    at: usize,
}

impl<'a> Mon<'a> {
    fn fire(&mut self, kind: &str, desc: String) {
        self.co.violations.push(Violation { kind: kind.into(), desc, at: self.at });
    }

    /// observe one channel of the live node through its public accessors
    fn observe(&mut self, live: &Live, id: &ChannelId, how: &str) {
        let slot_arc = match live.node.get_channel(id) {
            Ok(s) => s,
            Err(_) => return,
        };
        let slot = slot_arc.lock().unwrap();
        let id0 = slot.id().inner().clone();
        let (mat, secs, from_secrets) = with_keys(&slot, |k, _| (material(k), secrets_of(k), pubs_from_secrets(k)));
        let base = pubs(&slot.get_channel_basepoints());
        let ready = matches!(&*slot, ChannelSlot::Ready(_));
        drop(slot);
        live.known.borrow_mut().insert(id.inner().clone(), (id0.clone(), ready));
        // the six secrets and the keys id of one channel are pairwise different
        for (i, (na, a)) in secs.iter().enumerate() {
            for (nb, b) in secs.iter().skip(i + 1) {
                if a == b {
                    self.fire("keys-reused-within-channel", format!("{}: channel {} uses the same value {} as {} and as {}", how, hx(&id0), hx(a), na, nb));
                }
            }
        }
        if base != from_secrets {
            self.fire("public-keys-not-from-secrets", format!("{}: channel {} basepoints {} but secrets give {}", how, hx(&id0), base, from_secrets));
        }
        let key = (live.cfgkey.clone(), id0.clone());
        let is_new = self.ledger.get(&key).map(|l| l.obs.is_none()).unwrap_or(true);
        if is_new {
            // distinct ids => distinct keys
            let mut clash = None;
            for ((ck, oid), l) in self.ledger.iter() {
                if *ck == live.cfgkey && *oid != id0 {
                    if let Some((om, _)) = &l.obs {
                        let a: Vec<&str> = om.split(' ').map(|x| &x[x.find('=').unwrap() + 1..]).collect();
                        if secs.iter().any(|(_, v)| a.contains(&hx(v).as_str())) {
                            clash = Some((hx(oid), om.clone(), collide_kind(oid, &id0)));
                        }
                    }
                }
            }
            if let Some((oid, om, kind)) = clash {
                self.fire(kind, format!("{}: ids {} and {} under {} share key material: {} / {}", how, oid, hx(&id0), live.cfgkey, om, mat));
            }
            self.ledger.entry(key).or_default().obs = Some((mat, base));
        } else {
            let l = self.ledger.get(&key).unwrap();
            let (om, ob) = l.obs.clone().unwrap();
            if om != mat || ob != base {
                self.fire("keys-depend-on-history", format!("{}: channel {} under {} had {} {} and now has {} {}", how, hx(&id0), live.cfgkey, om, ob, mat, base));
            }
        }
    }

    /// after a restart every id under which a channel was reachable before still leads to a channel
    /// with the same id0 (the ledger key of its keys) and a ready channel is still ready
    fn identity_after_restart(&mut self, live: &Live) {
        let known: Vec<(Vec<u8>, (Vec<u8>, bool))> = live.known.borrow().iter().map(|(k, v)| (k.clone(), v.clone())).collect();
        for (lookup, (id0, ready)) in known {
            match live.node.get_channel(&ChannelId::new(&lookup)) {
                Err(_) => self.fire("channel-identity-changed-on-restart", format!("channel {} (id0 {}) is not reachable under that id after the restart", hx(&lookup), hx(&id0))),
                Ok(slot) => {
                    let s = slot.lock().unwrap();
                    let now0 = s.id().inner().clone();
                    let now_ready = matches!(&*s, ChannelSlot::Ready(_));
                    drop(s);
                    if now0 != id0 || (ready && !now_ready) {
                        self.fire("channel-identity-changed-on-restart", format!("id {} led to channel id0 {} (ready={}) before the restart and to id0 {} (ready={}) after it", hx(&lookup), hx(&id0), ready, hx(&now0), now_ready));
                    }
                }
            }
        }
    }

    fn observe_all(&mut self, live: &Live, how: &str) {
        let ids: Vec<ChannelId> = live.node.get_channels().keys().cloned().collect();
        for id in ids {
            self.observe(live, &id, how);
        }
    }

    /// record/check one per-commitment secret (and point, if handed out) of a channel
    fn commit_obs(&mut self, live: &Live, id0: &[u8], n: u64, secret: &[u8], point: Option<PublicKey>, how: &str) {
        let secp = Secp256k1::new();
        if let Some(p) = point {
            let expect = SecretKey::from_slice(secret).map(|s| PublicKey::from_secret_key(&secp, &s));
            if expect != Ok(p) {
                self.fire("public-keys-not-from-secrets", format!("{}: channel {} per-commitment point {} is {} but the secret {} gives {:?}", how, hx(id0), n, p, hx(secret), expect));
            }
        }
        let key = (live.cfgkey.clone(), id0.to_vec());
        let l = self.ledger.entry(key).or_default();
        let mut msg = None;
        match l.commits.get_mut(&n) {
            None => { l.commits.insert(n, (secret.to_vec(), point)); }
            Some((os, op)) => {
                if os.as_slice() != secret || (op.is_some() && point.is_some() && *op != point) {
                    msg = Some(format!("{}: channel {} under {} per-commitment {}: secret/point were {} {:?}, now {} {:?}", how, hx(id0), live.cfgkey, n, hx(os), op, hx(secret), point));
                }
                if op.is_none() { *op = point; }
            }
        }
        if let Some(m) = msg { self.fire("keys-depend-on-history", m); }
    }

    /// a secret released by a real revoke: feed the counterparty's compact store (the real
    /// `CounterpartyCommitmentSecrets`) in the order a counterparty receives them: 0, 1, 2, ...
    /// A commitment number released again (after a restart, or by another node on the same seed)
    /// must yield the same secret.
    fn released(&mut self, live: &Live, id0: &[u8], n: u64, secret: [u8; 32], how: &str) {
        let key = (live.cfgkey.clone(), id0.to_vec());
        let l = self.ledger.entry(key).or_default();
        let mut hist = Vec::new();
        let mut tree = Vec::new();
        if let Some(old) = l.released.get(&n) {
            if *old != secret {
                hist.push(format!("{}: channel {} under {} released {} for commitment {} earlier and {} now", how, hx(id0), live.cfgkey, hx(old), n, hx(&secret)));
            }
        } else if n as usize == l.released.len() {
            let store = l.store.get_or_insert_with(CounterpartyCommitmentSecrets::new);
            if store.provide_secret(INITIAL - n, secret).is_err() {
                tree.push(format!("{}: channel {} released secret {} for commitment {} refused by CounterpartyCommitmentSecrets", how, hx(id0), hx(&secret), n));
            } else {
                l.released.insert(n, secret);
                for (m, s) in l.released.iter() {
                    if store.get_secret(INITIAL - m) != Some(*s) {
                        tree.push(format!("{}: channel {} store does not reproduce the secret of commitment {}", how, hx(id0), m));
                    }
                }
            }
        } else {
            // a gap (a fresh node released n without the ledger having seen n-1): cannot happen with
            // validate/revoke sequences that start at 0; report it rather than ignore it
            tree.push(format!("{}: channel {} released commitment {} out of order (ledger holds {} secrets)", how, hx(id0), n, l.released.len()));
        }
        for m in hist { self.fire("keys-depend-on-history", m); }
        for m in tree { self.fire("secret-tree-law-broken", m); }
    }

    /// a secret handed out for commitment number `k` by a *repeated* revocation or by the old
    /// GetPerCommitmentPoint reply: it must be the signer's secret `k` (what the Lean model prints),
    /// its image must be the point the channel hands out for `k`, it must equal what was released
    /// for `k` the first time, and together with the secrets released for 0..k-1 it must be accepted
    /// by the real compact store in release order.
    fn rereleased(&mut self, live: &Live, id0v: &[u8], k: u64, secret: [u8; 32], how: &str) {
        let id0 = ChannelId::new(id0v);
        let secp = Secp256k1::new();
        let keys = match live.node.get_channel(&id0) {
            Ok(slot) => with_keys(&slot.lock().unwrap(), |ks, _| ks.clone()),
            Err(_) => return,
        };
        let expect = keys.release_commitment_secret(INITIAL - k).unwrap();
        if expect != secret {
            self.fire("secret-does-not-match-commitment-number", format!("{}: channel {} handed out {} for commitment {} but its per-commitment secret {} is {}", how, hx(id0v), hx(&secret), k, k, hx(&expect)));
        }
        let point = live.node.with_channel_base(&id0, |b| b.get_per_commitment_point(k)).ok();
        let image = SecretKey::from_slice(&secret).ok().map(|s| PublicKey::from_secret_key(&secp, &s));
        if point.is_some() && image != point {
            self.fire("secret-does-not-match-commitment-number", format!("{}: channel {} handed out secret {} for commitment {} whose image {:?} is not the point {:?} of that number", how, hx(id0v), hx(&secret), k, image, point));
        }
        let key = (live.cfgkey.clone(), id0v.to_vec());
        let l = self.ledger.entry(key).or_default();
        let mut msgs = Vec::new();
        if let Some(old) = l.released.get(&k) {
            if *old != secret {
                msgs.push(("secret-does-not-match-commitment-number", format!("{}: channel {} released {} for commitment {} the first time and {} now", how, hx(id0v), hx(old), k, hx(&secret))));
            }
        }
        // the counterparty's view: 0..k-1 as first released, then this one
        if (0..k).all(|j| l.released.contains_key(&j)) {
            let mut store = CounterpartyCommitmentSecrets::new();
            let mut ok = true;
            for j in 0..k {
                ok &= store.provide_secret(INITIAL - j, l.released[&j]).is_ok();
            }
            if ok && store.provide_secret(INITIAL - k, secret).is_err() {
                msgs.push(("secret-tree-law-broken", format!("{}: channel {} secret {} handed out for commitment {} does not chain with the secrets released for 0..{}", how, hx(id0v), hx(&secret), k, k)));
            }
        }
        for (kind, m) in msgs { self.fire(kind, m); }
    }

    /// a point handed out for number `n`: must be the image of the signer's secret `n`; returns
    /// that secret in hex (what the model prints for the point)
    fn point_obs(&mut self, live: &Live, id0v: &[u8], n: u64, point: PublicKey, how: &str) -> String {
        let id0 = ChannelId::new(id0v);
        let keys = match live.node.get_channel(&id0) {
            Ok(slot) => with_keys(&slot.lock().unwrap(), |ks, _| ks.clone()),
            Err(_) => return "none".into(),
        };
        if n > INITIAL { return "none".into(); }
        let s = keys.release_commitment_secret(INITIAL - n).unwrap();
        self.commit_obs(live, id0v, n, &s, Some(point), how);
        hx(&s)
    }
}

/// a real `ChannelHandler` for (peer, dbid) on the live node, negotiated at protocol `version`
/// (5 = the last version whose GetPerCommitmentPoint reply discloses the secret of n-2)
fn channel_handler(node: &Arc<Node>, peer: &[u8], dbid: u64, version: u32) -> Option<ChannelHandler> {
    let mut init = InitHandler::new(0, node.clone(), Arc::new(PositiveApprover()), version);
    let m = msgs::HsmdInit {
        key_version: vls_protocol::model::Bip32KeyVersion { pubkey_version: 0, privkey_version: 0 },
        chain_params: lightning_signer::bitcoin::BlockHash::all_zeros(),
        encryption_key: None,
        dev_privkey: None,
        dev_bip32_seed: None,
        dev_channel_secrets: None,
        dev_channel_secrets_shaseed: None,
        hsm_wire_min_version: 2,
        hsm_wire_max_version: version,
    };
    let (done, _) = init.handle(Message::HsmdInit(m)).ok()?;
    if !done {
        return None;
    }
    let root: RootHandler = init.into();
    let mut p = [0u8; 33];
    p.copy_from_slice(peer);
    Some(root.for_new_client(1, PubKey(p), dbid))
}

/// send a request through encode → decode → real handler → encode → decode
fn roundtrip(h: &ChannelHandler, m: &dyn SerBolt) -> Option<Message> {
    let req = msgs::from_vec(m.as_vec()).ok()?;
    let reply = h.handle(req).ok()?;
    msgs::from_vec(reply.as_vec()).ok()
}

/// Sweep of a channel's own outputs through the real `Node::spend_spendable_outputs`: the
/// descriptors are built from what the channel *reports* (its basepoints, the `channel_keys_id` of its
/// signer, its value), as LDK builds them after a close.  The keys manager re-derives a signer from
/// the descriptor; the witnesses it produces must be made with the channel's keys.
/// Returns Ok(()) when every input is signed by the expected key, Err(reason) otherwise.
fn sweep_check(node: &Arc<Node>, keys: &InMemorySigner, reported: &ChannelPublicKeys, kind: &str, n: u64) -> Result<(), String> {
    sweep_check_many(node, &[(keys.clone(), reported.clone())], kind, n)
}

/// the same for several channels in one call (the keys manager caches one signer per keys id)
fn sweep_check_many(node: &Arc<Node>, chans: &[(InMemorySigner, ChannelPublicKeys)], kind: &str, n: u64) -> Result<(), String> {
    let secp = Secp256k1::new();
    let value = Amount::from_sat(100_000);
    let mut descs: Vec<SpendableOutputDescriptor> = Vec::new();
    // (expected signing key, script code, is_static)
    let mut expect: Vec<(PublicKey, ScriptBuf, bool)> = Vec::new();
    for (ci, (keys, reported)) in chans.iter().enumerate() {
    let mut txid = [0u8; 32];
    txid[..8].copy_from_slice(&n.to_be_bytes());
    txid[31] = ci as u8;
    if kind == "s" || kind == "b" {
        let pp = reported.payment_point;
        let out = TxOut { value, script_pubkey: ScriptBuf::new_p2wpkh(&WPubkeyHash::hash(&pp.serialize())) };
        descs.push(SpendableOutputDescriptor::StaticPaymentOutput(StaticPaymentOutputDescriptor {
            outpoint: LdkOutPoint { txid: Txid::from_slice(&txid).unwrap(), index: 0 },
            output: out,
            channel_keys_id: keys.channel_keys_id(),
            channel_value_satoshis: 3_000_000,
            channel_transaction_parameters: None,
        }));
        let code = ScriptBuf::new_p2pkh(&lightning_signer::bitcoin::PublicKey::new(pp).pubkey_hash());
        expect.push((pp, code, true));
    }
    if kind == "d" || kind == "b" {
        let sec = keys.release_commitment_secret(INITIAL - n).map_err(|_| "no secret".to_string())?;
        let point = PublicKey::from_secret_key(&secp, &SecretKey::from_slice(&sec).unwrap());
        let delayed = DelayedPaymentKey::from_basepoint(&secp, &reported.delayed_payment_basepoint, &point);
        let revocation = RevocationKey(PublicKey::from_secret_key(&secp, &SecretKey::from_slice(&[0x42u8; 32]).unwrap()));
        let delay = 144u16;
        let ws = get_revokeable_redeemscript(&revocation, delay, &delayed);
        let out = TxOut { value, script_pubkey: ws.to_p2wsh() };
        descs.push(SpendableOutputDescriptor::DelayedPaymentOutput(DelayedPaymentOutputDescriptor {
            outpoint: LdkOutPoint { txid: Txid::from_slice(&txid).unwrap(), index: 1 },
            per_commitment_point: point,
            to_self_delay: delay,
            output: out,
            revocation_pubkey: revocation,
            channel_keys_id: keys.channel_keys_id(),
            channel_value_satoshis: 3_000_000,
            channel_transaction_parameters: None,
        }));
        expect.push((delayed.to_public_key(), ws, false));
    }
    }
    let refs: Vec<&SpendableOutputDescriptor> = descs.iter().collect();
    let change = ScriptBuf::new_p2wpkh(&WPubkeyHash::hash(&[7u8; 33]));
    let n2 = node.clone();
    let r = std::panic::catch_unwind(std::panic::AssertUnwindSafe(move || n2.spend_spendable_outputs(&refs, vec![], change, 253)));
    let tx = match r {
        Err(e) => {
            let why = e.downcast_ref::<String>().cloned().or_else(|| e.downcast_ref::<&str>().map(|s| s.to_string())).unwrap_or_default();
            return Err(format!("spend_spendable_outputs panicked: {}", why.replace('\n', " ")));
        }
        Ok(Err(())) => return Err("spend_spendable_outputs refused".into()),
        Ok(Ok(tx)) => tx,
    };
    if tx.input.len() != expect.len() {
        return Err(format!("{} inputs for {} descriptors", tx.input.len(), expect.len()));
    }
    for (i, (key, code, is_static)) in expect.iter().enumerate() {
        let w = &tx.input[i].witness;
        let sig_item = w.nth(0).ok_or("empty witness")?;
        if sig_item.is_empty() {
            return Err(format!("input {}: empty signature", i));
        }
        if *is_static {
            let used = w.nth(1).and_then(|k| PublicKey::from_slice(k).ok());
            if used != Some(*key) {
                return Err(format!("input {}: witness key {:?} is not the channel's payment point {}", i, used, key));
            }
        }
        let sig = EcdsaSig::from_der(&sig_item[..sig_item.len() - 1]).map_err(|e| format!("input {}: {}", i, e))?;
        let sighash = SighashCache::new(&tx).p2wsh_signature_hash(i, code, value, EcdsaSighashType::All).map_err(|e| e.to_string())?;
        let msg = SecpMessage::from_digest(sighash.to_byte_array());
        if secp.verify_ecdsa(&msg, &sig, key).is_err() {
            return Err(format!("input {}: signature does not verify under the channel's {} key {}", i, if *is_static { "payment" } else { "delayed payment (per-commitment-tweaked)" }, key));
        }
    }
    Ok(())
}

fn chan_setup(id0: &[u8], value: u64, net: Network) -> lightning_signer::channel::ChannelSetup {
    let mut setup = make_test_channel_setup();
    setup.channel_value_sat = value;
    setup.funding_outpoint = OutPoint { txid: Txid::from_slice(&Sha256::hash(id0).to_byte_array()).unwrap(), vout: 0 };
    if net == Network::Bitcoin {
        setup.holder_selected_contest_delay = 144;
        setup.counterparty_selected_contest_delay = 144;
    }
    setup
}

fn perm_id(id0: &[u8]) -> ChannelId {
    let mut v = b"perm".to_vec();
    v.extend_from_slice(id0);
    ChannelId::new(&Sha256::hash(&v).to_byte_array())
}

impl C18Node {
    fn start(style: KeyDerivationStyle, seed: &[u8], net: Network, inst: u64) -> Live {
        let mut sid = [0u8; 16];
        sid[..8].copy_from_slice(&inst.to_be_bytes());
        let persister: Arc<dyn Persist> = Arc::new(KVVPersister(MemoryKVVStore::new(sid), JsonFormat));
        let config = NodeConfig { network: net, key_derivation_style: style, use_checkpoints: false, allow_deep_reorgs: true };
        let mut s32 = [0u8; 32];
        s32.copy_from_slice(seed);
        let n = Arc::new(Node::new(config, &s32, vec![], services(persister.clone(), net, inst)));
        persister.new_node(&n.get_id(), &config, &*n.get_state()).unwrap();
        persister.new_tracker(&n.get_id(), &n.get_tracker()).unwrap();
        n.add_allowlist(&[]).unwrap();
        Live { node: n, persister, style, seed: seed.to_vec(), net, cfgkey: format!("{} {} {}", style, hx(seed), net), random_ids: vec![], known: Default::default() }
    }

    /// `Err(reason)` when the node does not come back from its own persisted state
    fn restart(live: Live, inst: u64) -> Result<Live, String> {
        let Live { node, persister, style, seed, net, cfgkey, random_ids, known } = live;
        drop(node);
        let p2 = persister.clone();
        let seed2 = seed.clone();
        let r = std::panic::catch_unwind(std::panic::AssertUnwindSafe(move || {
            let (node_id, entry) = p2.get_nodes().unwrap().into_iter().next().unwrap();
            Node::restore_node(&node_id, entry, &seed2, services(p2.clone(), net, inst))
        }));
        match r {
            Ok(Ok(n)) => Ok(Live { node: n, persister, style, seed, net, cfgkey, random_ids, known }),
            Ok(Err(e)) => Err(format!("restore_node refused: {}", e.message())),
            Err(e) => Err(format!(
                "restore_node panicked: {}",
                e.downcast_ref::<String>().cloned().or_else(|| e.downcast_ref::<&str>().map(|s| s.to_string())).unwrap_or_default().replace('\n', " ")
            )),
        }
    }
}

impl Group for C18Node {
    fn property(&self) -> &'static str { "C18" }
    fn model(&self) -> Option<&'static str> { Some("keys") }
    fn rule(&self) -> &'static str {
        "node: real Node (random 32-byte seed, Native or Ldk, testnet/regtest/signet/bitcoin), a pool of 2-6 channel \
         identities (random peer id, near-miss twins: same peer with dbid differing only in bit 32 or 56, same dbid under a peer differing in one bit; dbid from {1, 2, small, 2^32 region, u64::MAX region}) created through \
         Node::new_channel in random order and subsets, interleaved with new_channel_with_random_id, setup_channel \
         (random value, optionally with a permanent id), real validate+revoke steps (counterparty-signed holder \
         commitments), per-commitment queries around next_holder_commit_num (0, next-1..next+2, 2^48-1, 2^48), restarts \
         through the real persister with a different starting time, and 1-2 further fresh nodes on the same seed that \
         create the ids in another order; sweeps of a channel's own to_remote/to_local outputs through Node::spend_spendable_outputs (Static/DelayedPaymentOutput descriptors built from what the channel reports; the witness must be made with the channel's keys); repeated revocations of older commitments (revoke_previous_holder_commitment(N) for N from 0 to next+1, directly and as RevokeCommitmentTx over the wire protocol) and the pre-v6 GetPerCommitmentPoint reply (point n + secret n-2) through a real ChannelHandler, at random later points, before and after restarts; non-trivial = at least two distinct channel ids, at least one restart or second \
         instantiation, and at least one secret released by a real revoke"
    }
    fn budget(&self, tier: Tier) -> usize { if tier == Tier::Quick { 600 } else { 6000 } }
    fn corpus(&self) -> Vec<Vec<String>> {
        let seed = "07".repeat(32);
        let pa = format!("02{}", "aa".repeat(32));
        let pb = format!("03{}", "bb".repeat(32));
        let mut v = Vec::new();
        for style in ["n", "l"] {
            let sb = [7u8; 32];
            let o = |peer: &str, dbid: u64| -> String {
                if style == "l" {
                    ldk_oracle(&sb, Network::Testnet, &le_chan_id(&hex::decode(peer).unwrap(), dbid)).map(|o| format!(" {}", o)).unwrap_or_default()
                } else { String::new() }
            };
            v.push(vec![
                format!("node {} {} testnet", style, seed),
                format!("new 1 {}{}", pa, o(&pa, 1)),
                format!("new 2 {}{}", pb, o(&pb, 2)),
                format!("commit 1 {} 0", pa),
                format!("commit 1 {} 2", pa),
                format!("setup 1 {} 1000000", pa),
                format!("advance 1 {}", pa),
                format!("advance 1 {}", pa),
                format!("advance 1 {}", pa),
                "restart".to_string(),
                format!("keys 1 {}", pa),
                format!("advance 1 {}", pa),
                format!("commit 1 {} 2", pa),
                format!("commit 1 {} 5", pa),
                // repeat older revocations (next = 4): RevokeCommitmentTx for commitments 0, 1, 2
                format!("rerevoke 1 {} 1", pa),
                format!("rerevoke 1 {} 2", pa),
                format!("rerevoke 1 {} 3", pa),
                format!("rerevoke 1 {} 0", pa),
                format!("rerevoke 1 {} 4", pa),
                format!("rerevoke 1 {} 5", pa),
                format!("getpoint 1 {} 0", pa),
                format!("getpoint 1 {} 2", pa),
                format!("getpoint 1 {} 4", pa),
                format!("getpoint 1 {} 5", pa),
                format!("getpoint 2 {} 1", pb),
                format!("getpoint 2 {} 2", pb),
                // sweeps of the channels' own outputs: the signer is re-derived from the descriptor's keys id
                format!("sweep 1 {} s 0", pa),
                format!("sweep 1 {} d 3", pa),
                format!("sweep 2 {} b 1", pb),
                "restart".to_string(),
                format!("sweep 1 {} b 2", pa),
                format!("sweep 2 {} s 0", pb),
                "sweepall 1".to_string(),
                format!("rerevoke 1 {} 1", pa),
                format!("rerevoke 1 {} 3", pa),
                format!("node {} {} testnet", style, seed),
                format!("new 2 {}{}", pb, o(&pb, 2)),
                "new_random".to_string(),
                format!("new 1 {}{}", pa, o(&pa, 1)),
                format!("setup 1 {} 2000000 p", pa),
                format!("advance 1 {}", pa),
                format!("advance 1 {}", pa),
                "restart".to_string(),
                format!("advance 1 {}", pa),
                format!("keys 2 {}", pb),
                format!("new 0 {}", pb),
            ]);
        }
        v
    }
    fn model_line(&self, op: &str) -> Option<String> {
        let t: Vec<&str> = op.split_whitespace().collect();
        match t.as_slice() {
            ["new_random"] => None,
            ["setup", a, b, c, "p"] => Some(format!("setup {} {} {}", a, b, c)),
            _ => Some(op.to_string()),
        }
    }
    fn gen_case(&self, rng: &mut Rng, tier: Tier) -> Vec<String> {
        let seed = rng.bytes(32);
        let style = *rng.pick(&["n", "l"]);
        let net = *rng.pick(&["testnet", "testnet", "regtest", "signet", "bitcoin"]);
        let netv = net_of(net).unwrap();
        let k = rng.range(2, 5) as usize;
        let mut pool: Vec<(u64, Vec<u8>)> = Vec::new();
        let shared_peer = { let mut p = rng.bytes(33); p[0] = 2 + (p[0] & 1); p };
        for j in 0..k {
            let dbid = match rng.below(6) {
                0 => 1 + j as u64,
                1 => rng.range(1, 1000),
                2 => (1u64 << 32) - 2 + rng.below(5),
                3 => u64::MAX - rng.below(4),
                _ => rng.range(1, u64::MAX / 2),
            };
            // several channels with the same peer (ids differing only in the dbid) are the common case
            let peer = if rng.chance(1, 2) { shared_peer.clone() } else { let mut p = rng.bytes(33); p[0] = 2 + (p[0] & 1); p };
            if !pool.iter().any(|(d, p)| *d == dbid && *p == peer) {
                pool.push((dbid, peer));
            }
        }
        // near-miss identities: same peer with the dbid differing only above bit 32 / in the top byte,
        // and the same dbid under another peer
        if rng.chance(1, 2) && !pool.is_empty() {
            let (d, p) = pool[rng.below(pool.len() as u64) as usize].clone();
            let twin = match rng.below(4) {
                0 => (d ^ (1u64 << 32), p.clone()),
                1 => (d ^ (1u64 << 56), p.clone()),
                2 => (d, { let mut q = p.clone(); q[32] ^= 1; q }),
                _ => (d, { let mut q = p.clone(); q[1] ^= 0x80; q }),
            };
            if twin.0 != 0 && !pool.contains(&twin) && pool.len() < 6 {
                pool.push(twin);
            }
        }
        let new_line = |dbid: u64, peer: &[u8]| -> String {
            let mut l = format!("new {} {}", dbid, hx(peer));
            if style == "l" {
                if let Some(o) = ldk_oracle(&seed, netv, &le_chan_id(peer, dbid)) {
                    l.push(' ');
                    l.push_str(&o);
                }
            }
            l
        };
        let mut ops = Vec::new();
        let phases = rng.range(2, 3);
        let per_phase = if tier == Tier::Quick { rng.range(6, 12) } else { rng.range(8, 22) };
        for _ in 0..phases {
            ops.push(format!("node {} {} {}", style, hx(&seed), net));
            // model-side mirror of what exists in this instantiation: (created, ready, next)
            let mut st: Vec<(bool, bool, u64)> = vec![(false, false, 0); pool.len()];
            // creation order: a random permutation prefix
            let mut order: Vec<usize> = (0..pool.len()).collect();
            for i in (1..order.len()).rev() {
                let j = rng.below(i as u64 + 1) as usize;
                order.swap(i, j);
            }
            let mut pending = order;
            for _ in 0..per_phase {
                // mostly ops that are valid in the current state, some that are not
                let created: Vec<usize> = (0..pool.len()).filter(|c| st[*c].0).collect();
                let roll = rng.below(20);
                if roll < 2 {
                    // noise: ops on whatever channel, whatever its state
                    let c = rng.below(pool.len() as u64) as usize;
                    let (dbid, peer) = pool[c].clone();
                    match rng.below(5) {
                        0 => ops.push(format!("new 0 {}", hx(&peer))),
                        1 => ops.push(format!("advance {} {}", dbid, hx(&peer))),
                        2 => ops.push(format!("setup {} {} 1000000", dbid, hx(&peer))),
                        3 => ops.push(format!("commit {} {} {}", dbid, hx(&peer), rng.below(4))),
                        _ => ops.push(format!("keys {} {}", dbid, hx(&peer))),
                    }
                    if let Some(l) = ops.last() {
                        if l.starts_with("setup") && st[c].0 && !st[c].1 { st[c].1 = true; }
                        if l.starts_with("advance") && st[c].1 { st[c].2 += 1; }
                    }
                    continue;
                }
                if roll < 4 {
                    ops.push("restart".into());
                    continue;
                }
                if roll < 5 {
                    ops.push("new_random".into());
                    continue;
                }
                if roll < 7 && !created.is_empty() {
                    // sweep of a channel's own to_remote / to_local output (stub or ready, before or
                    // after restarts): the keys manager re-derives the signer from the descriptor
                    let c = created[rng.below(created.len() as u64) as usize];
                    if rng.chance(1, 4) {
                        ops.push(format!("sweepall {}", rng.below(4)));
                        continue;
                    }
                    let kind = *rng.pick(&["s", "d", "b"]);
                    let n = match rng.below(4) { 0 => 0, 1 => st[c].2, 2 => rng.below(st[c].2 + 3), _ => INITIAL - rng.below(3) };
                    ops.push(format!("sweep {} {} {} {}", pool[c].0, hx(&pool[c].1), kind, n));
                    continue;
                }
                if created.is_empty() || (!pending.is_empty() && roll < 9) {
                    let c2 = pending.pop().unwrap_or_else(|| rng.below(pool.len() as u64) as usize);
                    let (d2, p2) = pool[c2].clone();
                    ops.push(new_line(d2, &p2));
                    st[c2].0 = true;
                    continue;
                }
                let c = created[rng.below(created.len() as u64) as usize];
                let (dbid, peer) = pool[c].clone();
                if !st[c].1 {
                    match rng.below(6) {
                        0 => match rng.below(3) {
                            0 => ops.push(format!("getpoint {} {} {}", dbid, hx(&peer), rng.below(3))),
                            1 => ops.push(format!("rerevoke {} {} {}", dbid, hx(&peer), rng.below(2))),
                            _ => ops.push(format!("commit {} {} {}", dbid, hx(&peer), rng.below(3))),
                        },
                        1 => ops.push(new_line(dbid, &peer)),
                        _ => {
                            let value = *rng.pick(&[100_000u64, 1_000_000, 3_000_000, 16_000_000]);
                            let p = if rng.chance(1, 3) { " p" } else { "" };
                            ops.push(format!("setup {} {} {}{}", dbid, hx(&peer), value, p));
                            st[c].1 = true;
                        }
                    }
                    continue;
                }
                if st[c].2 < 3 && rng.chance(1, 2) {
                    // get the channel past a few commitments first
                    for _ in 0..rng.range(2, 4) {
                        ops.push(format!("advance {} {}", dbid, hx(&peer)));
                        st[c].2 += 1;
                    }
                    continue;
                }
                match rng.below(16) {
                    10 | 11 | 12 | 13 => {
                        // repeat an older revocation (N < next - 1 is the interesting region), or one
                        // that is not available
                        let next = st[c].2;
                        let n = match rng.below(10) {
                            0 => 0,
                            1 => next,
                            2 => next + 1,
                            3 => next.saturating_sub(1),
                            _ => if next > 2 { rng.range(1, next - 2) } else if next == 2 { 1 } else { rng.below(3) },
                        };
                        ops.push(format!("rerevoke {} {} {}", dbid, hx(&peer), n));
                        if next > 3 && rng.chance(1, 2) {
                            // a node replaying its log: several older revocations in a row
                            let m = rng.range(1, next - 2);
                            ops.push(format!("rerevoke {} {} {}", dbid, hx(&peer), m));
                        }
                    }
                    14 | 15 => {
                        let next = st[c].2;
                        let n = match rng.below(8) {
                            0 => 0,
                            1 => 1,
                            2 => 2,
                            3 => next,
                            4 => next + 1,
                            5 => next + 2,
                            _ => rng.below(next + 1),
                        };
                        ops.push(format!("getpoint {} {} {}", dbid, hx(&peer), n));
                    }
                    0 | 1 | 2 | 3 | 4 => {
                        let reps = if rng.chance(1, 2) { rng.range(2, 5) } else { 1 };
                        for _ in 0..reps {
                            ops.push(format!("advance {} {}", dbid, hx(&peer)));
                            st[c].2 += 1;
                        }
                    }
                    5 | 6 | 7 => {
                        let next = st[c].2;
                        let n = match rng.below(8) {
                            0 => 0,
                            1 => 1,
                            2 => next.saturating_sub(2),
                            3 => next.saturating_sub(1),
                            4 => next,
                            5 => next + 1,
                            6 => next + 2,
                            _ => *rng.pick(&[INITIAL, INITIAL + 1, INITIAL - 1, 1000]),
                        };
                        ops.push(format!("commit {} {} {}", dbid, hx(&peer), n));
                    }
                    8 => ops.push(format!("keys {} {}", dbid, hx(&peer))),
                    _ => {
                        // setup again: same or different value
                        let value = *rng.pick(&[100_000u64, 1_000_000, 3_000_000, 16_000_000]);
                        ops.push(format!("setup {} {} {}", dbid, hx(&peer), value));
                    }
                }
            }
            if rng.chance(1, 2) {
                ops.push("restart".into());
                let c = rng.below(pool.len() as u64) as usize;
                ops.push(format!("keys {} {}", pool[c].0, hx(&pool[c].1)));
            }
        }
        ops
    }
    fn exec_case(&self, ops: &[String]) -> CaseOut {
        let mut co = CaseOut::default();
        let mut ledger: BTreeMap<(String, Vec<u8>), ChanLedger> = BTreeMap::new();
        let mut live: Option<Live> = None;
        let mut inst: u64 = 0;
        let (mut ids_seen, mut reinst, mut rel) = (std::collections::BTreeSet::new(), 0usize, false);
        for (i, op) in ops.iter().enumerate() {
            let t: Vec<&str> = op.split_whitespace().collect();
            let mut mon = Mon { ledger: &mut ledger, co: &mut co, at: i };
            let line: String = match t.as_slice() {
                ["node", s, sd, n] => match (style_of(s), unhx(sd), net_of(n)) {
                    (Some(style), Some(seed), Some(net)) if seed.len() == 32 => {
                        if live.is_some() { reinst += 1; }
                        live = None;
                        let l = C18Node::start(style, &seed, net, inst);
                        inst += 1;
                        let base = key_derive(style, net).channels_seed(&seed);
                        live = Some(l);
                        format!("ok base={}", hx(&base))
                    }
                    _ => "bad-op".into(),
                },
                ["new", db, pr, ..] => match (db.parse::<u64>(), unhx(pr), live.as_ref()) {
                    (Ok(dbid), Some(peer), Some(l)) if peer.len() == 33 => {
                        let mut p = [0u8; 33];
                        p.copy_from_slice(&peer);
                        let created = std::panic::catch_unwind(std::panic::AssertUnwindSafe(|| l.node.new_channel(dbid, &p, &l.node)));
                        match created {
                            Err(e) => {
                                // the derivation must be total on the ids the node itself builds
                                // (Lean: C18_ldk_no_panic); the node's locks are poisoned now
                                let why = e.downcast_ref::<String>().cloned().or_else(|| e.downcast_ref::<&str>().map(|s| s.to_string())).unwrap_or_default();
                                mon.fire("derivation-panicked", format!("new_channel({}, {}) under {} panicked: {}", dbid, hx(&peer), l.cfgkey, why.replace('\n', " ")));
                                live = None;
                                co.out.push("panic".into());
                                continue;
                            }
                            Ok(Err(_)) => { mon.co.tags.insert("new:err".into()); "err".into() }
                            Ok(Ok((id, slot))) => {
                                if *id.inner() != le_chan_id(&peer, dbid) {
                                    mon.fire("channel-id-not-from-request", format!("new_channel({}, {}) returned channel id {}", dbid, hx(&peer), hx(id.inner())));
                                }
                                ids_seen.insert(id.inner().clone());
                                mon.co.tags.insert(format!("new:{}", l.style));
                                let m = slot.as_ref().map(|s| with_keys(s, |k, _| material(k))).unwrap_or("no-slot".into());
                                mon.observe_all(l, "after new_channel");
                                format!("ok {}", m)
                            }
                        }
                    }
                    _ => "bad-op".into(),
                },
                ["new_random"] => match live.as_mut() {
                    Some(l) => {
                        match l.node.new_channel_with_random_id(&l.node) {
                            Ok((id, _)) => { l.random_ids.push(id); mon.co.tags.insert("new_random".into()); }
                            Err(_) => {}
                        }
                        mon.observe_all(l, "after new_channel_with_random_id");
                        "ok".into()
                    }
                    None => "bad-op".into(),
                },
                ["setup", db, pr, v, rest @ ..] => match (db.parse::<u64>(), unhx(pr), v.parse::<u64>(), live.as_ref()) {
                    (Ok(dbid), Some(peer), Ok(value), Some(l)) => {
                        let id0v = le_chan_id(&peer, dbid);
                        let id0 = ChannelId::new(&id0v);
                        let perm = if rest.first() == Some(&"p") { Some(perm_id(&id0v)) } else { None };
                        // a second setup with another permanent id is a different request only in the id
                        let r = l.node.setup_channel(id0.clone(), perm.clone(), chan_setup(&id0v, value, l.net), &DerivationPath::master());
                        match r {
                            Err(_) => { mon.co.tags.insert("setup:err".into()); "err".into() }
                            Ok(chan) => {
                                mon.co.tags.insert(if perm.is_some() { "setup:ok-perm".into() } else { "setup:ok".into() });
                                let m = material(&chan.keys);
                                mon.observe_all(l, "after setup_channel");
                                format!("ok {}", m)
                            }
                        }
                    }
                    _ => "bad-op".into(),
                },
                ["keys", db, pr] => match (db.parse::<u64>(), unhx(pr), live.as_ref()) {
                    (Ok(dbid), Some(peer), Some(l)) => {
                        let id0 = ChannelId::new(&le_chan_id(&peer, dbid));
                        match l.node.get_channel(&id0) {
                            Err(_) => "none".into(),
                            Ok(slot) => {
                                let s = slot.lock().unwrap();
                                let r = with_keys(&s, |k, ready| format!("ok {} {}", if ready { "ready" } else { "stub" }, material(k)));
                                drop(s);
                                mon.observe(l, &id0, "keys query");
                                r
                            }
                        }
                    }
                    _ => "bad-op".into(),
                },
                ["advance", db, pr] => match (db.parse::<u64>(), unhx(pr), live.as_ref()) {
                    (Ok(dbid), Some(peer), Some(l)) => {
                        let id0v = le_chan_id(&peer, dbid);
                        let id0 = ChannelId::new(&id0v);
                        let info = l.node.with_channel(&id0, |c| Ok((c.enforcement_state.next_holder_commit_num, c.setup.clone())));
                        match info {
                            Err(_) => { mon.co.tags.insert("advance:err".into()); "err".into() }
                            Ok((n, setup)) => {
                                let node_ctx = TestNodeContext { node: l.node.clone(), secp_ctx: Secp256k1::signing_only() };
                                let cp = make_test_counterparty_keys(&node_ctx, &id0, setup.channel_value_sat);
                                let chan_ctx = TestChannelContext { channel_id: id0.clone(), setup: setup.clone(), counterparty_keys: cp };
                                let mut ctx = channel_commitment(&node_ctx, &chan_ctx, n, 0, setup.channel_value_sat - 1000, 0, vec![], vec![]);
                                let (csig, hsigs) = counterparty_sign_holder_commitment(&node_ctx, &chan_ctx, &mut ctx);
                                match validate_holder_commitment(&node_ctx, &chan_ctx, &ctx, &csig, &hsigs) {
                                    Err(e) => { mon.co.tags.insert("advance:refused".into()); format!("refused {:?}", e.code()) }
                                    Ok((next_point, secret)) => {
                                        mon.co.tags.insert("advance:ok".into());
                                        // the point handed out for n+1 and the secret released for n-1
                                        let keys = l.node.with_channel(&id0, |c| Ok(c.keys.clone())).unwrap();
                                        let s_next = keys.release_commitment_secret(INITIAL - (n + 1)).unwrap();
                                        mon.commit_obs(l, &id0v, n + 1, &s_next, Some(next_point), "validate/revoke");
                                        let relstr = match secret {
                                            None => "none".to_string(),
                                            Some(s) => {
                                                rel = true;
                                                mon.co.tags.insert("advance:released".into());
                                                let sb = s.secret_bytes();
                                                mon.commit_obs(l, &id0v, n - 1, &sb, None, "revoke");
                                                let again = l.node.with_channel_base(&id0, |b| Ok(b.get_per_commitment_secret_or_none(n - 1))).unwrap();
                                                if again.map(|x| x.secret_bytes()) != Some(sb) {
                                                    mon.fire("keys-depend-on-history", format!("channel {}: revoke released {} for {} but get_per_commitment_secret_or_none gives {:?}", hx(&id0v), hx(&sb), n - 1, again.map(|x| hx(&x.secret_bytes()))));
                                                }
                                                mon.released(l, &id0v, n - 1, sb, "revoke");
                                                hx(&sb)
                                            }
                                        };
                                        mon.observe(l, &id0, "after validate/revoke");
                                        format!("ok next={} released={}", n + 1, relstr)
                                    }
                                }
                            }
                        }
                    }
                    _ => "bad-op".into(),
                },
                ["commit", db, pr, ns] => match (db.parse::<u64>(), unhx(pr), ns.parse::<u64>(), live.as_ref()) {
                    (Ok(dbid), Some(peer), Ok(n), Some(l)) if n <= INITIAL + 1 => {
                        let id0v = le_chan_id(&peer, dbid);
                        let id0 = ChannelId::new(&id0v);
                        match l.node.get_channel(&id0) {
                            Err(_) => "none".into(),
                            Ok(slot) => {
                                let s = slot.lock().unwrap();
                                let secret = if n <= INITIAL { Some(with_keys(&s, |k, _| k.release_commitment_secret(INITIAL - n).unwrap())) } else { None };
                                drop(s);
                                let point = l.node.with_channel_base(&id0, |b| b.get_per_commitment_point(n)).ok();
                                let released = l.node.with_channel_base(&id0, |b| Ok(b.get_per_commitment_secret_or_none(n))).unwrap();
                                if let Some(sec) = secret {
                                    mon.commit_obs(l, &id0v, n, &sec, point, "per-commitment query");
                                    if let Some(r) = released {
                                        if r.secret_bytes() != sec {
                                            mon.fire("keys-depend-on-history", format!("channel {}: get_per_commitment_secret_or_none({}) = {} but the signer's secret is {}", hx(&id0v), n, hx(&r.secret_bytes()), hx(&sec)));
                                        }
                                        mon.co.tags.insert("commit:released".into());
                                    }
                                }
                                mon.co.tags.insert(format!("commit:point-{}", if point.is_some() { "ok" } else { "refused" }));
                                // "is this your secret n?" (CheckFutureSecret): the answer is a function of
                                // (seed, id, n, suggested) — yes for the channel's own secret n, no for another
                                // one — whatever the channel's progress
                                let future = match secret {
                                    None => "na".to_string(),
                                    Some(sec) => {
                                        let own = SecretKey::from_slice(&sec).unwrap();
                                        let other = SecretKey::from_slice(&{ let mut o = sec; o[31] ^= 1; o }).unwrap_or(own);
                                        let a = l.node.with_channel_base(&id0, |b| b.check_future_secret(n, &own));
                                        let b2 = l.node.with_channel_base(&id0, |b| b.check_future_secret(n, &other));
                                        if !matches!(a, Ok(true)) || (other != own && !matches!(b2, Ok(false))) {
                                            mon.fire("future-secret-check-depends-on-history", format!("channel {}: check_future_secret({}, own secret) = {:?}, check_future_secret({}, another value) = {:?}", hx(&id0v), n, a.as_ref().map_err(|e| e.message().to_string()), n, b2.as_ref().map_err(|e| e.message().to_string())));
                                        }
                                        match a { Ok(true) => "yes".into(), Ok(false) => "no".into(), Err(_) => "err".into() }
                                    }
                                };
                                format!(
                                    "secret={} point={} released={} future={}",
                                    secret.map(|s| hx(&s)).unwrap_or("none".into()),
                                    if point.is_some() { "ok" } else { "refused" },
                                    if released.is_some() { "yes" } else { "no" },
                                    future
                                )
                            }
                        }
                    }
                    _ => "bad-op".into(),
                },
                ["rerevoke", db, pr, ns] => match (db.parse::<u64>(), unhx(pr), ns.parse::<u64>(), live.as_ref()) {
                    (Ok(dbid), Some(peer), Ok(n), Some(l)) if peer.len() == 33 && n < INITIAL => {
                        let id0v = le_chan_id(&peer, dbid);
                        let id0 = ChannelId::new(&id0v);
                        // what RevokeCommitmentTx{commitment_number: n - 1} does
                        let direct = l.node.with_channel(&id0, |c| c.revoke_previous_holder_commitment(n));
                        match direct {
                            Err(_) => { mon.co.tags.insert("rerevoke:err".into()); "err".into() }
                            Ok((next_point, secret)) => {
                                mon.co.tags.insert(if secret.is_some() { "rerevoke:ok".into() } else { "rerevoke:ok-none".into() });
                                let nxt = mon.point_obs(l, &id0v, n + 1, next_point, "repeated revoke");
                                if let Some(s) = secret {
                                    mon.rereleased(l, &id0v, n - 1, s.secret_bytes(), "repeated revoke");
                                    // the same request over the wire protocol (v6)
                                    if let Some(h) = channel_handler(&l.node, &peer, dbid, 6) {
                                        match roundtrip(&h, &msgs::RevokeCommitmentTx { commitment_number: n - 1 }) {
                                            Some(Message::RevokeCommitmentTxReply(r)) => {
                                                mon.co.tags.insert("rerevoke:wire".into());
                                                if r.old_commitment_secret.0 != s.secret_bytes() || r.next_per_commitment_point.0 != next_point.serialize() {
                                                    mon.fire("secret-does-not-match-commitment-number", format!("channel {}: RevokeCommitmentTx({}) over the wire gave secret {} but the channel call gave {}", hx(&id0v), n - 1, hx(&r.old_commitment_secret.0), hx(&s.secret_bytes())));
                                                }
                                                mon.rereleased(l, &id0v, n - 1, r.old_commitment_secret.0, "RevokeCommitmentTx");
                                            }
                                            _ => mon.fire("secret-does-not-match-commitment-number", format!("channel {}: RevokeCommitmentTx({}) refused over the wire although the channel call succeeded", hx(&id0v), n - 1)),
                                        }
                                    }
                                }
                                format!("ok released={} nextsecret={}", secret.map(|s| hx(&s.secret_bytes())).unwrap_or("none".into()), nxt)
                            }
                        }
                    }
                    _ => "bad-op".into(),
                },
                ["getpoint", db, pr, ns] => match (db.parse::<u64>(), unhx(pr), ns.parse::<u64>(), live.as_ref()) {
                    (Ok(dbid), Some(peer), Ok(n), Some(l)) if peer.len() == 33 && n <= INITIAL => {
                        let id0v = le_chan_id(&peer, dbid);
                        if l.node.get_channel(&ChannelId::new(&id0v)).is_err() {
                            "err".into()
                        } else {
                            // the pre-v6 protocol: the reply carries the secret of n - 2
                            let reply = channel_handler(&l.node, &peer, dbid, 5).and_then(|h| roundtrip(&h, &msgs::GetPerCommitmentPoint { commitment_number: n }));
                            match reply {
                                Some(Message::GetPerCommitmentPointReply(r)) => {
                                    mon.co.tags.insert(if r.secret.is_some() { "getpoint:ok-secret".into() } else { "getpoint:ok".into() });
                                    let pt = PublicKey::from_slice(&r.point.0).unwrap();
                                    let ps = mon.point_obs(l, &id0v, n, pt, "GetPerCommitmentPoint");
                                    if let Some(s) = &r.secret {
                                        mon.rereleased(l, &id0v, n - 2, s.0, "GetPerCommitmentPoint (pre-v6)");
                                    }
                                    // the v6 protocol returns the same point and no secret
                                    if let Some(Message::GetPerCommitmentPointReply(r6)) = channel_handler(&l.node, &peer, dbid, 6).and_then(|h| roundtrip(&h, &msgs::GetPerCommitmentPoint { commitment_number: n })) {
                                        if r6.point.0 != r.point.0 || r6.secret.is_some() {
                                            mon.fire("keys-depend-on-history", format!("channel {}: GetPerCommitmentPoint({}) differs between protocol 5 and 6", hx(&id0v), n));
                                        }
                                    }
                                    format!("ok pointsecret={} secret={}", ps, r.secret.as_ref().map(|s| hx(&s.0)).unwrap_or("none".into()))
                                }
                                _ => { mon.co.tags.insert("getpoint:err".into()); "err".into() }
                            }
                        }
                    }
                    _ => "bad-op".into(),
                },
                ["sweep", db, pr, kind, ns] => match (db.parse::<u64>(), unhx(pr), ns.parse::<u64>(), live.as_ref()) {
                    (Ok(dbid), Some(peer), Ok(n), Some(l)) if peer.len() == 33 && n <= INITIAL && ["s", "d", "b"].contains(kind) => {
                        let id0v = le_chan_id(&peer, dbid);
                        let id0 = ChannelId::new(&id0v);
                        match l.node.get_channel(&id0) {
                            Err(_) => "none".into(),
                            Ok(slot) => {
                                let s = slot.lock().unwrap();
                                let keys = with_keys(&s, |k, _| k.clone());
                                let reported = s.get_channel_basepoints();
                                drop(s);
                                mon.observe(l, &id0, "before sweep");
                                mon.co.tags.insert(format!("sweep:{}:{}", kind, l.style));
                                match sweep_check(&l.node, &keys, &reported, kind, n) {
                                    Ok(()) => {
                                        let pcs = hx(&keys.release_commitment_secret(INITIAL - n).unwrap());
                                        match *kind {
                                            "s" => format!("ok key={}", hx(&keys.payment_key.secret_bytes())),
                                            "d" => format!("ok key={} pcs={}", hx(&keys.delayed_payment_base_key.secret_bytes()), pcs),
                                            _ => format!("ok key={} key2={} pcs={}", hx(&keys.payment_key.secret_bytes()), hx(&keys.delayed_payment_base_key.secret_bytes()), pcs),
                                        }
                                    }
                                    Err(why) => {
                                        mon.fire("sweep-keys-differ-from-channel-keys", format!("channel {} under {}: sweeping its own {} output: {}", hx(&id0v), l.cfgkey, match *kind { "s" => "to_remote", "d" => "to_local", _ => "to_remote and to_local" }, why));
                                        "mismatch".into()
                                    }
                                }
                            }
                        }
                    }
                    _ => "bad-op".into(),
                },
                ["sweepall", ns] => match (ns.parse::<u64>(), live.as_ref()) {
                    (Ok(n), Some(l)) if n <= INITIAL => {
                        // every channel of the node that was created through new_channel (the random ones
                        // are unknown to the model), both outputs, in ONE call
                        let randoms: Vec<Vec<u8>> = l.random_ids.iter().map(|i| i.inner().clone()).collect();
                        let mut seen = std::collections::BTreeSet::new();
                        let mut chans = Vec::new();
                        let ids: Vec<ChannelId> = l.node.get_channels().keys().cloned().collect();
                        for id in ids {
                            let slot = l.node.get_channel(&id).unwrap();
                            let s = slot.lock().unwrap();
                            let id0v = s.id().inner().clone();
                            if randoms.contains(&id0v) || !seen.insert(id0v) { continue; }
                            chans.push((with_keys(&s, |k, _| k.clone()), s.get_channel_basepoints()));
                        }
                        mon.co.tags.insert(format!("sweepall:{}", chans.len().min(4)));
                        if chans.is_empty() {
                            "ok 0".into()
                        } else {
                            match sweep_check_many(&l.node, &chans, "b", n) {
                                Ok(()) => format!("ok {}", chans.len()),
                                Err(why) => {
                                    mon.fire("sweep-keys-differ-from-channel-keys", format!("sweeping both outputs of all {} channels under {} in one call: {}", chans.len(), l.cfgkey, why));
                                    "mismatch".into()
                                }
                            }
                        }
                    }
                    _ => "bad-op".into(),
                },
                ["restart"] => match live.take() {
                    Some(l) => {
                        reinst += 1;
                        let cfg = l.cfgkey.clone();
                        let l2 = match C18Node::restart(l, inst) {
                            Ok(l2) => l2,
                            Err(why) => {
                                // the node derives its identity and keys from the seed alone: it must
                                // accept the state it persisted itself
                                mon.fire("restart-failed", format!("node {} does not come back from its own store: {}", cfg, why));
                                co.out.push("restart-failed".into());
                                continue;
                            }
                        };
                        inst += 1;
                        mon.co.tags.insert("restart".into());
                        mon.identity_after_restart(&l2);
                        mon.observe_all(&l2, "after restart");
                        // re-check every per-commitment value recorded so far for channels of this node
                        let ids: Vec<ChannelId> = l2.node.get_channels().keys().cloned().collect();
                        let mut id0s = std::collections::BTreeSet::new();
                        for id in ids {
                            let slot = l2.node.get_channel(&id).unwrap();
                            let s = slot.lock().unwrap();
                            let id0v = s.id().inner().clone();
                            if !id0s.insert(id0v.clone()) { continue; }
                            let known: Vec<u64> = mon.ledger.get(&(l2.cfgkey.clone(), id0v.clone())).map(|x| x.commits.keys().cloned().collect()).unwrap_or_default();
                            for n in known {
                                let sec = with_keys(&s, |k, _| k.release_commitment_secret(INITIAL - n).unwrap());
                                mon.commit_obs(&l2, &id0v, n, &sec, None, "after restart");
                            }
                        }
                        let count = id0s.len() - l2.random_ids.len().min(id0s.len());
                        live = Some(l2);
                        format!("ok {}", count)
                    }
                    None => "bad-op".into(),
                },
                _ => "bad-op".into(),
            };
            co.out.push(line);
        }
        let _ = live.as_ref().map(|l| (&l.persister, &l.seed, &l.style));
        co.nontrivial = ids_seen.len() >= 2 && reinst >= 1 && rel;
        co
    }
}

pub fn groups() -> Vec<Box<dyn Group>> {
    vec![Box::new(C18Unit), Box::new(C18Node)]
}
