//! Harness-side structured BOLT-3 transaction form for C04: the same structured rendering the Lean
//! driver prints, the harness' *own* script builder / transaction serializer (independent of LDK's
//! builder and of rust-bitcoin's `Builder`), and the structured mutations mirrored from
//! `lean/VlsModel/Drv/Bolt3.lean`.
use lightning_signer::bitcoin::hashes::{hash160, ripemd160, sha256, Hash};

/// id → 33 key bytes. 0 = bytes that are not a curve point, 1..=7 the channel's keys by role
/// (1 revocation, 2 broadcaster delayed, 3 broadcaster htlc, 4 countersignatory htlc,
/// 5 countersignatory payment point, 6 broadcaster funding, 7 countersignatory funding),
/// other ids = unrelated valid keys.
#[derive(Clone)]
pub struct KeyTab {
    pub role: Vec<[u8; 33]>, // index 1..=7 used
}

impl KeyTab {
    pub fn bytes(&self, id: i64) -> [u8; 33] {
        if id == 0 {
            let mut b = [0xffu8; 33];
            b[0] = 0x02;
            return b; // x >= p: not a curve point
        }
        if id >= 1 && (id as usize) < self.role.len() {
            return self.role[id as usize];
        }
        lightning_signer::util::test_utils::key::make_test_pubkey(((id % 200) + 20) as u8).serialize()
    }
    pub fn id_of(&self, b: &[u8]) -> Option<i64> {
        (1..self.role.len()).find(|i| &self.role[*i][..] == b).map(|i| i as i64)
    }
}

/// payment hash id → 32 bytes (big-endian number, so byte order = numeric order)
pub fn payment_hash_bytes(id: i64) -> [u8; 32] {
    let mut b = [0u8; 32];
    b[24..].copy_from_slice(&(id as u64).to_be_bytes());
    b
}

#[derive(Clone, Debug, PartialEq, Eq)]
pub enum Tpl {
    Local { rev: i64, delay: i64, delayed: i64 },
    Recv { csv: bool, rev: i64, k1: i64, hash: i64, hashlen: i64, k2: i64, cltv: i64 },
    Off { csv: bool, rev: i64, k1: i64, k2: i64, hash: i64, hashlen: i64 },
    Anchor(i64),
    RemoteA(i64),
    Unknown(i64),
}

#[derive(Clone, Debug, PartialEq, Eq)]
pub enum Spk {
    Wpkh(i64),
    Wsh(Tpl),
    Other(i64),
    /// bytes the harness could not attribute to a template (only when rendering foreign bytes)
    Raw(Vec<u8>),
}

#[derive(Clone, Debug, PartialEq, Eq)]
pub struct SOut {
    pub value: u64,
    pub spk: Spk,
}

#[derive(Clone, Debug, PartialEq, Eq)]
pub struct SIn {
    pub txid: i64,
    pub vout: u32,
    pub sequence: u32,
    pub script_sig: bool,
    pub witness: bool,
}

#[derive(Clone, Debug, PartialEq, Eq)]
pub struct STx {
    pub version: u32,
    pub locktime: u32,
    pub inputs: Vec<SIn>,
    pub outs: Vec<SOut>,
}

fn b(x: bool) -> &'static str {
    if x { "1" } else { "0" }
}

pub fn show_tpl(t: &Tpl) -> String {
    match t {
        Tpl::Local { rev, delay, delayed } => format!("local({},{},{})", rev, delay, delayed),
        Tpl::Recv { csv, rev, k1, hash, hashlen, k2, cltv } =>
            format!("recv({},{},{},{},{},{},{})", b(*csv), rev, k1, hash, hashlen, k2, cltv),
        Tpl::Off { csv, rev, k1, k2, hash, hashlen } =>
            format!("off({},{},{},{},{},{})", b(*csv), rev, k1, k2, hash, hashlen),
        Tpl::Anchor(k) => format!("anchor({})", k),
        Tpl::RemoteA(k) => format!("remoteA({})", k),
        Tpl::Unknown(n) => format!("unknown({})", n),
    }
}

pub fn show_spk(s: &Spk) -> String {
    match s {
        Spk::Wpkh(k) => format!("wpkh({})", k),
        Spk::Wsh(t) => show_tpl(t),
        Spk::Other(n) => format!("other({})", n),
        Spk::Raw(v) => format!("raw({})", hex::encode(v)),
    }
}

pub fn show_tx_head(t: &STx) -> String {
    let ins: Vec<String> = t.inputs.iter().map(|i| format!("{}:{}:{}", i.txid, i.vout, i.sequence)).collect();
    let outs: Vec<String> = t.outs.iter().map(|o| format!("{}:{}", o.value, show_spk(&o.spk))).collect();
    format!("tx {} {} {} | {}", t.version, t.locktime, ins.join(" "), outs.join(" "))
}

// ---------------------------------------------------------------------------------------------
// own script builder

const OP_0: u8 = 0x00;
const OP_1NEGATE: u8 = 0x4f;
const OP_1: u8 = 0x51;
const OP_2: u8 = 0x52;
const OP_16: u8 = 0x60;
const OP_IF: u8 = 0x63;
const OP_NOTIF: u8 = 0x64;
const OP_ELSE: u8 = 0x67;
const OP_ENDIF: u8 = 0x68;
const OP_RETURN: u8 = 0x6a;
const OP_DROP: u8 = 0x75;
const OP_DUP: u8 = 0x76;
const OP_IFDUP: u8 = 0x73;
const OP_SWAP: u8 = 0x7c;
const OP_SIZE: u8 = 0x82;
const OP_EQUAL: u8 = 0x87;
const OP_EQUALVERIFY: u8 = 0x88;
const OP_HASH160: u8 = 0xa9;
const OP_CHECKSIG: u8 = 0xac;
const OP_CHECKSIGVERIFY: u8 = 0xad;
const OP_CHECKMULTISIG: u8 = 0xae;
const OP_CLTV: u8 = 0xb1;
const OP_CSV: u8 = 0xb2;

fn push_data(v: &mut Vec<u8>, d: &[u8]) {
    assert!(d.len() < 0x4c);
    v.push(d.len() as u8);
    v.extend_from_slice(d);
}

/// minimal script number push (BIP62), as bitcoin's `push_int`
fn push_int(v: &mut Vec<u8>, n: i64) {
    if n == 0 {
        v.push(OP_0);
    } else if n == -1 {
        v.push(OP_1NEGATE);
    } else if (1..=16).contains(&n) {
        v.push(OP_1 + (n as u8 - 1));
    } else {
        let neg = n < 0;
        let mut a = n.unsigned_abs();
        let mut d = Vec::new();
        while a > 0 {
            d.push((a & 0xff) as u8);
            a >>= 8;
        }
        if d.last().unwrap() & 0x80 != 0 {
            d.push(if neg { 0x80 } else { 0x00 });
        } else if neg {
            *d.last_mut().unwrap() |= 0x80;
        }
        push_data(v, &d);
    }
}

fn hash_push(hash_id: i64, hashlen: i64) -> Vec<u8> {
    let h = ripemd160::Hash::hash(&payment_hash_bytes(hash_id)).to_byte_array();
    let mut d = h.to_vec();
    let n = hashlen.clamp(0, 40) as usize;
    d.resize(n, 0x11);
    d
}

pub fn script_bytes(t: &Tpl, kt: &KeyTab) -> Vec<u8> {
    let mut v = Vec::new();
    match t {
        Tpl::Local { rev, delay, delayed } => {
            v.push(OP_IF);
            push_data(&mut v, &kt.bytes(*rev));
            v.push(OP_ELSE);
            push_int(&mut v, *delay);
            v.push(OP_CSV);
            v.push(OP_DROP);
            push_data(&mut v, &kt.bytes(*delayed));
            v.push(OP_ENDIF);
            v.push(OP_CHECKSIG);
        }
        Tpl::Off { csv, rev, k1, k2, hash, hashlen } => {
            v.extend_from_slice(&[OP_DUP, OP_HASH160]);
            push_data(&mut v, &hash160::Hash::hash(&kt.bytes(*rev)).to_byte_array());
            v.extend_from_slice(&[OP_EQUAL, OP_IF, OP_CHECKSIG, OP_ELSE]);
            push_data(&mut v, &kt.bytes(*k1));
            v.extend_from_slice(&[OP_SWAP, OP_SIZE]);
            push_int(&mut v, 32);
            v.extend_from_slice(&[OP_EQUAL, OP_NOTIF, OP_DROP, OP_2, OP_SWAP]);
            push_data(&mut v, &kt.bytes(*k2));
            v.extend_from_slice(&[OP_2, OP_CHECKMULTISIG, OP_ELSE, OP_HASH160]);
            push_data(&mut v, &hash_push(*hash, *hashlen));
            v.extend_from_slice(&[OP_EQUALVERIFY, OP_CHECKSIG, OP_ENDIF]);
            if *csv {
                v.extend_from_slice(&[OP_1, OP_CSV, OP_DROP]);
            }
            v.push(OP_ENDIF);
        }
        Tpl::Recv { csv, rev, k1, hash, hashlen, k2, cltv } => {
            v.extend_from_slice(&[OP_DUP, OP_HASH160]);
            push_data(&mut v, &hash160::Hash::hash(&kt.bytes(*rev)).to_byte_array());
            v.extend_from_slice(&[OP_EQUAL, OP_IF, OP_CHECKSIG, OP_ELSE]);
            push_data(&mut v, &kt.bytes(*k1));
            v.extend_from_slice(&[OP_SWAP, OP_SIZE]);
            push_int(&mut v, 32);
            v.extend_from_slice(&[OP_EQUAL, OP_IF, OP_HASH160]);
            push_data(&mut v, &hash_push(*hash, *hashlen));
            v.extend_from_slice(&[OP_EQUALVERIFY, OP_2, OP_SWAP]);
            push_data(&mut v, &kt.bytes(*k2));
            v.extend_from_slice(&[OP_2, OP_CHECKMULTISIG, OP_ELSE, OP_DROP]);
            push_int(&mut v, *cltv);
            v.extend_from_slice(&[OP_CLTV, OP_DROP, OP_CHECKSIG, OP_ENDIF]);
            if *csv {
                v.extend_from_slice(&[OP_1, OP_CSV, OP_DROP]);
            }
            v.push(OP_ENDIF);
        }
        Tpl::Anchor(k) => {
            push_data(&mut v, &kt.bytes(*k));
            v.extend_from_slice(&[OP_CHECKSIG, OP_IFDUP, OP_NOTIF, OP_16, OP_CSV, OP_ENDIF]);
        }
        Tpl::RemoteA(k) => {
            push_data(&mut v, &kt.bytes(*k));
            v.extend_from_slice(&[OP_CHECKSIGVERIFY, OP_1, OP_CSV]);
        }
        Tpl::Unknown(n) => {
            v.push(OP_RETURN);
            push_data(&mut v, &(*n as u64).to_le_bytes());
        }
    }
    v
}

pub fn spk_bytes(s: &Spk, kt: &KeyTab) -> Vec<u8> {
    match s {
        Spk::Wpkh(k) => {
            let mut v = vec![0x00, 0x14];
            v.extend_from_slice(&hash160::Hash::hash(&kt.bytes(*k)).to_byte_array());
            v
        }
        Spk::Wsh(t) => {
            let mut v = vec![0x00, 0x20];
            v.extend_from_slice(&sha256::Hash::hash(&script_bytes(t, kt)).to_byte_array());
            v
        }
        Spk::Other(n) => {
            let mut v = vec![OP_RETURN];
            push_data(&mut v, &(*n as u64).to_le_bytes());
            v
        }
        Spk::Raw(b) => b.clone(),
    }
}

// ---------------------------------------------------------------------------------------------
// own transaction serializer

fn varint(v: &mut Vec<u8>, n: u64) {
    if n < 0xfd {
        v.push(n as u8);
    } else if n <= 0xffff {
        v.push(0xfd);
        v.extend_from_slice(&(n as u16).to_le_bytes());
    } else if n <= 0xffff_ffff {
        v.push(0xfe);
        v.extend_from_slice(&(n as u32).to_le_bytes());
    } else {
        v.push(0xff);
        v.extend_from_slice(&n.to_le_bytes());
    }
}

/// funding txid id → 32 bytes; deliberately *not* a byte palindrome (a persisted txid that comes back
/// byte-reversed must be a different txid), and injective in the id
pub fn txid_bytes(id: i64) -> [u8; 32] {
    let mut b = [0u8; 32];
    for (i, x) in b.iter_mut().enumerate() {
        *x = ((id as u64).wrapping_mul(31).wrapping_add(7 * i as u64 + 1) & 0xff) as u8;
    }
    b
}

pub fn txid_id_of(b: &[u8]) -> i64 {
    (0..256).find(|id| &txid_bytes(*id)[..] == b).unwrap_or(-1)
}

pub fn serialize(t: &STx, kt: &KeyTab) -> Vec<u8> {
    let mut v = Vec::new();
    v.extend_from_slice(&t.version.to_le_bytes());
    let segwit = t.inputs.iter().any(|i| i.witness);
    if segwit {
        v.extend_from_slice(&[0x00, 0x01]);
    }
    varint(&mut v, t.inputs.len() as u64);
    for i in &t.inputs {
        v.extend_from_slice(&txid_bytes(i.txid));
        v.extend_from_slice(&i.vout.to_le_bytes());
        if i.script_sig {
            varint(&mut v, 1);
            v.push(OP_1);
        } else {
            varint(&mut v, 0);
        }
        v.extend_from_slice(&i.sequence.to_le_bytes());
    }
    varint(&mut v, t.outs.len() as u64);
    for o in &t.outs {
        v.extend_from_slice(&o.value.to_le_bytes());
        let s = spk_bytes(&o.spk, kt);
        varint(&mut v, s.len() as u64);
        v.extend_from_slice(&s);
    }
    if segwit {
        for i in &t.inputs {
            if i.witness {
                varint(&mut v, 1);
                varint(&mut v, 1);
                v.push(0x01);
            } else {
                varint(&mut v, 0);
            }
        }
    }
    v.extend_from_slice(&t.locktime.to_le_bytes());
    v
}

// ---------------------------------------------------------------------------------------------
// structured mutations (mirror of `mutate` / `modScript` / `modSpk` in Drv/Bolt3.lean)

fn nat(v: i64) -> i64 {
    v.max(0) // Int.toNat
}

pub fn mod_tpl(t: &Tpl, field: &str, v: i64) -> Tpl {
    let mut t = t.clone();
    match (&mut t, field) {
        (Tpl::Local { rev, .. }, "rev") => *rev = nat(v),
        (Tpl::Local { delay, .. }, "delay") => *delay = v,
        (Tpl::Local { delayed, .. }, "delayed") => *delayed = nat(v),
        (Tpl::Recv { rev, .. }, "rev") => *rev = nat(v),
        (Tpl::Recv { k1, .. }, "k1") => *k1 = nat(v),
        (Tpl::Recv { hash, .. }, "hash") => *hash = nat(v),
        (Tpl::Recv { hashlen, .. }, "hashlen") => *hashlen = nat(v),
        (Tpl::Recv { k2, .. }, "k2") => *k2 = nat(v),
        (Tpl::Recv { cltv, .. }, "cltv") => *cltv = v,
        (Tpl::Recv { csv, .. }, "csv") => *csv = !*csv,
        (Tpl::Off { rev, .. }, "rev") => *rev = nat(v),
        (Tpl::Off { k1, .. }, "k1") => *k1 = nat(v),
        (Tpl::Off { k2, .. }, "k2") => *k2 = nat(v),
        (Tpl::Off { hash, .. }, "hash") => *hash = nat(v),
        (Tpl::Off { hashlen, .. }, "hashlen") => *hashlen = nat(v),
        (Tpl::Off { csv, .. }, "csv") => *csv = !*csv,
        (Tpl::Anchor(k), "key") => *k = nat(v),
        (Tpl::RemoteA(k), "key") => *k = nat(v),
        (_, "unknown") => return Tpl::Unknown(nat(v)),
        _ => {}
    }
    t
}

pub fn mod_spk(s: &Spk, field: &str, v: i64) -> Spk {
    match s {
        Spk::Wsh(t) => Spk::Wsh(mod_tpl(t, field, v)),
        Spk::Wpkh(k) => {
            if field == "key" {
                Spk::Wpkh(nat(v))
            } else if field == "unknown" {
                Spk::Other(nat(v))
            } else {
                Spk::Wpkh(*k)
            }
        }
        other => other.clone(),
    }
}

fn swap_at<T: Clone>(l: &mut Vec<T>, i: usize, j: usize) {
    if i < l.len() && j < l.len() {
        l.swap(i, j);
    }
}

/// apply a structured mutation; `None` = not a known mutation / index out of range where Lean says bad-op
pub fn mutate(tx: &STx, ws: &[Option<Tpl>], m: &[&str]) -> Option<(STx, Vec<Option<Tpl>>)> {
    let mut tx = tx.clone();
    let mut ws: Vec<Option<Tpl>> = ws.to_vec();
    let p = |s: &str| s.parse::<i64>().ok();
    match m {
        ["none"] => {}
        ["ver", n] => tx.version = p(n)? as u32,
        ["lock", n] => tx.locktime = p(n)? as u32,
        ["seq", n] => { let n = p(n)? as u32; if let Some(i) = tx.inputs.first_mut() { i.sequence = n } }
        ["intxid", n] => { let n = p(n)?; if let Some(i) = tx.inputs.first_mut() { i.txid = n } }
        ["invout", n] => { let n = p(n)? as u32; if let Some(i) = tx.inputs.first_mut() { i.vout = n } }
        ["scriptsig"] => { if let Some(i) = tx.inputs.first_mut() { i.script_sig = true } }
        ["witness"] => { if let Some(i) = tx.inputs.first_mut() { i.witness = true } }
        ["addin"] => { if let Some(i) = tx.inputs.first().cloned() { tx.inputs.push(i) } }
        ["val", i, v] => { let (i, v) = (p(i)? as usize, p(v)? as u64); tx.outs.get_mut(i)?.value = v }
        ["swap", i, j] => { let (i, j) = (p(i)? as usize, p(j)? as usize); swap_at(&mut tx.outs, i, j); swap_at(&mut ws, i, j) }
        ["drop", i] => {
            let i = p(i)? as usize;
            if i < tx.outs.len() { tx.outs.remove(i); }
            if i < ws.len() { ws.remove(i); }
        }
        ["dup", i] => {
            let i = p(i)? as usize;
            let o = tx.outs.get(i)?.clone();
            let w = ws.get(i)?.clone();
            tx.outs.push(o);
            ws.push(w);
        }
        ["addwpkh", v, k] => { tx.outs.push(SOut { value: p(v)? as u64, spk: Spk::Wpkh(p(k)?) }); ws.push(None) }
        ["addunk", v, n] => {
            let n = p(n)?;
            tx.outs.push(SOut { value: p(v)? as u64, spk: Spk::Wsh(Tpl::Unknown(n)) });
            ws.push(Some(Tpl::Unknown(n)))
        }
        ["tpl", i, field, v] => {
            let (i, v) = (p(i)? as usize, p(v)?);
            let o = tx.outs.get_mut(i)?;
            let w = ws.get_mut(i)?;
            o.spk = mod_spk(&o.spk, field, v);
            *w = w.as_ref().map(|t| mod_tpl(t, field, v));
        }
        ["wit", i, field, v] => {
            let (i, v) = (p(i)? as usize, p(v)?);
            let w = ws.get_mut(i)?;
            *w = w.as_ref().map(|t| mod_tpl(t, field, v));
        }
        ["spk", i, field, v] => {
            let (i, v) = (p(i)? as usize, p(v)?);
            let o = tx.outs.get_mut(i)?;
            o.spk = mod_spk(&o.spk, field, v);
        }
        ["wsdrop", i] => { let i = p(i)? as usize; if i < ws.len() { ws[i] = None } }
        ["retpl", i, kind] => {
            let i = p(i)? as usize;
            let o = tx.outs.get_mut(i)?;
            let w = ws.get_mut(i)?;
            match *kind {
                "remoteA" => { o.spk = Spk::Wsh(Tpl::RemoteA(5)); *w = Some(Tpl::RemoteA(5)); }
                "wpkh" => { o.spk = Spk::Wpkh(5); *w = None; }
                _ => return None,
            }
        }
        ["wslen"] => { ws.pop(); }
        ["wsadd"] => { ws.push(Some(Tpl::Unknown(1))); }
        _ => return None,
    }
    Some((tx, ws))
}
