//! A handle that lets the harness keep a reference to a persister that is owned by a composite
//! (`BackupPersister<M, B>` owns its two sides): `Tap<P>` delegates every `Persist` method to the
//! shared inner persister.  `recovery` makes `recovery_required()` answer true (a main store that was
//! lost and has to be recovered from the backup).
use lightning_signer::bitcoin::secp256k1::PublicKey;
use lightning_signer::chain::tracker::ChainTracker;
use lightning_signer::channel::{Channel, ChannelId, ChannelStub};
use lightning_signer::monitor::ChainMonitor;
use lightning_signer::node::{NodeConfig, NodeState};
use lightning_signer::persist::model::{ChannelEntry, NodeEntry};
use lightning_signer::persist::{ChainTrackerListenerEntry, Error, Mutations, Persist, SignerId};
use lightning_signer::policy::validator::ValidatorFactory;
use lightning_signer::SendSync;
use std::sync::atomic::{AtomicBool, Ordering};
use std::sync::Arc;

pub struct Tap<P: Persist> {
    pub inner: Arc<P>,
    pub recovery: Arc<AtomicBool>,
    /// fault injection: while set, every write is refused with an internal error
    pub fail: Arc<AtomicBool>,
}

impl<P: Persist> Tap<P> {
    pub fn new(inner: Arc<P>) -> Self {
        Tap { inner, recovery: Arc::new(AtomicBool::new(false)), fail: Arc::new(AtomicBool::new(false)) }
    }

    pub fn with_fail(inner: Arc<P>, fail: Arc<AtomicBool>) -> Self {
        Tap { inner, recovery: Arc::new(AtomicBool::new(false)), fail }
    }

    fn w(&self) -> Result<(), Error> {
        if self.fail.load(Ordering::Relaxed) { Err(Error::Internal("injected write failure".into())) } else { Ok(()) }
    }
}

impl<P: Persist> SendSync for Tap<P> {}

impl<P: Persist> Persist for Tap<P> {
    fn enter(&self) -> Result<(), Error> { self.inner.enter() }
    fn prepare(&self) -> Mutations { self.inner.prepare() }
    fn commit(&self) -> Result<(), Error> { self.inner.commit() }
    fn put_batch_unlogged(&self, m: Mutations) -> Result<(), Error> { self.inner.put_batch_unlogged(m) }
    fn new_node(&self, node_id: &PublicKey, config: &NodeConfig, state: &NodeState) -> Result<(), Error> { self.w()?; self.inner.new_node(node_id, config, state) }
    fn update_node(&self, node_id: &PublicKey, state: &NodeState) -> Result<(), Error> { self.w()?; self.inner.update_node(node_id, state) }
    fn delete_node(&self, node_id: &PublicKey) -> Result<(), Error> { self.w()?; self.inner.delete_node(node_id) }
    fn new_channel(&self, node_id: &PublicKey, stub: &ChannelStub) -> Result<(), Error> { self.w()?; self.inner.new_channel(node_id, stub) }
    fn delete_channel(&self, node_id: &PublicKey, channel: &ChannelId) -> Result<(), Error> { self.w()?; self.inner.delete_channel(node_id, channel) }
    fn new_tracker(&self, node_id: &PublicKey, tracker: &ChainTracker<ChainMonitor>) -> Result<(), Error> { self.w()?; self.inner.new_tracker(node_id, tracker) }
    fn update_tracker(&self, node_id: &PublicKey, tracker: &ChainTracker<ChainMonitor>) -> Result<(), Error> { self.w()?; self.inner.update_tracker(node_id, tracker) }
    fn get_tracker(&self, node_id: PublicKey, validator_factory: Arc<dyn ValidatorFactory>) -> Result<(ChainTracker<ChainMonitor>, Vec<ChainTrackerListenerEntry>), Error> { self.inner.get_tracker(node_id, validator_factory) }
    fn update_channel(&self, node_id: &PublicKey, channel: &Channel) -> Result<(), Error> { self.w()?; self.inner.update_channel(node_id, channel) }
    fn get_channel(&self, node_id: &PublicKey, channel_id: &ChannelId) -> Result<ChannelEntry, Error> { self.inner.get_channel(node_id, channel_id) }
    fn get_node_channels(&self, node_id: &PublicKey) -> Result<Vec<(ChannelId, ChannelEntry)>, Error> { self.inner.get_node_channels(node_id) }
    fn update_node_allowlist(&self, node_id: &PublicKey, allowlist: Vec<String>) -> Result<(), Error> { self.w()?; self.inner.update_node_allowlist(node_id, allowlist) }
    fn get_node_allowlist(&self, node_id: &PublicKey) -> Result<Vec<String>, Error> { self.inner.get_node_allowlist(node_id) }
    fn get_nodes(&self) -> Result<Vec<(PublicKey, NodeEntry)>, Error> { self.inner.get_nodes() }
    fn clear_database(&self) -> Result<(), Error> { self.inner.clear_database() }
    fn on_initial_restore(&self) -> bool { self.inner.on_initial_restore() }
    fn recovery_required(&self) -> bool { self.recovery.load(Ordering::Relaxed) || self.inner.recovery_required() }
    fn begin_replication(&self) -> Result<Mutations, Error> { self.inner.begin_replication() }
    fn signer_id(&self) -> SignerId { self.inner.signer_id() }
}
