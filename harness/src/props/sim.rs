//! Node-level request simulator shared by C10 (a refused request changes nothing) and
//! C11 (every acknowledged state change is already durable).
//!
//! A real `Node` with a transactional persister (`KVVPersister<CloudKVVStore<MemoryKVVStore>>`),
//! one funded channel, the chain tracker, and a broad alphabet of requests through the real
//! vls-core entry points.  Every request runs the way `vlsd` runs it:
//! `persister.enter()` → request → `persister.prepare()` → (store mutations) → `persister.commit()`.
use crate::common::*;
use lightning_signer::bitcoin::absolute::LockTime;
use lightning_signer::bitcoin::bip32::DerivationPath;
use lightning_signer::bitcoin::hashes::Hash;
use lightning_signer::bitcoin::secp256k1::{PublicKey, Secp256k1, SecretKey};
use lightning_signer::bitcoin::transaction::Version;
use lightning_signer::bitcoin::{Network, ScriptBuf, Transaction, TxOut};
use lightning_signer::chain::tracker::Headers;
use lightning_signer::channel::{Channel, ChannelBase, ChannelId, ChannelSlot};
use lightning_signer::lightning::ln::chan_utils::build_commitment_secret;
use lightning_signer::lightning::sign::ChannelSigner;
use lightning_signer::lightning::types::payment::PaymentHash;
use lightning_signer::node::{Node, NodeConfig, NodeServices, SpendType};
use lightning_signer::persist::Persist;
use lightning_signer::policy::simple_validator::{make_default_simple_policy, SimpleValidatorFactory};
use lightning_signer::util::velocity::{VelocityControlIntervalType, VelocityControlSpec};
use lightning_signer::signer::derive::KeyDerivationStyle;
use lightning_signer::tx::tx::HTLCInfo2;
use lightning_signer::txoo::proof::TxoProof;
use lightning_signer::util::clock::{Clock, ManualClock};
use lightning_signer::util::status::Status;
use lightning_signer::util::test_utils::key::make_test_pubkey;
use lightning_signer::util::test_utils::*;
use std::collections::BTreeMap;
use std::sync::Arc;
use std::time::Duration;
use vls_persist::kvv::cloud::CloudKVVStore;
use vls_persist::kvv::memory::MemoryKVVStore;
use vls_persist::kvv::{JsonFormat, KVVPersister, KVVStore, KVV};

pub type SimPersister = KVVPersister<CloudKVVStore<MemoryKVVStore>, JsonFormat>;
/// `world backup`: the node persists through `BackupPersister<main, backup>`; the main side is a plain
/// in-memory KVV store, the backup side is the transactional `SimPersister` every other world uses alone
pub type MainPersister = KVVPersister<MemoryKVVStore, JsonFormat>;
/// `world redb`: the main side of the composite is the on-disk redb store (vlsd's default local store);
/// after every request a crash image of its directory must restore the same signer
pub type RedbPersister = KVVPersister<vls_persist::kvv::redb::RedbKVVStore, JsonFormat>;

fn scratch_dir() -> tempfile::TempDir {
    if let Ok(d) = std::env::var("VERIF_TMP") {
        return tempfile::tempdir_in(d).expect("tempdir");
    }
    if std::path::Path::new("/dev/shm").is_dir() {
        if let Ok(d) = tempfile::tempdir_in("/dev/shm") {
            return d;
        }
    }
    tempfile::tempdir().expect("tempdir")
}

fn copy_dir(from: &std::path::Path, to: &std::path::Path) {
    std::fs::create_dir_all(to).unwrap();
    for e in std::fs::read_dir(from).unwrap() {
        let e = e.unwrap();
        let dst = to.join(e.file_name());
        if e.file_type().unwrap().is_dir() { copy_dir(&e.path(), &dst); } else { std::fs::copy(e.path(), dst).unwrap(); }
    }
}

const CHANNEL_VALUE: u64 = 3_000_000;
const INITIAL_COMMITMENT_NUMBER: u64 = (1 << 48) - 1;
const CP_SEED: [u8; 32] = [3u8; 32];
/// peer id of the channel in `world h`
pub const HPEER: [u8; 33] = [2u8; 33];

pub struct Sim {
    pub persister: Arc<SimPersister>,
    pub clock: Arc<ManualClock>,
    pub seed: [u8; 32],
    pub config: NodeConfig,
    pub node_ctx: TestNodeContext,
    pub chan_ctx: TestChannelContext,
    pub extra_channels: Vec<ChannelId>,
    /// the dbids of `extra_channels` (the protocol handler addresses a channel by peer id and dbid)
    pub extra_dbids: Vec<u64>,
    pub hash_ctr: u32,
    /// headers of the blocks we added ourselves (for removals): (header-pair before the block)
    pub prev_tips: Vec<Headers>,
    pub pending_muts_after_err: usize,
    /// mutations reported by the last prepare() and the local store just before its commit()
    pub last_muts: Vec<(String, (u64, Vec<u8>))>,
    pub last_pre_commit: BTreeMap<String, (u64, Vec<u8>)>,
    /// counterparty commitment numbers that were signed for a rogue point
    pub rogue: std::collections::BTreeSet<u64>,
    /// the ready channel has a permanent id different from its initial id
    pub perm: bool,
    /// the funding transaction of the ready channel (ops `blkt f` / `blkt c`: its confirmation and the spend of its
    /// channel outpoint, the on-chain end of life of the channel)
    pub funding_tx: Option<Transaction>,
    /// what the node writes through: `persister` itself, or the composite in `world backup`
    pub node_persister: Arc<dyn Persist>,
    /// `world backup`: the main side of the composite
    pub main: Option<Arc<MainPersister>>,
    /// fault injection: while set, writes to the (backup) store / to the main store are refused
    pub fail_store: Arc<std::sync::atomic::AtomicBool>,
    pub fail_main: Arc<std::sync::atomic::AtomicBool>,
    /// `world redb`: the on-disk main side and its directory
    pub redb: Option<(Arc<RedbPersister>, Arc<tempfile::TempDir>)>,
    /// `world h`
    pub hworld: bool,
    /// tracker height when the simulator finished its set-up
    pub base_height: u32,
}

thread_local! {
    /// `world filter <tag>`: the policy tag demoted to a warning for the current case (read by `services`,
    /// also at restore time)
    static FILTER_TAG: std::cell::RefCell<Option<String>> = std::cell::RefCell::new(None);
}

/// channel-level policy tags a `world filter` may demote (none of them guards a node-level request of the
/// `nodereq` model)
pub const FILTER_TAGS: &[&str] = &[
    "policy-other", "policy-commitment-retry-same", "policy-commitment-fee-range", "policy-commitment-htlc-count-limit",
    "policy-commitment-htlc-inflight-limit", "policy-commitment-htlc-received-spends-active-utxo", "policy-commitment-singular-to-holder",
    "policy-commitment-previous-revoked", "policy-commitment-holder-not-revoked", "policy-revoke-not-closed",
    "policy-mutual-fee-range", "policy-mutual-value-matches-commitment", "policy-commitment-htlc-routing-balance",
    "policy-commitment-payment-approved", "policy-commitment-broadcaster-pubkey", "policy-commitment-version",
];

fn services(persister: Arc<dyn Persist>, clock: Arc<ManualClock>, perm: bool) -> NodeServices {
    // policy numbers mirrored by lean/VlsModel/Drv/NodeReq.lean (cfg, vc0)
    let mut policy = make_default_simple_policy(Network::Testnet);
    policy.global_velocity_control = VelocityControlSpec { limit_msat: 100_000_000, interval_type: VelocityControlIntervalType::Hourly };
    policy.max_invoices = 6;
    // the channel map may hold the ready channel and three stubs (a channel with a permanent id is in
    // the map under both ids); mirrored by cfg.maxChannels = 4 of the model
    policy.max_channels = if perm { 5 } else { 4 };
    if let Some(tag) = FILTER_TAG.with(|t| t.borrow().clone()) {
        use lightning_signer::policy::filter::{FilterRule, PolicyFilter};
        policy.filter = PolicyFilter { rules: vec![FilterRule::new_warn(tag)] };
    }
    NodeServices {
        validator_factory: Arc::new(SimpleValidatorFactory::new_with_policy(policy)),
        starting_time_factory: make_genesis_starting_time_factory(Network::Testnet),
        persister,
        clock,
        trusted_oracle_pubkeys: vec![],
    }
}

pub fn cp_secret(n: u64) -> SecretKey {
    SecretKey::from_slice(&build_commitment_secret(&CP_SEED, INITIAL_COMMITMENT_NUMBER - n)).unwrap()
}

pub fn cp_point(n: u64) -> PublicKey {
    PublicKey::from_secret_key(&Secp256k1::new(), &cp_secret(n))
}

/// A counterparty that does not derive its secrets as BOLT-3 requires: the secret matches the point
/// it had us sign for, but does not chain with its other secrets.
pub fn rogue_secret(n: u64) -> SecretKey {
    let mut b = [0x42u8; 32];
    b[24..].copy_from_slice(&n.to_be_bytes());
    SecretKey::from_slice(&b).unwrap()
}

pub fn rogue_point(n: u64) -> PublicKey {
    PublicKey::from_secret_key(&Secp256k1::new(), &rogue_secret(n))
}

#[derive(Clone, Debug, PartialEq)]
pub enum Outcome {
    Ok,
    Err(String),
    Panic(String),
}

impl Outcome {
    pub fn class(&self) -> String {
        match self {
            Outcome::Ok => "ok".into(),
            Outcome::Err(c) => format!("err:{}", c),
            Outcome::Panic(_) => "panic".into(),
        }
    }
}

fn status_class(e: &Status) -> String {
    format!("{:?}", e.code())
}

impl Sim {
    /// Run `f` inside a persister transaction exactly as vlsd does; returns the outcome and the number
    /// of pending mutations reported by prepare().
    pub fn txn<T>(&mut self, f: impl FnOnce(&mut Sim) -> Result<T, Status>) -> (Outcome, usize) {
        let p = self.persister.clone();
        p.enter().expect("enter");
        let r = std::panic::catch_unwind(std::panic::AssertUnwindSafe(|| f(self)));
        let muts = p.prepare();
        let n = muts.len();
        self.last_pre_commit = self.store_dump();
        self.last_muts = muts.into_inner();
        p.commit().expect("commit");
        let out = match r {
            Ok(Ok(_)) => Outcome::Ok,
            Ok(Err(e)) => {
                if std::env::var("VERIF_DEBUG").is_ok() { eprintln!("   err: {:?}", e); }
                Outcome::Err(status_class(&e))
            }
            Err(e) => {
                let msg = if let Some(s) = e.downcast_ref::<String>() { s.clone() } else if let Some(s) = e.downcast_ref::<&str>() { s.to_string() } else { "?".into() };
                Outcome::Panic(msg)
            }
        };
        (out, n)
    }

    pub fn new() -> Sim {
        Sim::new_with(false)
    }

    /// `perm`: the channel is set up with a permanent id that differs from its initial id (LDK-style flow)
    pub fn new_with(perm: bool) -> Sim {
        Sim::new_world(if perm { "world perm" } else { "" })
    }

    /// `world perm`: see `new_with`; `world fresh`: the channel is set up but its initial holder
    /// commitment is neither validated nor activated (ops `vh`/`vh1` at number 0, then `act`)
    pub fn new_world(first_op: &str) -> Sim {
        let perm = first_op == "world perm";
        let fresh = first_op == "world fresh";
        // `world nocp`: the node starts at the genesis block instead of the compiled-in checkpoint, so its
        // tracker stays below the checkpoint height (a signer that has synced only a few blocks)
        let nocp = first_op == "world nocp";
        // `world filter <tag>`: one channel-level policy tag is demoted to a warning
        FILTER_TAG.with(|t| *t.borrow_mut() = first_op.strip_prefix("world filter ").map(|x| x.to_string()));
        // `world h`: the ready channel is created through `new_channel(dbid, peer)`, so that the real
        // protocol handler (vls-protocol-signer `ChannelHandler` for that peer/dbid) addresses it; its initial
        // commitment is not yet validated (as in `world fresh`).  Ops `HVH` / `HRV` go through the handler.
        let hworld = first_op == "world h";
        let fresh = fresh || hworld;
        // `world stub`: the channel is never set up — the node has no ready channel and the tracker no listener
        let stubworld = first_op == "world stub";
        let fresh = fresh || stubworld;
        let persister: Arc<SimPersister> =
            Arc::new(KVVPersister(CloudKVVStore::new(MemoryKVVStore::new([7u8; 16])), JsonFormat));
        // (a sub-second part: timestamps taken from the clock must survive the store exactly)
        let clock = Arc::new(ManualClock::new(Duration::new(1_600_000_000, 250_000_000)));
        let seed = [9u8; 32];
        let config = NodeConfig {
            network: Network::Testnet,
            key_derivation_style: KeyDerivationStyle::Native,
            use_checkpoints: !nocp,
            allow_deep_reorgs: true,
        };
        // `world backup`: writes go to a main store first and then to the (transactional) backup store
        let main: Option<Arc<MainPersister>> =
            if first_op == "world backup" { Some(Arc::new(KVVPersister(MemoryKVVStore::new([7u8; 16]), JsonFormat))) } else { None };
        let fail_store = Arc::new(std::sync::atomic::AtomicBool::new(false));
        let fail_main = Arc::new(std::sync::atomic::AtomicBool::new(false));
        let redb: Option<(Arc<RedbPersister>, Arc<tempfile::TempDir>)> = if first_op == "world redb" {
            let dir = scratch_dir();
            let store = vls_persist::kvv::redb::RedbKVVStore::new(dir.path());
            Some((Arc::new(KVVPersister(store, JsonFormat)), Arc::new(dir)))
        } else {
            None
        };
        let node_persister: Arc<dyn Persist> = match (&main, &redb) {
            (Some(m), _) => Arc::new(vls_persist::backup_persister::BackupPersister::new(
                super::tap::Tap::with_fail(m.clone(), fail_main.clone()),
                super::tap::Tap::with_fail(persister.clone(), fail_store.clone()),
            )),
            (None, Some((r, _))) => Arc::new(vls_persist::backup_persister::BackupPersister::new(
                super::tap::Tap::with_fail(r.clone(), fail_main.clone()),
                super::tap::Tap::with_fail(persister.clone(), fail_store.clone()),
            )),
            (None, None) => Arc::new(super::tap::Tap::with_fail(persister.clone(), fail_store.clone())),
        };
        persister.enter().unwrap();
        let node = Arc::new(Node::new(config, &seed, vec![], services(node_persister.clone(), clock.clone(), perm)));
        node_persister.new_node(&node.get_id(), &config, &*node.get_state()).unwrap();
        node_persister.new_tracker(&node.get_id(), &node.get_tracker()).unwrap();
        node.add_allowlist(&[]).unwrap();
        let node_ctx = TestNodeContext { node, secp_ctx: Secp256k1::signing_only() };
        // three blocks so that the channel has a chain to live on
        {
            let mut tracker = node_ctx.node.get_tracker();
            // (`world bare`: none — the tracker remembers no header below its tip, as fresh from a checkpoint)
            for _ in 0..(if first_op == "world bare" { 0 } else { 3 }) {
                let (header, proof) = make_testnet_header(tracker.tip(), tracker.height());
                tracker.add_block(header, proof).unwrap();
            }
            node_persister.update_tracker(&node_ctx.node.get_id(), &tracker).unwrap();
        }
        let mut funding_tx: Option<Transaction> = None;
        let chan_ctx = if !perm && !fresh {
            let c = fund_test_channel(&node_ctx, CHANNEL_VALUE);
            funding_tx = rebuild_funding_tx(&node_ctx, &c);
            c
        } else {
            // fund_test_channel, but setup_channel gets a permanent id different from id0
            let incoming = CHANNEL_VALUE + 2_000_000;
            let change = incoming - CHANNEL_VALUE - 1000;
            let mut chan_ctx = if hworld {
                let peer = HPEER;
                let (channel_id, _) = node_ctx.node.new_channel(1, &peer, &node_ctx.node).expect("new_channel");
                let mut setup = make_test_channel_setup();
                setup.channel_value_sat = CHANNEL_VALUE;
                let counterparty_keys = make_test_counterparty_keys(&node_ctx, &channel_id, CHANNEL_VALUE);
                TestChannelContext { channel_id, setup, counterparty_keys }
            } else {
                test_chan_ctx(&node_ctx, 1, CHANNEL_VALUE)
            };
            let mut tx_ctx = TestFundingTxContext::new();
            tx_ctx.add_wallet_input(&node_ctx, SpendType::P2wpkh, 1, incoming);
            tx_ctx.add_wallet_output(&node_ctx, SpendType::P2wpkh, 1, change);
            let ndx = tx_ctx.add_channel_outpoint(&node_ctx, &chan_ctx, CHANNEL_VALUE);
            let tx = tx_ctx.to_tx();
            chan_ctx.setup.funding_outpoint = lightning_signer::bitcoin::OutPoint { txid: tx.compute_txid(), vout: ndx };
            funding_tx = Some(tx.clone());
            let perm_id = if perm { Some(ChannelId::new(&[0xabu8; 32])) } else { None };
            if !stubworld {
                node_ctx.node.setup_channel(chan_ctx.channel_id.clone(), perm_id, chan_ctx.setup.clone(), &DerivationPath::master()).expect("setup_channel");
            }
            if !fresh {
                let mut commit_tx_ctx = channel_initial_holder_commitment(&node_ctx, &chan_ctx);
                let (csig, hsigs) = counterparty_sign_holder_commitment(&node_ctx, &chan_ctx, &mut commit_tx_ctx);
                validate_holder_commitment(&node_ctx, &chan_ctx, &commit_tx_ctx, &csig, &hsigs).expect("valid holder commitment");
                tx_ctx.sign(&node_ctx, &tx).expect("witvec");
            }
            chan_ctx
        };
        // approve the two payment hashes the commitment contents use, so that commitments carrying
        // outgoing HTLCs pass the payment-balance validation and reach the later checks
        // (mirrored by the initial state of lean/VlsModel/Drv/NodeReq.lean)
        node_ctx.node.add_keysend(make_test_pubkey(1), PaymentHash([3; 32]), 10_000_000).unwrap();
        node_ctx.node.add_keysend(make_test_pubkey(1), PaymentHash([4; 32]), 12_000_000).unwrap();
        let _ = persister.prepare();
        persister.commit().unwrap();
        let base_height = node_ctx.node.get_chain_height();
        Sim {
            persister,
            clock,
            seed,
            config,
            node_ctx,
            chan_ctx,
            extra_channels: vec![],
            extra_dbids: vec![],
            hash_ctr: 0,
            prev_tips: vec![],
            pending_muts_after_err: 0,
            last_muts: vec![],
            last_pre_commit: BTreeMap::new(),
            rogue: Default::default(),
            perm,
            funding_tx,
            node_persister,
            main,
            fail_store,
            fail_main,
            redb,
            hworld,
            base_height,
        }
    }

    pub fn node(&self) -> Arc<Node> {
        self.node_ctx.node.clone()
    }

    // ---- counters -------------------------------------------------------------------------

    pub fn counters(&self) -> (u64, bool, bool, u64, u64) {
        self.node()
            .with_channel(&self.chan_ctx.channel_id, |c| {
                let e = &c.enforcement_state;
                Ok((
                    e.next_holder_commit_num,
                    e.next_holder_commit_info.is_some(),
                    e.channel_closed,
                    e.next_counterparty_commit_num,
                    e.next_counterparty_revoke_num,
                ))
            })
            .unwrap_or((0, false, false, 0, 0))
    }

    /// content variant → (to_holder, to_counterparty, offered htlcs, received htlcs, feerate)
    fn content(&self, var: u64) -> (u64, u64, Vec<HTLCInfo2>, Vec<HTLCInfo2>, u32) {
        let feerate = 1100u32;
        let fees = 20_000u64;
        let (offered, received): (Vec<HTLCInfo2>, Vec<HTLCInfo2>) = match if var >= 9 { var } else { var % 3 } {
            // outgoing HTLCs: backed by the approved keysend, for an unapproved hash, overpaying the approved one
            9 => (vec![HTLCInfo2 { value_sat: 10_000, payment_hash: PaymentHash([3; 32]), cltv_expiry: 3 << 16 }], vec![]),
            10 => (vec![HTLCInfo2 { value_sat: 10_000, payment_hash: PaymentHash([5; 32]), cltv_expiry: 3 << 16 }], vec![]),
            11 => (vec![HTLCInfo2 { value_sat: 25_000, payment_hash: PaymentHash([3; 32]), cltv_expiry: 3 << 16 }], vec![]),
            0 => (vec![], vec![]),
            1 => (vec![], vec![HTLCInfo2 { value_sat: 10_000, payment_hash: PaymentHash([3; 32]), cltv_expiry: 3 << 16 }]),
            _ => (
                vec![],
                vec![
                    HTLCInfo2 { value_sat: 10_000, payment_hash: PaymentHash([3; 32]), cltv_expiry: 3 << 16 },
                    HTLCInfo2 { value_sat: 12_000, payment_hash: PaymentHash([4; 32]), cltv_expiry: 4 << 16 },
                ],
            ),
        };
        let sum: u64 = offered.iter().chain(received.iter()).map(|h| h.value_sat).sum();
        let to_holder = 2_000_000 - (if var >= 9 { 0 } else { var / 3 }) * 1000;
        let to_cp = CHANNEL_VALUE - to_holder - sum - fees;
        (to_holder, to_cp, offered, received, feerate)
    }

    // ---- requests -------------------------------------------------------------------------

    pub fn validate_holder(&mut self, d: i64, good_sig: bool, var: u64) -> (Outcome, usize) {
        self.validate_holder_with(d, good_sig, var, false)
    }

    /// `phase1`: through `validate_holder_commitment_tx` (the caller hands over the transaction and
    /// its witness scripts) instead of the phase-2 entry point
    pub fn validate_holder_with(&mut self, d: i64, good_sig: bool, var: u64, phase1: bool) -> (Outcome, usize) {
        self.validate_holder_full(d, good_sig, var, phase1, 0)
    }

    /// `then`: what the protocol handler does in the same request after the validation succeeded
    /// (vls-protocol-signer ValidateCommitmentTx / ValidateCommitmentTx2 arms): 1 = protocol with a separate
    /// revoke message (next point for n > 0, activation for n = 0), 2 = old protocol (revoke at once)
    pub fn validate_holder_full(&mut self, d: i64, good_sig: bool, var: u64, phase1: bool, then: u8) -> (Outcome, usize) {
        let (next, ..) = self.counters();
        let n = (next as i64 + d).max(0) as u64;
        let (to_holder, to_cp, offered, received, feerate) = self.content(var);
        // the initial holder commitment gives everything (minus fee) to the funder (us), no HTLCs
        let (to_holder, to_cp, offered, received, feerate) =
            if n == 0 { (CHANNEL_VALUE - 1_000, 0, vec![], vec![], 0) } else { (to_holder, to_cp, offered, received, feerate) };
        self.txn(|s| {
            // the commitment is built (and counter-signed) for number n; building needs the point,
            // which the channel only hands out for n <= next: use the helper's number juggling
            let build_n = n.min(next + 1);
            let mut ctx = channel_commitment(&s.node_ctx, &s.chan_ctx, build_n, feerate, to_holder, to_cp, offered.clone(), received.clone());
            let (mut csig, hsigs) = counterparty_sign_holder_commitment(&s.node_ctx, &s.chan_ctx, &mut ctx);
            if !good_sig {
                // a signature by the right key on a different commitment
                let mut other = channel_commitment(&s.node_ctx, &s.chan_ctx, build_n, feerate, to_holder - 1, to_cp + 1, offered.clone(), received.clone());
                csig = counterparty_sign_holder_commitment(&s.node_ctx, &s.chan_ctx, &mut other).0;
            }
            let cp_funding = s.chan_ctx.setup.counterparty_points.funding_pubkey;
            s.node().with_channel(&s.chan_ctx.channel_id, |chan| {
                if phase1 {
                    let channel_parameters = chan.make_channel_parameters();
                    let parameters = channel_parameters.as_holder_broadcastable();
                    let trusted = ctx.tx.as_ref().unwrap().trust();
                    let htlcs = Channel::htlcs_info2_to_oic(&offered, &received);
                    let scripts = build_tx_scripts(trusted.keys(), to_holder, to_cp, &htlcs, &parameters, &chan.keys.pubkeys().funding_pubkey, &cp_funding).expect("scripts");
                    let witscripts: Vec<Vec<u8>> = scripts.iter().map(|s| s.as_bytes().to_vec()).collect();
                    chan.validate_holder_commitment_tx(&trusted.built_transaction().transaction, &witscripts, n, feerate, offered.clone(), received.clone(), &csig, &hsigs)?;
                } else {
                    chan.validate_holder_commitment_tx_phase2(n, feerate, to_holder, to_cp, offered.clone(), received.clone(), &csig, &hsigs)?;
                }
                match then {
                    1 if n > 0 => chan.get_per_commitment_point(n + 1).map(|_| ()),
                    1 => chan.activate_initial_commitment().map(|_| ()),
                    2 => chan.revoke_previous_holder_commitment(n).map(|_| ()),
                    _ => Ok(()),
                }
            })
        })
    }

    /// a protocol handler for the channel of `world h` at the given protocol version
    fn channel_handler(&self, ver: u32) -> vls_protocol_signer::handler::ChannelHandler {
        use vls_protocol::msgs::{self, Message};
        use vls_protocol_signer::handler::{Handler, InitHandler, RootHandler};
        let mut init = InitHandler::new(0, self.node(), Arc::new(vls_protocol_signer::approver::PositiveApprover()), ver);
        let m = msgs::HsmdInit {
            key_version: vls_protocol::model::Bip32KeyVersion { pubkey_version: 0, privkey_version: 0 },
            chain_params: lightning_signer::bitcoin::BlockHash::all_zeros(),
            encryption_key: None,
            dev_privkey: None,
            dev_bip32_seed: None,
            dev_channel_secrets: None,
            dev_channel_secrets_shaseed: None,
            hsm_wire_min_version: 2,
            hsm_wire_max_version: ver,
        };
        let (done, _) = init.handle(Message::HsmdInit(m)).expect("hsmd init");
        assert!(done);
        let root: RootHandler = init.into();
        root.for_new_client(1, vls_protocol::model::PubKey(HPEER), 1)
    }

    /// `ValidateCommitmentTx2` through the real protocol handler (`world h`); `ver` 6: the revocation is a
    /// separate message, `ver` 4: the handler revokes in the same request
    pub fn handler_validate(&mut self, d: i64, good_sig: bool, var: u64, ver: u32) -> (Outcome, usize) {
        use vls_protocol::model::{BitcoinSignature, Htlc, Sha256, Signature as WireSig};
        use vls_protocol::msgs::{self, Message};
        use vls_protocol_signer::handler::Handler;
        let (next, ..) = self.counters();
        let n = (next as i64 + d).max(0) as u64;
        let (to_holder, to_cp, offered, received, feerate) = self.content(var);
        let (to_holder, to_cp, offered, received, feerate) =
            if n == 0 { (CHANNEL_VALUE - 1_000, 0, vec![], vec![], 0) } else { (to_holder, to_cp, offered, received, feerate) };
        self.txn(|s| {
            let build_n = n.min(next + 1);
            let mut ctx = channel_commitment(&s.node_ctx, &s.chan_ctx, build_n, feerate, to_holder, to_cp, offered.clone(), received.clone());
            let (mut csig, hsigs) = counterparty_sign_holder_commitment(&s.node_ctx, &s.chan_ctx, &mut ctx);
            if !good_sig {
                let mut other = channel_commitment(&s.node_ctx, &s.chan_ctx, build_n, feerate, to_holder - 1, to_cp + 1, offered.clone(), received.clone());
                csig = counterparty_sign_holder_commitment(&s.node_ctx, &s.chan_ctx, &mut other).0;
            }
            // the wire sides: LOCAL = offered by us
            let mut htlcs: Vec<Htlc> = vec![];
            for (side, l) in [(Htlc::LOCAL, &offered), (Htlc::REMOTE, &received)] {
                for x in l {
                    htlcs.push(Htlc { side, amount: x.value_sat * 1000, payment_hash: Sha256(x.payment_hash.0), ctlv_expiry: x.cltv_expiry });
                }
            }
            let m = msgs::ValidateCommitmentTx2 {
                commitment_number: n,
                feerate,
                to_local_value_sat: to_holder,
                to_remote_value_sat: to_cp,
                htlcs: htlcs.into(),
                signature: BitcoinSignature { signature: WireSig(csig.serialize_compact()), sighash: 1 },
                htlc_signatures: hsigs.iter().map(|x| BitcoinSignature { signature: WireSig(x.serialize_compact()), sighash: 1 }).collect::<Vec<_>>().into(),
            };
            let h = s.channel_handler(ver);
            h.handle(Message::ValidateCommitmentTx2(m)).map(|_| ()).map_err(|e| match e {
                vls_protocol_signer::handler::Error::Signing(st) => st,
                other => Status::internal(format!("{:?}", other)),
            })
        })
    }

    /// `RevokeCommitmentTx` through the real protocol handler (`world h`)
    pub fn handler_revoke(&mut self, d: i64) -> (Outcome, usize) {
        use vls_protocol::msgs::{self, Message};
        use vls_protocol_signer::handler::Handler;
        let (next, ..) = self.counters();
        let n = (next as i64 - 1 + d).max(0) as u64;
        self.txn(|s| {
            let h = s.channel_handler(6);
            h.handle(Message::RevokeCommitmentTx(msgs::RevokeCommitmentTx { commitment_number: n })).map(|_| ()).map_err(|e| match e {
                vls_protocol_signer::handler::Error::Signing(st) => st,
                other => Status::internal(format!("{:?}", other)),
            })
        })
    }

    fn channel_call(&mut self, msg: vls_protocol::msgs::Message) -> (Outcome, usize) {
        use vls_protocol_signer::handler::Handler;
        self.txn(move |s| {
            let h = s.channel_handler(6);
            h.handle(msg).map(|_| ()).map_err(|e| match e {
                vls_protocol_signer::handler::Error::Signing(st) => st,
                other => Status::internal(format!("{:?}", other)),
            })
        })
    }

    /// `SignRemoteCommitmentTx2` through the real protocol handler (`world h`): the same request as `scp d var`
    pub fn handler_sign_cp(&mut self, d: i64, var: u64) -> (Outcome, usize) {
        use vls_protocol::model::{Htlc, PubKey, Sha256};
        use vls_protocol::msgs::{self, Message};
        let (_, _, _, cpn, _) = self.counters();
        let n = (cpn as i64 + d).max(0) as u64;
        let (a, b, offered, received, feerate) = self.content(var);
        let (to_holder, to_counterparty, offered, received) =
            if n == 0 { (CHANNEL_VALUE - 1_000, 0, vec![], vec![]) } else { (a, b, received, offered) };
        let feerate = if n == 0 { 0 } else { feerate };
        let point = if self.rogue.contains(&n) { rogue_point(n) } else { cp_point(n) };
        // the arm takes the REMOTE side as offered and the LOCAL side as received (it "flips" for the counterparty's tx)
        let mut htlcs: Vec<Htlc> = vec![];
        for (side, l) in [(Htlc::REMOTE, &offered), (Htlc::LOCAL, &received)] {
            for x in l {
                htlcs.push(Htlc { side, amount: x.value_sat * 1000, payment_hash: Sha256(x.payment_hash.0), ctlv_expiry: x.cltv_expiry });
            }
        }
        self.channel_call(Message::SignRemoteCommitmentTx2(msgs::SignRemoteCommitmentTx2 {
            remote_per_commitment_point: PubKey(point.serialize()),
            commitment_number: n,
            feerate,
            to_local_value_sat: to_holder,
            to_remote_value_sat: to_counterparty,
            htlcs: htlcs.into(),
        }))
    }

    /// `ValidateRevocation` through the real protocol handler (`world h`): the same request as `cpr d g|b`
    pub fn handler_cp_revoke(&mut self, d: i64, good: bool) -> (Outcome, usize) {
        use vls_protocol::msgs::{self, Message};
        let (_, _, _, _, rn) = self.counters();
        let n = (rn as i64 + d).max(0) as u64;
        let right = if self.rogue.contains(&n) { rogue_secret(n) } else { cp_secret(n) };
        let secret = if good { right } else { cp_secret(n + 7) };
        self.channel_call(Message::ValidateRevocation(msgs::ValidateRevocation {
            commitment_number: n,
            commitment_secret: vls_protocol::model::DisclosedSecret(secret.secret_bytes()),
        }))
    }

    /// `SignLocalCommitmentTx2` through the real protocol handler (`world h`): the same request as `sh d`
    pub fn handler_sign_holder(&mut self, d: i64) -> (Outcome, usize) {
        use vls_protocol::msgs::{self, Message};
        let (next, ..) = self.counters();
        let n = (next as i64 - 1 + d).max(0) as u64;
        self.channel_call(Message::SignLocalCommitmentTx2(msgs::SignLocalCommitmentTx2 { commitment_number: n }))
    }

    pub fn revoke(&mut self, d: i64) -> (Outcome, usize) {
        let (next, ..) = self.counters();
        let n = (next as i64 + d).max(0) as u64;
        self.txn(|s| s.node().with_channel(&s.chan_ctx.channel_id, |chan| chan.revoke_previous_holder_commitment(n).map(|_| ())))
    }

    pub fn sign_cp(&mut self, d: i64, var: u64) -> (Outcome, usize) {
        self.sign_cp_with(d, var, false)
    }

    pub fn sign_cp_with(&mut self, d: i64, var: u64, rogue: bool) -> (Outcome, usize) {
        self.sign_cp_full(d, var, rogue, false)
    }

    pub fn sign_cp_full(&mut self, d: i64, var: u64, rogue: bool, phase1: bool) -> (Outcome, usize) {
        let (_, _, _, cpn, _) = self.counters();
        let n = (cpn as i64 + d).max(0) as u64;
        let (a, b, offered, received, feerate) = self.content(var);
        // on the counterparty's commitment the broadcaster is the counterparty; the initial one must
        // give everything (minus fee) to the funder (us) and carry no HTLC
        let (to_holder, to_counterparty, offered, received) =
            if n == 0 { (CHANNEL_VALUE - 1_000, 0, vec![], vec![]) } else { (a, b, received, offered) };
        // a number once signed for a rogue point keeps it (a retry must present the same point)
        let use_rogue = if self.rogue.contains(&n) { true } else { rogue && n >= cpn };
        let point = if use_rogue { rogue_point(n) } else { cp_point(n) };
        let r = self.txn(|s| {
            let cp_funding = s.chan_ctx.setup.counterparty_points.funding_pubkey;
            let feerate = if n == 0 { 0 } else { feerate };
            s.node().with_channel(&s.chan_ctx.channel_id, |chan| {
                if phase1 {
                    let channel_parameters = chan.make_channel_parameters();
                    let parameters = channel_parameters.as_counterparty_broadcastable();
                    let keys = chan.make_counterparty_tx_keys(&point);
                    let htlcs = Channel::htlcs_info2_to_oic(&offered, &received);
                    let scripts = build_tx_scripts(&keys, to_counterparty, to_holder, &htlcs, &parameters, &chan.keys.pubkeys().funding_pubkey, &cp_funding).expect("scripts");
                    let witscripts: Vec<Vec<u8>> = scripts.iter().map(|s| s.as_bytes().to_vec()).collect();
                    let ctx = chan.make_counterparty_commitment_tx_with_keys(keys, n, feerate, to_holder, to_counterparty, htlcs);
                    let tx = ctx.trust().built_transaction().transaction.clone();
                    chan.sign_counterparty_commitment_tx(&tx, &witscripts, &point, n, feerate, offered.clone(), received.clone()).map(|_| ())
                } else {
                    chan.sign_counterparty_commitment_tx_phase2(&point, n, feerate, to_holder, to_counterparty, offered.clone(), received.clone()).map(|_| ())
                }
            })
        });
        if r.0 == Outcome::Ok && use_rogue {
            self.rogue.insert(n);
        }
        r
    }

    pub fn cp_revoke(&mut self, d: i64, good: bool) -> (Outcome, usize) {
        let (_, _, _, _, rn) = self.counters();
        let n = (rn as i64 + d).max(0) as u64;
        let right = if self.rogue.contains(&n) { rogue_secret(n) } else { cp_secret(n) };
        let secret = if good { right } else { cp_secret(n + 7) };
        self.txn(|s| s.node().with_channel(&s.chan_ctx.channel_id, |chan| chan.validate_counterparty_revocation(n, &secret)))
    }

    /// Re-submit the channel's funding transaction for signing; `good = false` gives one wallet input a
    /// derivation path of the wrong length, which the signing step (after the policy check) refuses.
    pub fn onchain_sign(&mut self, good: bool) -> (Outcome, usize) {
        self.txn(|s| {
            let incoming = CHANNEL_VALUE + 2_000_000;
            let change = incoming - CHANNEL_VALUE - 1000;
            let mut tx_ctx = TestFundingTxContext::new();
            tx_ctx.add_wallet_input(&s.node_ctx, SpendType::P2wpkh, 1, incoming);
            tx_ctx.add_wallet_output(&s.node_ctx, SpendType::P2wpkh, 1, change);
            tx_ctx.add_channel_outpoint(&s.node_ctx, &s.chan_ctx, CHANNEL_VALUE);
            let tx = tx_ctx.to_tx();
            if !good {
                use lightning_signer::bitcoin::bip32::ChildNumber;
                tx_ctx.ipaths[0] = DerivationPath::from(vec![ChildNumber::from_normal_idx(1).unwrap(), ChildNumber::from_normal_idx(2).unwrap()]);
            }
            tx_ctx.sign(&s.node_ctx, &tx).map(|_| ())
        })
    }

    pub fn sign_holder(&mut self, d: i64) -> (Outcome, usize) {
        let (next, ..) = self.counters();
        let n = (next as i64 - 1 + d).max(0) as u64;
        self.txn(|s| s.node().with_channel(&s.chan_ctx.channel_id, |chan| chan.sign_holder_commitment_tx_phase2(n).map(|_| ())))
    }

    /// force-close for recovery: signs the current holder commitment and marks the channel closed
    pub fn sign_holder_recovery(&mut self) -> (Outcome, usize) {
        self.txn(|s| s.node().with_channel(&s.chan_ctx.channel_id, |chan| chan.sign_holder_commitment_tx_for_recovery(1000, &[]).map(|_| ())))
    }

    /// the legacy entry point that rebuilds the holder commitment from caller-supplied contents
    /// (`same = true`: the contents of the current holder commitment)
    pub fn sign_holder_redundant(&mut self, d: i64, same: bool) -> (Outcome, usize) {
        let (next, ..) = self.counters();
        let n = (next as i64 - 1 + d).max(0) as u64;
        self.txn(|s| {
            s.node().with_channel(&s.chan_ctx.channel_id, |chan| {
                let info = chan.enforcement_state.current_holder_commit_info.clone().ok_or_else(|| Status::invalid_argument("no current holder commitment"))?;
                let delta = if same { 0 } else { 1 };
                chan.sign_holder_commitment_tx_phase2_redundant(n, info.feerate_per_kw, info.to_broadcaster_value_sat - delta, info.to_countersigner_value_sat + delta, info.offered_htlcs.clone(), info.received_htlcs.clone()).map(|_| ())
            })
        })
    }

    pub fn activate(&mut self) -> (Outcome, usize) {
        self.txn(|s| s.node().with_channel(&s.chan_ctx.channel_id, |chan| chan.activate_initial_commitment().map(|_| ())))
    }

    pub fn mutual_close(&mut self, good: bool) -> (Outcome, usize) {
        self.txn(|s| {
            let node = s.node();
            let wallet_path = DerivationPath::from(vec![lightning_signer::bitcoin::bip32::ChildNumber::from_normal_idx(1).unwrap()]);
            let holder_script = make_test_funding_wallet_addr(&node, 1, SpendType::P2wpkh).script_pubkey();
            let cp_script = ScriptBuf::from(vec![0u8, 20, 1, 1, 1, 1, 1, 1, 1, 1, 1, 1, 1, 1, 1, 1, 1, 1, 1, 1, 1, 1]);
            node.with_channel(&s.chan_ctx.channel_id, |chan| {
                let e = &chan.enforcement_state;
                let info = match e.current_holder_commit_info.as_ref() {
                    Some(i) => i.clone(),
                    // not yet activated: ask for an arbitrary split
                    None => return chan.sign_mutual_close_tx_phase2(1_000_000, 1_000_000, &Some(holder_script.clone()), &Some(cp_script.clone()), &wallet_path).map(|_| ()),
                };
                let to_holder = if good { info.to_broadcaster_value_sat } else { info.to_broadcaster_value_sat / 2 };
                let to_cp = info.to_countersigner_value_sat;
                chan.sign_mutual_close_tx_phase2(to_holder.saturating_sub(if good { 0 } else { 0 }), to_cp, &Some(holder_script.clone()), &Some(cp_script.clone()), &wallet_path).map(|_| ())
            })
        })
    }

    /// phase-1 entry point: the caller supplies the closing transaction
    pub fn mutual_close_phase1(&mut self, good: bool) -> (Outcome, usize) {
        use lightning_signer::lightning::ln::chan_utils::ClosingTransaction;
        self.txn(|s| {
            let node = s.node();
            let wallet_path = DerivationPath::from(vec![lightning_signer::bitcoin::bip32::ChildNumber::from_normal_idx(1).unwrap()]);
            let holder_script = make_test_funding_wallet_addr(&node, 1, SpendType::P2wpkh).script_pubkey();
            let cp_script = ScriptBuf::from(vec![0u8, 20, 1, 1, 1, 1, 1, 1, 1, 1, 1, 1, 1, 1, 1, 1, 1, 1, 1, 1, 1, 1]);
            node.with_channel(&s.chan_ctx.channel_id, |chan| {
                let info = chan.enforcement_state.current_holder_commit_info.clone().ok_or_else(|| Status::invalid_argument("no current holder commitment"))?;
                let to_holder = if good { info.to_broadcaster_value_sat } else { info.to_broadcaster_value_sat / 2 };
                let to_cp = info.to_countersigner_value_sat;
                let closing = ClosingTransaction::new(to_holder, to_cp, holder_script.clone(), cp_script.clone(), chan.setup.funding_outpoint);
                let tx = closing.trust().built_transaction().clone();
                let opaths: Vec<DerivationPath> = tx.output.iter().map(|o| if o.script_pubkey == holder_script { wallet_path.clone() } else { DerivationPath::master() }).collect();
                chan.sign_mutual_close_tx(&tx, &opaths).map(|_| ())
            })
        })
    }

    pub fn allowlist(&mut self, op: &str, kind: &str) -> (Outcome, usize) {
        let good1 = "tb1qhetd7l0rv6kca6wvmt25ax5ej05eaat9q29z7z".to_string();
        let good2 = "tb1qycu764qwuvhn7u0enpg0x8gwumyuw565f3mspnn58rsgar5hkjmqtjegrh".to_string();
        // a third valid address (one of the node's own), "x" in the digest
        let good3 = make_test_funding_wallet_addr(&self.node(), 5, SpendType::P2wpkh).to_string();
        let list: Vec<String> = match kind {
            "g" => vec![good1],
            "g2" => vec![good2],
            "x" => vec![good3],
            "b" => vec!["bogus".into()],
            "m" => vec![good2, "bogus".into()],
            "gx" => vec![good1, good3],
            "xg" => vec![good3, good1],
            "g2g" => vec![good2, good1],
            "ggd" => vec![good1.clone(), good1],
            _ => vec![good1, good2],
        };
        let op = op.to_string();
        self.txn(|s| match op.as_str() {
            "add" => s.node().add_allowlist(&list),
            "set" => s.node().set_allowlist(&list),
            _ => s.node().remove_allowlist(&list),
        })
    }

    pub fn keysend(&mut self, amt: u64, dup: bool) -> (Outcome, usize) {
        if !dup || self.hash_ctr == 0 {
            self.hash_ctr += 1;
        }
        let mut h = [0x55u8; 32];
        h[..4].copy_from_slice(&self.hash_ctr.to_be_bytes());
        self.txn(|s| s.node().add_keysend(make_test_pubkey(1), PaymentHash(h), amt).map(|_| ()))
    }

    pub fn new_channel(&mut self, nn: u64) -> (Outcome, usize) {
        let peer = make_test_pubkey(2).serialize();
        let id = ChannelId::new_from_peer_id_and_oid(&peer, nn);
        let r = self.txn(|s| {
            let node = s.node();
            node.new_channel(nn, &peer, &node).map(|_| ())
        });
        if r.0 == Outcome::Ok && !self.extra_channels.contains(&id) {
            self.extra_channels.push(id);
            self.extra_dbids.push(nn);
        }
        r
    }

    /// one request through the real `RootHandler::handle` (vls-protocol-signer), inside a persister transaction
    fn root_call(&mut self, msg: vls_protocol::msgs::Message) -> (Outcome, usize) {
        use vls_protocol_signer::handler::Handler;
        self.txn(move |s| {
            let h = s.root_handler();
            let r = std::panic::catch_unwind(std::panic::AssertUnwindSafe(|| h.handle(msg)));
            match r {
                Err(_) => Err(Status::internal("handler aborted")),
                Ok(Ok(_reply)) => Ok(()),
                Ok(Err(e)) => Err(match e { vls_protocol_signer::handler::Error::Signing(st) => st, other => Status::internal(format!("{:?}", other)) }),
            }
        })
    }

    /// `NewChannel` through the protocol handler's arm (same peer as `new_channel`)
    pub fn handler_new_channel(&mut self, nn: u64) -> (Outcome, usize) {
        use vls_protocol::msgs::{self, Message};
        let peer = make_test_pubkey(2).serialize();
        let id = ChannelId::new_from_peer_id_and_oid(&peer, nn);
        let r = self.root_call(Message::NewChannel(msgs::NewChannel { peer_id: vls_protocol::model::PubKey(peer), dbid: nn }));
        if r.0 == Outcome::Ok && !self.extra_channels.contains(&id) {
            self.extra_channels.push(id);
            self.extra_dbids.push(nn);
        }
        r
    }

    /// `ForgetChannel` through the protocol handler's arm; the handler addresses a channel by (peer, dbid), so only
    /// the channels created by `newch` / `HNEW` can be named: for `which = 0` or without such a channel this is `forget`
    pub fn handler_forget(&mut self, which: u64) -> (Outcome, usize) {
        use vls_protocol::msgs::{self, Message};
        if which == 0 || self.extra_channels.is_empty() {
            return self.forget(which);
        }
        let dbid = self.extra_dbids[(which as usize - 1) % self.extra_dbids.len()];
        let peer = make_test_pubkey(2).serialize();
        self.root_call(Message::ForgetChannel(msgs::ForgetChannel { node_id: vls_protocol::model::PubKey(peer), dbid }))
    }

    /// `GetHeartbeat` through the protocol handler's arm
    pub fn handler_heartbeat(&mut self) -> (Outcome, usize) {
        use vls_protocol::msgs::{self, Message};
        self.root_call(Message::GetHeartbeat(msgs::GetHeartbeat {}))
    }

    /// `setup_channel` on stub `nn` with a setup the policy refuses (kind 0: holder delay below the
    /// minimum, 1: counterparty delay above the maximum, 2: deprecated commitment type, 3: push above
    /// the channel value); the stub must stay a stub
    pub fn setup_bad(&mut self, nn: u64, kind: u64) -> (Outcome, usize) {
        use lightning_signer::channel::CommitmentType;
        let peer = make_test_pubkey(2).serialize();
        let id = ChannelId::new_from_peer_id_and_oid(&peer, nn);
        let mut setup = make_test_channel_setup();
        setup.funding_outpoint.vout = 100 + nn as u32;
        match kind % 4 {
            0 => setup.holder_selected_contest_delay = 3,
            1 => setup.counterparty_selected_contest_delay = 2017,
            2 => setup.commitment_type = CommitmentType::Anchors,
            _ => setup.push_value_msat = setup.channel_value_sat * 1000 + 1,
        }
        self.txn(|s| s.node().setup_channel(id.clone(), None, setup.clone(), &DerivationPath::master()).map(|_| ()))
    }

    /// `sign_bolt11_invoice` (the node issues an invoice): payment hash `h`, amount `amt` msat.
    /// The same hash with another amount is a different invoice and is refused.
    pub fn sign_invoice(&mut self, h: u64, amt: u64) -> (Outcome, usize) {
        use lightning_signer::bitcoin::hashes::sha256::Hash as Sha256Hash;
        use lightning_signer::lightning::types::payment::PaymentSecret;
        use lightning_signer::lightning_invoice::{Currency, InvoiceBuilder};
        let now = self.clock.now();
        self.txn(|s| {
            let b = InvoiceBuilder::new(Currency::BitcoinTestnet)
                .duration_since_epoch(now)
                .payment_hash(Sha256Hash::from_slice(&[0x60 + h as u8; 32]).unwrap())
                .payment_secret(PaymentSecret([0; 32]))
                .description("".to_string());
            let raw = if amt > 0 { b.amount_milli_satoshis(amt).build_raw() } else { b.build_raw() }.map_err(|_| Status::invalid_argument("build"))?;
            s.node().sign_bolt11_invoice(raw).map(|_| ())
        })
    }

    pub fn forget(&mut self, which: u64) -> (Outcome, usize) {
        let id = if which == 0 || self.extra_channels.is_empty() {
            self.chan_ctx.channel_id.clone()
        } else {
            self.extra_channels[(which as usize - 1) % self.extra_channels.len()].clone()
        };
        self.txn(|s| s.node().forget_channel(&id))
    }

    pub fn heartbeat(&mut self) -> (Outcome, usize) {
        self.txn(|s| {
            s.node().get_heartbeat();
            Ok(())
        })
    }

    pub fn add_block(&mut self, good: bool) -> (Outcome, usize) {
        self.txn(|s| {
            let node = s.node();
            let mut tracker = node.get_tracker();
            let tip = tracker.tip().clone();
            let (header, proof) = if good {
                make_testnet_header(&tip, tracker.height())
            } else {
                // a block that does not build on the tip
                let old = tracker.headers().get(1).cloned().unwrap_or_else(|| {
                    // no remembered header to build on: a header that is not the tip's (different nonce)
                    let mut h = tip.0.clone();
                    h.nonce = h.nonce.wrapping_add(1);
                    Headers(h, tip.1)
                });
                make_testnet_header(&Headers(old.0, old.1), tracker.height())
            };
            match tracker.add_block(header, proof) {
                Ok(_) => {
                    node.get_persister().update_tracker(&node.get_id(), &tracker).unwrap();
                    s.prev_tips.push(tip);
                    Ok(())
                }
                Err(e) => Err(Status::invalid_argument(format!("{:?}", e).split('(').next().unwrap_or("tracker").to_string())),
            }
        })
    }

    /// a root protocol handler for the node (any world)
    fn root_handler(&self) -> vls_protocol_signer::handler::RootHandler {
        use vls_protocol::msgs::{self, Message};
        use vls_protocol_signer::handler::{Handler, InitHandler};
        let mut init = InitHandler::new(0, self.node(), Arc::new(vls_protocol_signer::approver::PositiveApprover()), 6);
        let m = msgs::HsmdInit {
            key_version: vls_protocol::model::Bip32KeyVersion { pubkey_version: 0, privkey_version: 0 },
            chain_params: lightning_signer::bitcoin::BlockHash::all_zeros(),
            encryption_key: None,
            dev_privkey: None,
            dev_bip32_seed: None,
            dev_channel_secrets: None,
            dev_channel_secrets_shaseed: None,
            hsm_wire_min_version: 2,
            hsm_wire_max_version: 6,
        };
        let (done, _) = init.handle(Message::HsmdInit(m)).expect("hsmd init");
        assert!(done);
        init.into()
    }

    /// `AddBlock` through the real protocol handler (its arm is where an accepted block is made durable)
    pub fn handler_add_block(&mut self, good: bool) -> (Outcome, usize) {
        use lightning_signer::bitcoin::consensus::serialize;
        use vls_protocol::msgs::{self, DebugTxoProof, Message};
        use vls_protocol::serde_bolt::Octets;
        use vls_protocol_signer::handler::Handler;
        self.txn(|s| {
            let node = s.node();
            let (tip, height, old) = {
                let tracker = node.get_tracker();
                (tracker.tip().clone(), tracker.height(), tracker.headers().get(1).cloned())
            };
            let (header, proof) = if good {
                make_testnet_header(&tip, height)
            } else {
                let old = old.unwrap_or_else(|| {
                    let mut h = tip.0.clone();
                    h.nonce = h.nonce.wrapping_add(1);
                    Headers(h, tip.1)
                });
                make_testnet_header(&Headers(old.0, old.1), height)
            };
            let h = s.root_handler();
            let r = std::panic::catch_unwind(std::panic::AssertUnwindSafe(|| {
                h.handle(Message::AddBlock(msgs::AddBlock { header: Octets(serialize(&header)), unspent_proof: Some(DebugTxoProof(proof)) }))
            }));
            match r {
                // the handler aborts on a refused block (`expect`): the request is refused
                Err(_) => Err(Status::invalid_argument("handler aborted")),
                Ok(Ok(reply)) => match msgs::from_vec(reply.as_vec()) {
                    Ok(Message::AddBlockReply(_)) => { s.prev_tips.push(tip); Ok(()) }
                    // an orphan block is answered with a SignerError reply, not with an error status
                    Ok(Message::SignerError(_)) => Err(Status::invalid_argument("OrphanBlock")),
                    other => Err(Status::internal(format!("unexpected reply {:?}", other.map(|_| ())))),
                },
                Ok(Err(e)) => Err(match e { vls_protocol_signer::handler::Error::Signing(st) => st, other => Status::internal(format!("{:?}", other)) }),
            }
        })
    }

    /// connect `n` good blocks in one request (fills the remembered-header window)
    /// `blkt f`: a block that confirms the funding transaction of the ready channel; `blkt c`: a block with a
    /// transaction that spends the channel's funding outpoint and is not a commitment transaction (for the monitor: a
    /// mutual close).  With MIN_DEPTH blocks on top and `forget`, the next heartbeat prunes the READY channel.
    pub fn add_block_with(&mut self, kind: &str) -> (Outcome, usize) {
        use lightning_signer::bitcoin::consensus::serialize;
        use lightning_signer::bitcoin::{Amount, Sequence, TxIn, Witness};
        use lightning_signer::txoo::proof::ProofType;
        let tx = match (kind, self.funding_tx.clone()) {
            ("f", Some(t)) => t,
            ("c", _) => Transaction {
                version: Version::TWO,
                lock_time: LockTime::ZERO,
                input: vec![TxIn { previous_output: self.chan_ctx.setup.funding_outpoint, script_sig: ScriptBuf::new(), sequence: Sequence::MAX, witness: Witness::new() }],
                output: vec![TxOut { value: Amount::from_sat(CHANNEL_VALUE - 1000), script_pubkey: ScriptBuf::from_bytes(vec![0x00, 0x14, 7, 7, 7, 7, 7, 7, 7, 7, 7, 7, 7, 7, 7, 7, 7, 7, 7, 7, 7, 7]) }],
            },
            _ => return self.txn(|_| -> Result<(), Status> { Err(Status::invalid_argument("no-funding-tx")) }),
        };
        self.txn(|s| {
            let node = s.node();
            let mut tracker = node.get_tracker();
            let tip = tracker.tip().clone();
            let h = tracker.height();
            let block = make_block(tip.0, vec![tx]);
            let proof = TxoProof::prove_unchecked(&block, &tip.1, h + 1);
            // as the front end does: compact proof, or the streamed block when the compact filter has a false positive
            let secp = Secp256k1::new();
            let watches = tracker.get_all_forward_watches().1;
            let zero = tip.1.to_byte_array().iter().all(|x| *x == 0);
            let fp = !zero && proof.verify(h + 1, &block.header, None, &tip.1, &watches, &secp).is_err();
            let r = if fp {
                let ext = TxoProof { attestations: proof.attestations.clone(), proof: ProofType::ExternalBlock() };
                tracker.block_chunk(block.block_hash(), 0, &serialize(&block)).map_err(|e| Status::internal(format!("{:?}", e)))?;
                tracker.add_block(block.header, ext)
            } else {
                tracker.add_block(block.header, proof)
            };
            match r {
                Ok(_) => {
                    node.get_persister().update_tracker(&node.get_id(), &tracker).unwrap();
                    s.prev_tips.push(tip);
                    Ok(())
                }
                Err(e) => Err(Status::invalid_argument(format!("{:?}", e).split('(').next().unwrap_or("tracker").to_string())),
            }
        })
    }

    pub fn add_blocks(&mut self, n: u64) -> (Outcome, usize) {
        self.txn(|s| {
            let node = s.node();
            let mut tracker = node.get_tracker();
            for _ in 0..n {
                let tip = tracker.tip().clone();
                let (header, proof) = make_testnet_header(&tip, tracker.height());
                tracker.add_block(header, proof).map_err(|e| Status::internal(format!("{:?}", e)))?;
                s.prev_tips.push(tip);
            }
            node.get_persister().update_tracker(&node.get_id(), &tracker).unwrap();
            Ok(())
        })
    }

    pub fn remove_block(&mut self, good: bool) -> (Outcome, usize) {
        self.txn(|s| {
            let node = s.node();
            let mut tracker = node.get_tracker();
            let prev = match s.prev_tips.last() {
                Some(p) => p.clone(),
                // nothing of our own to remove: a bad removal is still put to the tracker (with the tip itself as
                // the supplied previous headers and the proof of a block that is not the tip); it must refuse
                None if !good => tracker.tip().clone(),
                None => return Err(Status::invalid_argument("nothing to remove")),
            };
            // re-make the proof of the tip block (deterministic given prev tip and height)
            let (_h, good_proof) = make_testnet_header(&prev, tracker.height() - 1);
            let proof: TxoProof = if good {
                good_proof
            } else {
                // proof of a different block
                let (_h2, p2) = make_testnet_header(tracker.tip(), tracker.height());
                p2
            };
            match tracker.remove_block(proof, Headers(prev.0, prev.1)) {
                Ok(_) => {
                    node.get_persister().update_tracker(&node.get_id(), &tracker).unwrap();
                    s.prev_tips.pop();
                    Ok(())
                }
                Err(e) => Err(Status::invalid_argument(format!("{:?}", e).split('(').next().unwrap_or("tracker").to_string())),
            }
        })
    }

    // ---- views ----------------------------------------------------------------------------

    /// Copy of the committed local store: key → (version, value)
    pub fn store_dump(&self) -> BTreeMap<String, (u64, Vec<u8>)> {
        let mut m = BTreeMap::new();
        for KVV(k, (v, val)) in self.persister.0.get_prefix("").unwrap() {
            m.insert(k, (v, val));
        }
        m
    }

    /// Crash between prepare() and commit(): the local store as it was before the commit, plus the
    /// mutations that prepare() reported (they are what the cloud holds and what is re-applied).
    pub fn restore_shadow_crash(&self) -> Result<Arc<Node>, String> {
        // the way vlsd comes back: the local store as the crash left it, then the cloud's state (here: the
        // mutations the last prepare() reported) brought in through `Persist::put_batch_unlogged`
        let store2 = MemoryKVVStore::new([7u8; 16]);
        let kvvs: Vec<KVV> = self.last_pre_commit.clone().into_iter().map(|(k, vv)| KVV(k, vv)).collect();
        store2.put_batch(kvvs).map_err(|e| format!("{:?}", e))?;
        let p2 = KVVPersister(store2, JsonFormat);
        let muts = lightning_signer::persist::Mutations::from_vec(self.last_muts.clone());
        p2.put_batch_unlogged(muts).map_err(|e| format!("startup sync: {:?}", e))?;
        let kvvs: Vec<KVV> = p2.0.get_prefix("").map_err(|e| format!("{:?}", e))?.collect();
        self.restore_from(kvvs)
    }

    /// Restore a second node from a copy of the store alone.
    pub fn restore_shadow(&self) -> Result<Arc<Node>, String> {
        let kvvs: Vec<KVV> = self.persister.0.get_prefix("").unwrap().collect();
        self.restore_from(kvvs)
    }

    fn restore_from(&self, kvvs: Vec<KVV>) -> Result<Arc<Node>, String> {
        let store2 = MemoryKVVStore::new([7u8; 16]);
        store2.put_batch(kvvs).map_err(|e| format!("{:?}", e))?;
        let p2: Arc<dyn Persist> = Arc::new(KVVPersister(store2, JsonFormat));
        let nodes = p2.get_nodes().map_err(|e| format!("{:?}", e))?;
        let (node_id, entry) = nodes.into_iter().next().ok_or("no node in store")?;
        // a store the signer cannot come back from (restore aborts) is reported like a refused restore
        let r = std::panic::catch_unwind(std::panic::AssertUnwindSafe(|| {
            Node::restore_node(&node_id, entry, &self.seed, services(p2.clone(), self.clock.clone(), self.perm))
        }));
        match r {
            Ok(r) => r.map_err(|e| format!("{:?}", e)),
            Err(e) => {
                let msg = if let Some(s) = e.downcast_ref::<String>() { s.clone() } else if let Some(s) = e.downcast_ref::<&str>() { s.to_string() } else { "?".into() };
                Err(format!("restore aborted: {}", msg.chars().take(160).collect::<String>()))
            }
        }
    }

    /// Replace the running node by one restored from the store (a real restart).
    pub fn restart(&mut self) -> (Outcome, usize) {
        self.restart_with(false)
    }

    /// `world backup` only: the main store is lost (replaced by an empty one that reports
    /// `recovery_required`), the signer restarts, recovers from the backup and re-syncs the main store.
    pub fn main_loss(&mut self) -> (Outcome, usize) {
        // only meaningful in `world backup` (a shrunk case that lost its world line is malformed)
        assert!(self.main.is_some(), "mainloss outside world backup");
        self.restart_with(true)
    }

    fn restart_with(&mut self, lose_main: bool) -> (Outcome, usize) {
        use std::sync::atomic::Ordering;
        let mut recovery = None;
        if let Some((r, _)) = &self.redb {
            assert!(!lose_main, "mainloss outside world backup");
            self.node_persister = Arc::new(vls_persist::backup_persister::BackupPersister::new(
                super::tap::Tap::with_fail(r.clone(), self.fail_main.clone()),
                super::tap::Tap::with_fail(self.persister.clone(), self.fail_store.clone()),
            ));
        }
        if self.main.is_some() {
            // a process start builds a new composite (its "initial restore complete" flag starts false)
            if lose_main {
                self.main = Some(Arc::new(KVVPersister(MemoryKVVStore::new([7u8; 16]), JsonFormat)));
            }
            let tap = super::tap::Tap::with_fail(self.main.clone().unwrap(), self.fail_main.clone());
            tap.recovery.store(lose_main, Ordering::Relaxed);
            recovery = Some(tap.recovery.clone());
            self.node_persister = Arc::new(vls_persist::backup_persister::BackupPersister::new(tap, super::tap::Tap::with_fail(self.persister.clone(), self.fail_store.clone())));
        }
        self.persister.enter().unwrap();
        let nodes = self.node_persister.get_nodes().unwrap();
        let (node_id, entry) = nodes.into_iter().next().unwrap();
        let p: Arc<dyn Persist> = self.node_persister.clone();
        let r = std::panic::catch_unwind(std::panic::AssertUnwindSafe(|| Node::restore_node(&node_id, entry, &self.seed, services(p, self.clock.clone(), self.perm))));
        let n = self.persister.prepare().len();
        self.persister.commit().unwrap();
        // the re-synced main store is not empty any more
        if let Some(f) = recovery { f.store(false, Ordering::Relaxed); }
        match r {
            Ok(Ok(node)) => {
                self.node_ctx = TestNodeContext { node, secp_ctx: Secp256k1::signing_only() };
                (Outcome::Ok, n)
            }
            Ok(Err(e)) => (Outcome::Err(status_class(&e)), n),
            Err(_) => (Outcome::Panic("restore".into()), n),
        }
    }

    /// `world backup`: restore a second node from a copy of the MAIN store alone;
    /// `world redb`: from a crash image (a copy of the database directory taken while it is open)
    pub fn restore_shadow_main(&self) -> Option<Result<Arc<Node>, String>> {
        if let Some((_, dir)) = &self.redb {
            let image = scratch_dir();
            copy_dir(dir.path(), image.path());
            let r = std::panic::catch_unwind(std::panic::AssertUnwindSafe(|| {
                let store = vls_persist::kvv::redb::RedbKVVStore::new(image.path());
                let p2: Arc<dyn Persist> = Arc::new(KVVPersister(store, JsonFormat));
                let nodes = p2.get_nodes().map_err(|e| format!("{:?}", e))?;
                let (node_id, entry) = nodes.into_iter().next().ok_or("no node in store".to_string())?;
                Node::restore_node(&node_id, entry, &self.seed, services(p2.clone(), self.clock.clone(), self.perm)).map_err(|e| format!("{:?}", e))
            }));
            return Some(match r { Ok(r) => r, Err(_) => Err("restore from the crash image aborted".into()) });
        }
        let m = self.main.as_ref()?;
        let kvvs: Vec<KVV> = m.0.get_prefix("").unwrap().collect();
        Some(self.restore_from(kvvs))
    }
}

/// The state the properties talk about, as canonical strings per component.
pub fn view(node: &Node, durable_only: bool) -> BTreeMap<String, String> {
    let mut m = BTreeMap::new();
    m.insert("node.allowlist".into(), node.allowlist().unwrap_or_default().join(","));
    {
        let st = node.get_state();
        let mut inv: Vec<String> = st.invoices.iter().map(|(h, p)| format!("{}:{}:{}:{}:{:?}:{:?}:{}:{:?}", hex::encode(h.0), p.amount_msat, hex::encode(p.invoice_hash), p.payee, p.duration_since_epoch, p.expiry_duration, p.is_fulfilled, p.payment_type)).collect();
        inv.sort();
        m.insert("node.invoices".into(), inv.join(","));
        m.insert("node.allowlist.len".into(), st.allowlist.len().to_string());
        m.insert("node.hwm".into(), st.dbid_high_water_mark.to_string());
        // velocity: compared as (limit, total) — a refused insert only re-expresses the same
        // history at a later epoch (proved in Props/C12), which is not a state change
        m.insert("node.velocity".into(), format!("{} {}", st.velocity_control.limit, st.velocity_control.velocity()));
        if !durable_only {
            // not one of the fields C11 lists; its durability for accepted requests is C12's fee group
            m.insert("node.fee_velocity".into(), format!("{} {}", st.fee_velocity_control.limit, st.fee_velocity_control.velocity()));
        }
        if !durable_only {
            // issued invoices (receiving side) are written with the next node entry, not by the request itself
            let mut iss: Vec<String> = st.issued_invoices.iter().map(|(h, p)| format!("{}:{}:{}:{}", hex::encode(h.0), p.amount_msat, hex::encode(p.invoice_hash), p.is_fulfilled)).collect();
            iss.sort();
            m.insert("node.issued_invoices".into(), iss.join(","));
        }
        if !durable_only {
            let mut pays: Vec<String> = st.payments.iter().map(|(h, p)| format!("{}:{:?}", hex::encode(h.0), p)).collect();
            pays.sort();
            m.insert("node.payments".into(), pays.join(","));
        }
    }
    {
        let channels = node.get_channels();
        for (id, slot) in channels.iter() {
            let slot = slot.lock().unwrap();
            let key = format!("chan.{}", hex::encode(id.inner()));
            match &*slot {
                ChannelSlot::Stub(s) => {
                    m.insert(key, format!("stub blockheight={} id0={} funding={}", s.blockheight, hex::encode(s.id0.inner()), s.keys.pubkeys().funding_pubkey));
                }
                ChannelSlot::Ready(c) => {
                    m.insert(key.clone(), serde_json::to_string(&c.enforcement_state).unwrap());
                    // what the channel signs with and for: setup, ids and the channel's own basepoints
                    m.insert(format!("{}.setup", key), format!("{:?} id0={} id={:?} keys={:?}", c.setup, hex::encode(c.id0.inner()), c.id.as_ref().map(|i| hex::encode(i.inner())), c.keys.pubkeys()));
                    m.insert(format!("{}.monitor", key), format!("forget_seen={}", c.monitor.forget_seen()));
                }
            }
        }
    }
    {
        let t = node.get_tracker();
        m.insert("tracker.height".into(), t.height().to_string());
        m.insert("tracker.tip".into(), format!("{} {}", t.tip().0.block_hash(), t.tip().1));
        let hs: Vec<String> = t.headers().iter().map(|h| h.0.block_hash().to_string()).collect();
        m.insert("tracker.headers".into(), hs.join(","));
        let entry = vls_persist::model::ChainTrackerEntry::from(&*t);
        m.insert("tracker.entry".into(), serde_json::to_string(&entry).unwrap());
    }
    m
}

pub fn diff_views(a: &BTreeMap<String, String>, b: &BTreeMap<String, String>) -> Vec<String> {
    let mut d = Vec::new();
    for (k, v) in a {
        match b.get(k) {
            None => d.push(format!("{} missing", k)),
            Some(w) if w != v => d.push(k.clone()),
            _ => {}
        }
    }
    for k in b.keys() {
        if !a.contains_key(k) {
            d.push(format!("{} added", k));
        }
    }
    d
}

/// Execute one op line; returns (outcome, pending mutations reported by prepare()).
/// the funding transaction `fund_test_channel` built (same recipe; the txid does not cover witnesses), if it is the one
/// the channel's funding outpoint names
fn rebuild_funding_tx(node_ctx: &TestNodeContext, chan_ctx: &TestChannelContext) -> Option<Transaction> {
    let incoming = CHANNEL_VALUE + 2_000_000;
    let change = incoming - CHANNEL_VALUE - 1000;
    let mut tx_ctx = TestFundingTxContext::new();
    tx_ctx.add_wallet_input(node_ctx, SpendType::P2wpkh, 1, incoming);
    tx_ctx.add_wallet_output(node_ctx, SpendType::P2wpkh, 1, change);
    tx_ctx.add_channel_outpoint(node_ctx, chan_ctx, CHANNEL_VALUE);
    let tx = tx_ctx.to_tx();
    if tx.compute_txid() == chan_ctx.setup.funding_outpoint.txid { Some(tx) } else { None }
}

pub fn exec_op(sim: &mut Sim, op: &str) -> (Outcome, usize) {
    // `failw <s|m> <request…>`: the request runs while every write to the store (s) or to the main store of
    // the composite (m) fails.  Only meaningful as the last op of a case: a signer whose store failed stops.
    if let Some(rest) = op.strip_prefix("failw ") {
        use std::sync::atomic::Ordering;
        let (side, inner) = rest.split_once(' ').unwrap_or(("s", ""));
        let flag = if side == "m" { assert!(sim.main.is_some() || sim.redb.is_some(), "failw m outside world backup/redb"); sim.fail_main.clone() } else { sim.fail_store.clone() };
        flag.store(true, Ordering::Relaxed);
        let r = exec_op(sim, inner);
        flag.store(false, Ordering::Relaxed);
        return r;
    }
    let t: Vec<&str> = op.split_whitespace().collect();
    let num = |s: &str| -> i64 { s.parse().unwrap_or(0) };
    match t.as_slice() {
        ["vh", d, sig, var] => sim.validate_holder(num(d), *sig == "g", num(var) as u64),
        ["vh1", d, sig, var] => sim.validate_holder_with(num(d), *sig == "g", num(var) as u64, true),
        ["HVH", d, sig, var] => { assert!(sim.hworld, "HVH outside world h"); sim.handler_validate(num(d), *sig == "g", num(var) as u64, 6) }
        ["HVHO", d, sig, var] => { assert!(sim.hworld, "HVHO outside world h"); sim.handler_validate(num(d), *sig == "g", num(var) as u64, 4) }
        ["HRV", d] => { assert!(sim.hworld, "HRV outside world h"); sim.handler_revoke(num(d)) }
        ["HSCP", d, var] => { assert!(sim.hworld, "HSCP outside world h"); sim.handler_sign_cp(num(d), num(var) as u64) }
        ["HCPR", d, g] => { assert!(sim.hworld, "HCPR outside world h"); sim.handler_cp_revoke(num(d), *g == "g") }
        ["HSH", d] => { assert!(sim.hworld, "HSH outside world h"); sim.handler_sign_holder(num(d)) }
        ["hvh", d, sig, var] => sim.validate_holder_full(num(d), *sig == "g", num(var) as u64, false, 1),
        ["hvh1", d, sig, var] => sim.validate_holder_full(num(d), *sig == "g", num(var) as u64, true, 1),
        ["hvho", d, sig, var] => sim.validate_holder_full(num(d), *sig == "g", num(var) as u64, false, 2),
        ["hvh1o", d, sig, var] => sim.validate_holder_full(num(d), *sig == "g", num(var) as u64, true, 2),
        ["scp1", d, var] => sim.sign_cp_full(num(d), num(var) as u64, false, true),
        ["shr"] => sim.sign_holder_recovery(),
        ["shx", d, g] => sim.sign_holder_redundant(num(d), *g == "g"),
        ["act"] => sim.activate(),
        ["setupbad", n, k] => sim.setup_bad(num(n) as u64, num(k) as u64),
        ["sinv", h, amt] => sim.sign_invoice(num(h) as u64, num(amt) as u64),
        ["rv", d] => sim.revoke(num(d)),
        ["scp", d, var] => sim.sign_cp(num(d), num(var) as u64),
        ["scpr", d, var] => sim.sign_cp_with(num(d), num(var) as u64, true),
        ["osign", g] => sim.onchain_sign(*g == "g"),
        ["cpr", d, g] => sim.cp_revoke(num(d), *g == "g"),
        ["sh", d] => sim.sign_holder(num(d)),
        ["mc", g] => sim.mutual_close(*g == "g"),
        ["mc1", g] => sim.mutual_close_phase1(*g == "g"),
        ["al", op, kind] => sim.allowlist(op, kind),
        ["ks", amt] => sim.keysend(num(amt) as u64, false),
        ["ksdup", amt] => sim.keysend(num(amt) as u64, true),
        ["newch", nn] => sim.new_channel(num(nn) as u64),
        ["forget", w] => sim.forget(num(w) as u64),
        ["hb"] => sim.heartbeat(),
        ["HNEW", nn] => sim.handler_new_channel(num(nn) as u64),
        ["HFORGET", w] => sim.handler_forget(num(w) as u64),
        ["HHB"] => sim.handler_heartbeat(),
        ["blk+", g] => sim.add_block(*g == "g"),
        ["HBLK+", g] => sim.handler_add_block(*g == "g"),
        ["blkn", n] => sim.add_blocks(num(n) as u64),
        ["blkt", k] => sim.add_block_with(k),
        ["blk-", g] => sim.remove_block(*g == "g"),
        ["restart"] => sim.restart(),
        // the clock moves on (keysends expire after 60 s, invoices a day after their expiry: the next heartbeat prunes
        // them and must persist the pruned node state).  Only used by monitor-only groups: the node-request model
        // runs with a constant clock.
        ["tick", n] => {
            let secs = num(n) as u64;
            sim.txn(|s| {
                let now = s.clock.now();
                s.clock.set(now + Duration::from_secs(secs));
                Ok(())
            })
        }
        ["mainloss"] => sim.main_loss(),
        _ => (Outcome::Err("bad-op".into()), 0),
    }
}

pub fn gen_ops(rng: &mut Rng, len: usize) -> Vec<String> {
    let mut ops = Vec::new();
    while ops.len() < len {
        // legit bursts keep the channel moving so that refusals are reached from many states
        match rng.below(15) {
            14 => {
                // issued invoices: the same one again, a different one for the same hash, and what survives a restart
                // (an issued invoice is written with the next node entry: a keysend in between makes it durable)
                let h = rng.below(3);
                let a = *rng.pick(&[100_000u64, 1_000, 0]);
                ops.push(format!("sinv {} {}", h, a));
                if rng.chance(1, 2) { ops.push(format!("ks {}", *rng.pick(&[1000u64, 2000]))); }
                if rng.chance(1, 2) { ops.push("restart".to_string()); }
                ops.push(format!("sinv {} {}", h, *rng.pick(&[a, 1_000, 5_000])));
                continue;
            }
            13 if ops.len() < 4 => {
                // a FULL channel map that holds garbage (stubs aged past the prune horizon, or just short of it), and
                // then creations that are refused: for an id at or below the high-water mark, and because the map is full
                let top = rng.range(4, 7);
                ops.push(format!("newch {}", top));
                ops.push("forget 1".to_string());
                for d in (top + 1)..=(top + 3) { ops.push(format!("newch {}", d)); }
                ops.push(format!("blkn {}", *rng.pick(&[6u64, 7, 8, 12])));
                ops.push(format!("newch {}", rng.range(1, top + 1)));
                ops.push(format!("newch {}", top + 4));
                if rng.chance(1, 2) { ops.push("hb".to_string()); ops.push(format!("newch {}", top + 4)); }
                continue;
            }
            0 | 1 => {
                // a complete holder update
                ops.push(format!("vh 0 g {}", rng.below(9)));
                ops.push("rv 0".to_string());
                continue;
            }
            2 | 3 => {
                // a complete counterparty update: sign n, sign n+1, revoke n
                ops.push(format!("scp 0 {}", rng.below(9)));
                if rng.chance(2, 3) {
                    ops.push(format!("scp 0 {}", rng.below(9)));
                    ops.push("cpr 0 g".to_string());
                }
                continue;
            }
            4 => {
                // approach the invoice limit
                for _ in 0..rng.range(2, 5) {
                    ops.push(format!("ks {}", *rng.pick(&[1000u64, 2000, 5_000_000])));
                }
                continue;
            }
            10 => {
                // multi-entry allowlist removals whose last entry is absent / duplicated
                ops.push(format!("al add {}", rng.pick(&["g", "gg", "gx"])));
                ops.push(format!("al rm {}", rng.pick(&["gx", "xg", "g2g", "ggd", "gg", "m"])));
                if rng.chance(1, 2) { ops.push(format!("al {} m", rng.pick(&["add", "rm", "set"]))); }
                continue;
            }
            9 if ops.len() < 4 => {
                // fill the remembered-header window, then refused and accepted block requests at its edge
                ops.push(format!("blkn {}", *rng.pick(&[96u64, 97, 98, 100, 120])));
                ops.push(format!("blk+ {}", if rng.chance(1, 2) { "b" } else { "g" }));
                ops.push("blk- b".to_string());
                ops.push("blk- g".to_string());
                continue;
            }
            8 if ops.len() < 6 => {
                // bring both sides to matching HTLC-free commitments, then close (either entry point)
                ops.push("vh 0 g 0".to_string());
                ops.push("rv 0".to_string());
                ops.push("scp 0 0".to_string());
                ops.push("scp 0 0".to_string());
                ops.push("cpr 0 g".to_string());
                ops.push(format!("mc{} g", if rng.chance(1, 2) { "1" } else { "" }));
                continue;
            }
            6 => {
                // a counterparty whose secrets do not chain: sign n and n+1 for rogue points, then it
                // "revokes" with secrets that match those points
                ops.push(format!("scp{} 0 {}", if rng.chance(1, 2) { "r" } else { "" }, rng.below(9)));
                ops.push(format!("scpr 0 {}", rng.below(9)));
                ops.push("cpr 0 g".to_string());
                ops.push(format!("scp{} 0 {}", if rng.chance(1, 2) { "r" } else { "" }, rng.below(9)));
                ops.push("cpr 0 g".to_string());
                continue;
            }
            7 if ops.len() < 3 => {
                ops.push(format!("osign {}", if rng.chance(1, 2) { "g" } else { "b" }));
                continue;
            }
            12 => {
                // let stubs age past the prune horizon (six blocks), heartbeat, re-create
                let d = rng.range(1, 5);
                ops.push(format!("newch {}", d));
                ops.push(format!("blkn {}", *rng.pick(&[5u64, 6, 7, 8])));
                ops.push("hb".to_string());
                if rng.chance(1, 2) { ops.push(format!("newch {}", d)); }
                continue;
            }
            11 if ops.len() < 4 => {
                // fill the channel map (limit: three stubs), then try more
                for d in 1..=rng.range(3, 5) { ops.push(format!("newch {}", d)); }
                continue;
            }
            5 => {
                // retire and re-use channel ids
                let a = rng.range(2, 6);
                ops.push(format!("newch {}", a));
                ops.push(format!("forget {}", rng.range(1, 3)));
                ops.push(format!("newch {}", rng.range(1, a)));
                continue;
            }
            _ => {}
        }
        let d = *rng.pick(&[0i64, 0, 0, 0, 1, -1, 2, -2]);
        let op = match rng.below(30) {
            0..=4 => format!("{}vh{}{} {} {} {}", if rng.chance(1, 3) { "h" } else { "" }, if rng.chance(1, 4) { "1" } else { "" }, "", d, if rng.chance(4, 5) { "g" } else { "b" }, rng.below(12)),
            5..=8 => format!("rv {}", d),
            9..=11 => format!("scp{} {} {}", if rng.chance(1, 4) { "1" } else { "" }, d, rng.below(12)),
            12..=14 => format!("cpr {} {}", d, if rng.chance(3, 4) { "g" } else { "b" }),
            15 => match rng.below(6) {
                0 => "shr".to_string(),
                1 => format!("shx {} {}", *rng.pick(&[0i64, 0, 1, -1]), if rng.chance(2, 3) { "g" } else { "b" }),
                2 => "act".to_string(),
                _ => format!("sh {}", *rng.pick(&[0i64, 0, 1, -1, 3, 4])),
            },
            16 => format!("mc{} {}", if rng.chance(1, 2) { "1" } else { "" }, if rng.chance(1, 2) { "g" } else { "b" }),
            17..=19 => format!("al {} {}", rng.pick(&["add", "set", "rm"]), rng.pick(&["g", "g2", "b", "m", "gg", "x", "gx", "xg", "g2g", "ggd"])),
            20..=21 => format!("ks {}", *rng.pick(&[1000u64, 5_000_000, 100_000_000_000, 0])),
            22 => format!("ksdup {}", rng.range(1, 5000)),
            23 => match rng.below(4) {
                0 => format!("setupbad {} {}", rng.range(1, 6), rng.below(4)),
                1 => format!("sinv {} {}", rng.below(3), *rng.pick(&[100_000u64, 100_000, 1_000, 0])),
                _ => format!("newch {}", rng.range(1, 6)),
            },
            24 => format!("forget {}", rng.below(3)),
            25 => "hb".to_string(),
            26..=27 => format!("blk+ {}", if rng.chance(3, 4) { "g" } else { "b" }),
            28 => format!("blk- {}", if rng.chance(2, 3) { "g" } else { "b" }),
            _ => "restart".to_string(),
        };
        ops.push(op);
    }
    ops
}

#[allow(dead_code)]
pub fn unused(_: Transaction, _: TxOut, _: Version, _: LockTime) {}
