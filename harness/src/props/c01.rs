//! C01 — a holder commitment is revoked only after its successor is counter-signed.
//!
//! One correspondence group shared with C02/C03 (`EnfGroup`, different op mixes and corpora): a real
//! `Node` + channel (stub → ready) with a real persister, real counterparty signatures, the channel
//! entry points (phase 1 and phase 2) and the real protocol handler for the version composites,
//! compared line by line with `vlsmodel enforcement`.  The monitors (ghost ledgers in
//! `c01_world.rs`) evaluate the three properties on the implementation trace alone.
use crate::common::*;
#[path = "c01_world.rs"]
pub mod world;
use world::*;

pub struct EnfGroup {
    pub prop: &'static str,
    /// false: default policy filter, compared with the Lean model line by line;
    /// true: monitor-only run ("free"): one unrelated policy tag demoted to a warning by the policy filter and
    /// store-write failures injected into single requests — the property monitors stay armed
    pub free: bool,
}

fn u64_edge(rng: &mut Rng) -> u64 {
    *rng.pick(&[u64::MAX, u64::MAX - 1, u64::MAX - 2, INITIAL, INITIAL + 1, INITIAL - 1, 1u64 << 63])
}

/// number near `base`: mostly exact, else base-2..base+2, rarely a u64 extreme
fn near(rng: &mut Rng, base: u64) -> u64 {
    let r = rng.below(100);
    if r < 55 {
        base
    } else if r < 96 {
        let d = rng.below(5) as i64 - 2;
        if d < 0 { base.saturating_sub((-d) as u64) } else { base + d as u64 }
    } else {
        u64_edge(rng)
    }
}

/// like `near`, but one time in five ANY number behind the counter (`0..=next`): requests for long-revoked states
fn behind(rng: &mut Rng, next: u64, base: u64) -> u64 {
    if rng.chance(1, 5) { rng.below(next.saturating_add(1).max(1)) } else { near(rng, base) }
}

/// send a request through the real protocol handler instead of the channel entry point (same model request)
fn handlerize(rng: &mut Rng, op: String) -> String {
    let t: Vec<&str> = op.split_whitespace().collect();
    match t.first().copied() {
        Some("signholder") if rng.chance(1, 2) =>
            if rng.chance(1, 2) { format!("hsignholder {} {}", rng.range(4, 6), t[1]) } else { format!("hsigncommit {} {}", rng.range(4, 6), t[1]) },
        Some("revokecp") if rng.chance(1, 3) => format!("h{}", op),
        Some("signcp") if rng.chance(1, 4) => format!("h{}", op),
        Some("mutualclose") if t[2] == "2" && rng.chance(1, 2) => format!("h{}", op),
        Some("validate") if t.len() >= 7 && rng.chance(1, 6) => format!("hvalidate1 {} {} {} {} {} {}", rng.range(4, 6), t[1], t[2], t[3], t[4], t[6]),
        Some("getpoint") if rng.chance(1, 3) => {
            let n: u64 = t[1].parse().unwrap_or(0);
            format!("hcheckfuture {} {}", if rng.chance(1, 12) { 1u64 << 48 } else { n.min(64) }, rng.below(2))
        }
        _ => op,
    }
}

impl EnfGroup {
    fn weights(&self) -> Vec<(&'static str, u64)> {
        // (op kind, weight)
        match self.prop {
            "C01" => vec![
                ("validate", 26), ("revoke", 16), ("activate", 5), ("getpoint", 4), ("getsecret", 8), ("getsecretnone", 5),
                ("signholder", 2), ("signrecovery", 1), ("signredundant", 2), ("mutualclose", 1), ("signcp", 6), ("revokecp", 4),
                ("restart", 6), ("hvalidate", 8), ("hrevoke", 5), ("hgetpoint", 5), ("hgetpoint2", 1), ("tick", 4), ("keysend", 2),
            ],
            "C02" => vec![
                ("validate", 24), ("revoke", 16), ("activate", 5), ("getpoint", 1), ("getsecret", 8), ("getsecretnone", 4),
                ("signholder", 8), ("signrecovery", 5), ("signredundant", 8), ("mutualclose", 4), ("signcp", 5), ("revokecp", 2),
                ("restart", 6), ("hvalidate", 5), ("hrevoke", 4), ("hgetpoint", 3), ("tick", 5), ("keysend", 2),
            ],
            _ => vec![
                ("validate", 6), ("revoke", 4), ("activate", 2), ("getsecret", 1), ("signholder", 1), ("mutualclose", 1),
                ("signcp", 38), ("revokecp", 36), ("restart", 6), ("hvalidate", 1), ("tick", 3), ("keysend", 2),
            ],
        }
    }

    fn pick_kind(&self, rng: &mut Rng) -> &'static str {
        let w = self.weights();
        let total: u64 = w.iter().map(|x| x.1).sum();
        let mut r = rng.below(total);
        for (k, x) in w {
            if r < x {
                return k;
            }
            r -= x;
        }
        "validate"
    }

    fn gen_op(&self, rng: &mut Rng, w: &World) -> String {
        let e = w.estate();
        let (next, cc, cr, cur_c, cpt, cci) = match &e {
            Some(e) => (
                e.next_holder_commit_num,
                e.next_counterparty_commit_num,
                e.next_counterparty_revoke_num,
                e.current_holder_commit_info.as_ref().map(holder_content_id),
                e.current_counterparty_point,
                e.current_counterparty_commit_info.as_ref().map(cp_content_id),
            ),
            None => (0, 0, 0, None, None, None),
        };
        // counterparty content: every component drawn independently (canonical id, see `cp_content`)
        let cp_pick = |rng: &mut Rng| -> u64 {
            let b = rng.below(4);
            let f = if rng.chance(1, 2) { 0 } else { rng.below(3) };
            let t = if rng.chance(3, 4) { 0 } else { 1 };
            let (h1, h2) = match rng.below(10) { 0..=4 => (0, 0), 5..=7 => (1 + rng.below(16), 0), _ => (1 + rng.below(16), 1 + rng.below(16)) };
            let bad = if rng.chance(1, 14) { 1 } else { 0 };
            cp_canonical(b + 4 * f + 12 * t + 24 * h1 + 408 * h2 + 6936 * bad)
        };
        // a retry that differs from the signed content `c0` in EXACTLY ONE component: feerate, to_holder,
        // to_counterparty, one field of one HTLC (amount / hash / cltv / direction), an HTLC added or removed
        let cp_mutate = |rng: &mut Rng, c0: u64| -> u64 {
            let (b, f, t, h1, h2, bad) = (c0 % 4, c0 / 4 % 3, c0 / 12 % 2, c0 / 24 % 17, c0 / 408 % 17, c0 / 6936 % 2);
            let flip = |h: u64, bit: u64| -> u64 { if h == 0 { 0 } else { 1 + ((h - 1) ^ bit) } };
            let (mut b, mut f, mut t, mut h1, mut h2) = (b, f, t, h1, h2);
            match rng.below(9) {
                0 => f = (f + 1 + rng.below(2)) % 3,
                1 => b = (b + 1 + rng.below(3)) % 4,
                2 => t = 1 - t,
                3 => if h1 != 0 { h1 = flip(h1, 4) } else { h1 = 1 + rng.below(16) },   // amount
                4 => if h1 != 0 { h1 = flip(h1, 2) } else { h1 = 1 + rng.below(16) },   // hash
                5 => if h1 != 0 { h1 = flip(h1, 1) } else { h1 = 1 + rng.below(16) },   // cltv
                6 => if h1 != 0 { h1 = flip(h1, 8) } else { h1 = 1 + rng.below(16) },   // direction
                7 => if h2 != 0 { h2 = 0 } else if h1 != 0 { h1 = 0 } else { h1 = 1 + rng.below(16) }, // removed / added
                _ => if h1 == 0 { h1 = 1 + rng.below(16) } else if h2 == 0 { h2 = 1 + rng.below(16) } else { h2 = flip(h2, 1 << rng.below(4)) },
            }
            cp_canonical(b + 4 * f + 12 * t + 24 * h1 + 408 * h2 + 6936 * bad)
        };
        // holder contents: also the HTLC-carrying ones (4..=8 = 1..=5 HTLCs)
        let hcontent_pick = |rng: &mut Rng| -> u64 {
            let r = rng.below(100);
            let base = if r < 8 { 9 } else if r < 45 { rng.below(4) } else if r < 80 { 4 + rng.below(5) } else { 10 };
            base + 16 * (if rng.chance(1, 2) { 0 } else { rng.below(3) })
        };
        let cur_htlcs = e.as_ref().and_then(|e| e.current_holder_commit_info.as_ref().map(|i| !i.htlcs_is_empty())).unwrap_or(false)
            || e.as_ref().and_then(|e| e.current_counterparty_commit_info.as_ref().map(|i| !i.htlcs_is_empty() || i.to_broadcaster_value_sat != 0)).unwrap_or(false);
        let pay_ok = match e.as_ref().and_then(|e| e.next_holder_commit_info.as_ref()) {
            Some((i, _)) => if w.outgoing_ok(&i.offered_htlcs) { 1 } else { 0 },
            None => 1,
        };
        let kind = self.pick_kind(rng);
        match kind {
            "validate" | "hvalidate" => {
                // steer towards progress: usually the next number with valid signatures
                let base = if rng.chance(1, 8) { next.saturating_sub(1) } else { next };
                let n = near(rng, base);
                let mut c = hcontent_pick(rng);
                if n.checked_add(1) == Some(next) && rng.chance(3, 4) {
                    // retry of the current commitment: mostly the same content
                    if let Some(v) = cur_c {
                        if v != 999 {
                            c = v;
                            // sometimes the same commitment with ONLY the feerate changed
                            if rng.chance(1, 5) {
                                c = v % 16 + 16 * ((v / 16 + 1 + rng.below(2)) % 3);
                            }
                        }
                    }
                }
                // signature variant: mostly all genuine; else one of the defective lists
                let v = if rng.chance(2, 3) { 1 } else { *rng.pick(&[0u64, 2, 3, 4, 5, 6, 7, 8, 9, 9]) };
                // 9 = replay of the signatures of the same content one number earlier: mostly the content of the current commitment
                let v = if v == 9 && n == 0 { 1 } else { v };
                if v == 9 && rng.chance(4, 5) {
                    if let Some(cv) = cur_c {
                        if cv != 999 {
                            c = cv;
                        }
                    }
                }
                // raw per-signature facts + the verdict of the payment check that follows the signature check; what
                // the signer's loop makes of them is computed by the model (`sigFactOf`)
                let fact = sig_token(v, content_htlc_total(c), w.outgoing_ok(&offered_of(c)));
                let p = if content_policy_ok(c, n) { 1 } else { 0 };
                if kind == "validate" {
                    format!("validate {} {} {} {} {} {}", n, c, fact, p, rng.range(1, 2), v)
                } else {
                    format!("hvalidate {} {} {} {} {} {}", rng.range(4, 6), n, c, fact, p, v)
                }
            }
            // third/fourth token: would the node-wide payment re-check accept the staged commitment now?
            "revoke" => format!("revoke {} {}", near(rng, next), pay_ok),
            "hrevoke" => format!("hrevoke {} {} {}", rng.range(4, 6), near(rng, next.saturating_sub(1)), pay_ok),
            "tick" => format!("tick {}", *rng.pick(&[30u64, 61, 600])),
            "keysend" => "keysend".into(),
            "activate" => "activate".into(),
            "getpoint" => format!("getpoint {}", near(rng, next + 1)),
            "hgetpoint" => format!("hgetpoint {} {}", rng.range(4, 6), near(rng, next + 1)),
            "hgetpoint2" => format!("hgetpoint2 {}", near(rng, next + 1)),
            "getsecret" => format!("getsecret {}", behind(rng, next, next.saturating_sub(2))),
            "getsecretnone" => format!("getsecretnone {}", behind(rng, next, next.saturating_sub(2))),
            "signholder" => format!("signholder {}", behind(rng, next, next.saturating_sub(1))),
            "signrecovery" => "signrecovery".into(),
            "signredundant" => {
                let base = if rng.chance(1, 2) { next.saturating_sub(1) } else { next };
                let n = behind(rng, next, base);
                let mut c = hcontent_pick(rng);
                if n.checked_add(1) == Some(next) && rng.chance(3, 4) {
                    if let Some(v) = cur_c {
                        if v != 999 {
                            c = v;
                            // sometimes the same commitment with ONLY the feerate changed
                            if rng.chance(1, 5) {
                                c = v % 16 + 16 * ((v / 16 + 1 + rng.below(2)) % 3);
                            }
                        }
                    }
                }
                format!("signredundant {} {} {}", n, c, if content_policy_ok(c, n) { 1 } else { 0 })
            }
            "mutualclose" => {
                // mutualclose <policyOk> <phase> <well-formed request?>: a well-formed request is still
                // refused while the current holder commitment has pending HTLCs
                let good = rng.chance(4, 5);
                format!("mutualclose {} {} {}", if good && !cur_htlcs { 1 } else { 0 }, rng.range(1, 2), if good { 1 } else { 0 })
            }
            "signcp" => {
                let base = if rng.chance(1, 6) { cc.saturating_sub(1) } else { cc };
                let n = near(rng, base);
                let retry = n.checked_add(1) == Some(cc);
                // point: for a fresh number mostly the seeded point of n, sometimes an unrelated one;
                // for a retry mostly the point that was signed, sometimes a changed one
                let signed = w.mon.cp_signed.get(&n).copied();
                let (ptid, c) = match (retry, signed, cpt, cci) {
                    (true, Some((p0, c0)), Some(_), Some(_)) => match rng.below(10) {
                        0..=3 => (p0, c0),                                  // identical retry
                        4..=7 => (p0, cp_mutate(rng, c0)),                  // one component of the content changed
                        8 => (cp_point_id((p0 - 1000) / 4, 1 - ((p0 - 1000) % 4).min(1)), c0), // point changed
                        _ => (p0, cp_pick(rng)),
                    },
                    _ => {
                        let kind = if rng.chance(1, 5) { 1 } else { 0 };
                        let src = if rng.chance(1, 10) { n.wrapping_add(1) % 90_000 } else { n % 90_000 };
                        (cp_point_id(src, kind), cp_pick(rng))
                    }
                };
                // retries mostly through phase 2 (the entry point that returns HTLC signatures)
                let ph = if retry && rng.chance(2, 3) { 2 } else { rng.range(1, 2) };
                format!("signcp {} {} {} {} {}", n, ptid, c, if cp_content_policy_ok(c, n) && w.outgoing_ok(&cp_content(c).received) { 1 } else { 0 }, ph)
            }
            "revokecp" => {
                let base = if rng.chance(1, 6) { cr.saturating_sub(1) } else { cr };
                let n = near(rng, base);
                let signed = w.mon.cp_signed.get(&n).copied();
                let r = rng.below(100);
                let (src_n, kind) = if r < 70 {
                    // the secret of the point that was signed for n (or the seeded one)
                    match signed {
                        Some((p0, _)) => ((p0 - 1000) / 4, (p0 - 1000) % 4),
                        None => (n % 90_000, 0),
                    }
                } else if r < 80 {
                    (n.wrapping_add(1) % 90_000, 0) // future secret
                } else if r < 90 {
                    (n.saturating_sub(1) % 90_000, 0) // stale secret
                } else {
                    (n % 90_000, 1 - signed.map(|(p0, _)| (p0 - 1000) % 4).unwrap_or(0).min(1)) // other kind
                };
                match &w.cp_keys {
                    Some(k) => format!("revokecp {} {} {}", n, hex::encode(cp_secret(k, src_n, kind)), cp_point_id(src_n, kind)),
                    None => format!("revokecp {} {} {}", n, hex::encode([0x22u8; 32]), 999_999),
                }
            }
            "restart" => "restart".into(),
            _ => "getpoint 0".into(),
        }
    }
}

impl Group for EnfGroup {
    fn property(&self) -> &'static str {
        self.prop
    }
    fn model(&self) -> Option<&'static str> {
        if self.free { None } else { Some("enforcement") }
    }
    fn rule(&self) -> &'static str {
        if self.free {
            return "enforcement, monitor-only: the same real Node + channel world and request kinds, but the policy filter demotes ONE \
                    tag that C01-C03 do not rest on to a warning (retry-same, fee-range, htlc bounds, routing-balanced, mutual-*, ...; \
                    with retry-same demoted only the re-sign monitor is disarmed) or EVERY tag except the guard tags (`filter *`), under \
                    SimpleValidatorFactory or the OnchainValidatorFactory wrapper (`@onchain`), on testnet or regtest (`@regtest`), and/or the store refuses every write during single \
                    requests (`failw`): what is acknowledged counts, a refused request is followed by a restart; no model comparison, \
                    all C01/C02/C03 monitors armed; non-trivial = at least one accepted state-changing request and one refusal";
        }
        "enforcement: real Node + channel (stub, then setup_channel) behind KVVPersister<MemoryKVVStore>; requests \
         validate (phase 1/2; 10 contents: 0..5 HTLCs and a policy-violating one; signature lists: genuine, wrong commitment sig, first/middle/last HTLC sig wrong, empty, n-1, n+1, swapped), \
         revoke, activate, get point/secret/secret-or-none, sign holder (phase2/recovery/redundant), mutual close, sign \
         counterparty commitment (phase 1/2; content = full record with independent feerate, balances and up to two HTLCs of either \
         direction; retries of signed numbers with exactly one component or the point changed), counterparty revocation (right/stale/future/\
         unrelated secrets), real handler arms ValidateCommitmentTx(2), RevokeCommitmentTx, GetPerCommitmentPoint(2), SignLocalCommitmentTx2, SignCommitmentTx, \
         ValidateRevocation, SignRemoteCommitmentTx2, SignMutualCloseTx2, CheckFutureSecret at protocol versions 4..6, restart = Node::restore_node; numbers in {counter-2..counter+2} and u64 extremes; non-trivial = \
         at least one accepted state-changing request and at least one refusal"
    }
    fn budget(&self, tier: Tier) -> usize {
        match (self.free, tier) {
            // round 8: quick budgets raised (the whole quick check of C01/C02/C03 stays well under a minute)
            (false, Tier::Quick) => 600,
            (false, _) => 4000,
            (true, Tier::Quick) => 400,
            (true, _) => 3000,
        }
    }
    /// handler-arm requests are the same model requests as their channel entry points
    fn model_line(&self, op: &str) -> Option<String> {
        let t: Vec<&str> = op.split_whitespace().collect();
        match t.first().copied() {
            Some("hsignholder") | Some("hsigncommit") => Some(format!("signholder {}", t[2])),
            Some("hrevokecp") => Some(format!("revokecp {}", t[1..].join(" "))),
            Some("hsigncp") => Some(format!("signcp {}", t[1..].join(" "))),
            Some("hmutualclose") => Some(format!("mutualclose {}", t[1..].join(" "))),
            Some("hvalidate1") => Some(format!("hvalidate {}", t[1..].join(" "))),
            Some("hcheckfuture") | Some("tick") | Some("keysend") => None,
            _ => Some(op.to_string()),
        }
    }
    fn corpus(&self) -> Vec<Vec<String>> {
        let f = |s: &str| -> Vec<String> { s.split('|').map(|x| x.trim().to_string()).collect() };
        if self.free {
            let seeded = |n: u64| hex::encode(lightning_signer::lightning::ln::chan_utils::build_commitment_secret(&[3u8; 32], INITIAL - n));
            let mut v = vec![];
            // an off-tree point and secret for a later counterparty commitment stay refused whichever unrelated tag
            // the filter demotes (chain check = policy-commitment-previous-revoked)
            for tag in ["policy-commitment-retry-same", "policy-commitment-fee-range", "policy-routing-balanced"] {
                v.push(f(&format!(
                    "filter {tag}|setup|signcp 0 1000 0 1 2|signcp 1 1005 0 1 2|revokecp 0 {s0} 1000|signcp 2 1008 0 1 2|revokecp 1 {a1} 1005|hrevokecp 1 {a1} 1005|signcp 3 1012 0 1 2",
                    tag = tag, s0 = seeded(0), a1 = hex::encode(alt_secret(1))
                )));
                // holder side under the same filters: no secret without a validated successor, no revoke after signing
                v.push(f(&format!("filter {}|setup|validate 0 0 1 1 2|activate|validate 1 9 1 0 2|revoke 1 1|getsecret 0|validate 1 1 0 1 2 0|revoke 1 1|validate 1 1 1 1 2|signholder 0|revoke 1 1|hrevoke 6 0 1|getsecret 0", tag)));
            }
            // the same two histories under the widest filter (`*`: everything but the guard tags is a warning), under vlsd's
            // default validator (Onchain wrapper, funding not buried: its depth gate demoted) and on regtest
            for cfg in ["*", "*@onchain", "*@onchain@regtest", "policy-commitment-spends-active-utxo@onchain", "*@regtest"] {
                v.push(f(&format!(
                    "filter {cfg}|setup|signcp 0 1000 0 1 2|signcp 1 1005 0 1 2|revokecp 0 {s0} 1000|signcp 2 1008 0 1 2|revokecp 1 {a1} 1005|hrevokecp 1 {a1} 1005|signcp 0 1001 1 1 2|signcp 3 1012 0 1 2",
                    cfg = cfg, s0 = seeded(0), a1 = hex::encode(alt_secret(1))
                )));
                v.push(f(&format!("filter {}|setup|validate 0 0 1 1 2|activate|validate 1 9 1 0 2|revoke 1 1|getsecret 0|validate 1 1 0 1 2 0|revoke 1 1|validate 1 1 1 1 2|signholder 0|revoke 1 1|hrevoke 6 0 1|getsecret 0", cfg)));
            }
            // a transient store error (the signer keeps running), the node retries the request, later the signer restarts
            v.push(f("setup|validate 0 0 1 1 2|activate|validate 1 1 1 1 2|failr signholder 0|signholder 0|restart|revoke 1 1|getsecret 0"));
            v.push(f("setup|validate 0 0 1 1 2|activate|validate 1 1 1 1 2|failr revoke 1 1|revoke 1 1|restart|signholder 0|getsecret 0"));
            v.push(f("setup|validate 0 0 1 1 2|activate|validate 1 1 1 1 2|failr hrevoke 6 0 1|hrevoke 6 0 1|restart|hsigncommit 6 0"));
            v.push(f("setup|validate 0 0 1 1 2|activate|failr validate 1 1 1 1 2|validate 1 1 1 1 2|revoke 1 1|restart|signholder 0|signholder 1"));
            v.push(f("setup|signcp 0 1000 0 1 2|failr signcp 1 1004 0 1 2|signcp 1 1004 0 1 2|restart|signcp 1 1005 1 1 2"));
            // the store refuses the writes of one request: whatever is acknowledged counts, then restart from the store
            v.push(f("setup|signcp 0 1000 0 1 2|failw signcp 1 1004 0 1 2|restart|signcp 1 1005 1 1 2|signcp 1 1004 0 1 2"));
            // composite store: the main or the backup side refuses the writes of one request
            v.push(f("store backup|setup|validate 0 0 1 1 2|activate|validate 1 1 1 1 2|failw signholder 0|restart|revoke 1 1|getsecret 0"));
            v.push(f("store backup|setup|validate 0 0 1 1 2|activate|validate 1 1 1 1 2|failb hsignholder 6 0|restart|hrevoke 6 0 1|getsecret 0"));
            v.push(f("store backup|setup|signcp 0 1000 0 1 2|failw signcp 1 1004 0 1 2|restart|signcp 1 1005 1 1 2|failb signcp 2 1008 0 1 2|restart|signcp 2 1009 0 1 2"));
            v.push(f("store backup|setup|validate 0 0 1 1 2|activate|validate 1 1 1 1 2|revoke 1 1|restart|validate 2 2 1 1 1|failw revoke 2 1|restart|signholder 1"));
            v.push(f("setup|signcp 0 1000 0 1 2|failw hsigncp 1 1004 24 1 2|restart|hsigncp 1 1004 28 1 2"));
            v.push(f("setup|validate 0 0 1 1 2|activate|validate 1 1 1 1 2|failw signholder 0|restart|revoke 1 1|getsecret 0"));
            v.push(f("setup|validate 0 0 1 1 2|activate|validate 1 1 1 1 2|failw hsigncommit 6 0|restart|hrevoke 6 0 1"));
            v.push(f("setup|validate 0 0 1 1 2|activate|validate 1 1 1 1 2|failw revoke 1 1|restart|signholder 0|failw signrecovery|restart|revoke 1 1"));
            v.push(f(&format!("setup|signcp 0 1000 0 1 2|signcp 1 1004 0 1 2|failw revokecp 0 {s0} 1000|restart|signcp 2 1008 0 1 2|revokecp 0 {s0} 1000|signcp 2 1008 0 1 2", s0 = seeded(0))));
            return v;
        }
        let mut v = vec![
            // raw per-signature facts (round 8): 3 HTLCs with a short list (index panic), a wrong middle signature, a
            // surplus signature (ignored), all genuine; the model computes the outcome from the bits
            f("setup|validate 0 0 r1:0::1 1 2 1|activate|validate 1 6 r1:3:11:1 1 2 6|restart|validate 1 6 r1:3:101:1 1 2 3|revoke 1 1|validate 1 6 r0:3:111:1 1 1 0|validate 1 6 r1:3:1110:1 1 2 7|revoke 1 1|getsecret 0"),
            // happy path with every disclosure route, then the u64 edge requests
            f("getsecret 0|getsecretnone 0|hgetpoint 4 1|setup|validate 0 0 1 1 2|activate|validate 1 1 1 1 1|getsecret 0|revoke 1|getsecret 0|getsecretnone 0|getsecret 1|validate 2 2 1 1 2|hrevoke 6 1|hgetpoint 4 3|hgetpoint 4 4|restart|getsecret 1|getsecret 2|revoke 18446744073709551615|getsecret 18446744073709551615|getsecret 18446744073709551614|getsecretnone 18446744073709551615|getsecretnone 18446744073709551614|hrevoke 6 18446744073709551614|revoke 18446744073709551614|hgetpoint 4 18446744073709551615|getsecret 1|getsecret 2|hrevoke 6 18446744073709551615|restart|getsecret 1"),
            // F13 witness (fixed by 0078200): u64::MAX / u64::MAX-1 against the secret-release guards
            f("getsecret 18446744073709551615|getsecretnone 18446744073709551614|setup|getsecret 18446744073709551615|getsecretnone 18446744073709551615|validate 0 0 1 1 2|activate|getsecret 18446744073709551615|getsecret 18446744073709551614|getsecretnone 18446744073709551614|revoke 18446744073709551615|hrevoke 5 18446744073709551614|validate 1 1 1 1 2|revoke 1|getsecret 18446744073709551615|revoke 18446744073709551615|getsecret 0"),
            // HTLC signature lists: 5 HTLCs, too short (none / n-1) panics (restart = crash recovery), one wrong
            // (first/middle/last), swapped, surplus; none of the defective ones opens the way to secret 0
            f("setup|validate 0 0 1 1 2|activate|validate 1 8 2 1 2 5|restart|revoke 1|validate 1 8 2 1 1 6|restart|revoke 1|hvalidate 4 1 8 2 1 5|restart|getsecret 0|validate 1 8 0 1 2 2|validate 1 8 0 1 1 3|validate 1 8 0 1 2 4|validate 1 8 0 1 2 8|revoke 1|hvalidate 6 1 4 2 1 5|restart|revoke 1|validate 1 8 1 1 2 7|revoke 1|validate 2 4 0 1 2 0|validate 2 4 1 1 1 1|hrevoke 6 1|validate 3 6 1 1 2 1|revoke 3|validate 3 6 1 1 2 1|validate 0 5 1 0 2 1"),
            f("setup|hvalidate 5 0 0 1 1 1|hvalidate 5 1 6 2 1 6|restart|hrevoke 5 0|hvalidate 5 1 6 0 1 8|hrevoke 5 0|hvalidate 5 1 6 1 1 1|hrevoke 5 0|hvalidate 4 2 5 2 1 5|restart|hvalidate 4 2 5 1 1 7|hgetpoint 4 3"),
            // every handler arm that touches the enforcement state, through the real handler
            f("hcheckfuture 0 0|setup|hvalidate1 6 0 0 1 1 1|hsigncp 0 1000 0 1 2|hvalidate1 6 1 5 1 1 1|hcheckfuture 0 0|hcheckfuture 0 1|hrevoke 6 0|hcheckfuture 1 0|hsigncp 1 1004 1 1 2|hsigncp 1 1005 1 1 2|hmutualclose 0 2 1|hvalidate1 4 2 0 1 1 1|hmutualclose 0 2 0|hsignholder 6 1|hsigncommit 6 2|hmutualclose 1 2 1|hsignholder 5 2|hrevoke 6 1|hvalidate1 5 3 6 2 1 5"),
            // re-signing an already signed counterparty number with exactly one component changed
            // (feerate, to_holder, to_counterparty, HTLC amount / hash / cltv / direction, HTLC removed, point),
            // phase 2, phase 1 and through the handler; the identical retry is accepted
            f("setup|signcp 0 1000 0 1 2|signcp 1 1004 3713 1 2|signcp 1 1004 3717 1 2|signcp 1 1004 3714 1 2|signcp 1 1004 3701 1 2|signcp 1 1004 3809 1 2|signcp 1 1004 3761 1 2|signcp 1 1004 3737 1 2|signcp 1 1004 3905 1 2|signcp 1 1004 41 1 2|signcp 1 1005 3713 1 2|signcp 1 1004 3713 1 2|hsigncp 1 1004 3717 1 2|signcp 1 1004 3709 1 1|hsigncp 1 1004 3713 1 2|restart|signcp 1 1004 3717 1 2|signcp 1 1004 3713 1 1"),
            // a restart directly after every kind of accepted state change
            f(&format!("setup|restart|validate 0 0 1 1 1|restart|activate|restart|signcp 0 1000 0 1 1|restart|validate 1 17 1 1 2|restart|revoke 1|restart|signcp 1 1004 1 1 2|restart|revokecp 0 {} 1000|restart|signcp 2 1008 0 1 2|mutualclose 1 1 1|restart|validate 2 0 1 1 2|revoke 2|signholder 1|restart|revoke 2",
                hex::encode(lightning_signer::lightning::ln::chan_utils::build_commitment_secret(&[3u8; 32], INITIAL)))),
            f("setup|validate 0 0 1 1 2|activate|signcp 0 1000 0 1 2|mutualclose 1 2 1|restart|validate 1 1 1 1 2|signredundant 0 0 1|restart|revoke 1|signrecovery|restart|getsecret 0"),
            // a staged commitment with an outgoing HTLC whose keysend approval expires (heartbeat prune) before the
            // revocation: the revocation is refused, retried, the signer restarts, the node force-closes
            f("setup|validate 0 0 1 1 2|activate|validate 1 1 1 1 2|revoke 1 1|validate 2 10 1 1 2|tick 600|revoke 2 0|revoke 2 0|restart|revoke 2 0|signholder 1|getsecret 1"),
            f("setup|validate 0 0 1 1 2|activate|validate 1 26 1 1 1|tick 61|hrevoke 6 0 0|hrevoke 6 0 0|restart|hsignholder 6 0|keysend|revoke 1 1"),
            f("setup|validate 0 0 1 1 2|activate|validate 1 10 1 1 2|revoke 1 1|tick 600|validate 2 0 1 1 2|revoke 2 1|restart|validate 3 10 1 1 1|tick 600|hrevoke 6 2 0|hrevoke 6 2 0|restart|signholder 2|keysend|revoke 3 1"),
            // a refused early revocation (the current commitment, before its successor is signed) must leave the store
            // intact: the off-tree secret of a later commitment signed with an off-tree point is still refused
            {
                let seeded = |n: u64| hex::encode(lightning_signer::lightning::ln::chan_utils::build_commitment_secret(&[3u8; 32], INITIAL - n));
                f(&format!(
                    "setup|signcp 0 1000 0 1 2|signcp 1 1004 0 1 2|revokecp 0 {s0} 1000|revokecp 1 {s1} 1004|restart|signcp 2 1009 0 1 2|revokecp 1 {s1} 1004|signcp 3 1012 0 1 2|restart|revokecp 2 {a2} 1009|signcp 4 1016 0 1 2|hrevokecp 2 {a2} 1009|revokecp 2 {s2} 1008",
                    s0 = seeded(0), s1 = seeded(1), s2 = seeded(2), a2 = hex::encode(alt_secret(2))
                ))
            },
            // F1 witness (fixed by 208b946): validate n+1, sign n, revoke n
            f("setup|validate 0 0 1 1 2|activate|validate 1 1 1 1 2|signholder 0|revoke 1|getsecret 0|restart|revoke 1|hrevoke 6 0"),
            // invalid signatures never open the way to a secret
            f("setup|validate 0 0 0 1 2|activate|validate 0 0 1 1 2|activate|validate 1 1 0 1 2|revoke 1|validate 1 1 0 1 1|revoke 1|hvalidate 4 1 1 0 1|getsecret 0|validate 2 1 1 1 2|revoke 1"),
            // old protocol: validate revokes immediately
            f("setup|hvalidate 4 0 0 1 1|hvalidate 4 1 1 1 1|hvalidate 4 2 2 1 1|hgetpoint 4 3|hgetpoint 5 2|hgetpoint 6 3|hvalidate 5 3 0 1 1|hrevoke 5 2|hrevoke 4 2"),
            // counterparty side: window, retry, revocation with right/wrong secret
            f("setup|signcp 0 1000 0 1 2|signcp 0 1000 0 1 1|signcp 0 1001 0 1 2|signcp 0 1000 1 1 2|signcp 2 1008 0 1 2|signcp 1 1004 1 1 2|signcp 2 1008 0 1 2|restart|signcp 2 1008 0 1 2"),
        ];
        // the next commitment with the content of the current one and the signatures the signer stored for the current one
        // (replayed, not valid for the new number), both entry points and the version-4 handler, then the revocation
        for req in [format!("validate 1 0 {} 1 1 9", sig_token(9, 0, true)), format!("validate 1 0 {} 1 2 9", sig_token(9, 0, true)),
                    format!("hvalidate 4 1 0 {} 1 9", sig_token(9, 0, true)), format!("hvalidate1 6 1 0 {} 1 9", sig_token(9, 0, true))] {
            v.push(f(&format!("setup|validate 0 0 1 1 2|activate|{}|revoke 1|hrevoke 6 0|getsecret 0|restart|{}|revoke 1|getsecret 0", req, req)));
        }
        // a deeper history (three revocations: next = 4, current = 3), then EVERY number 0..=4 through every entry point that
        // releases a holder signature or a secret (round 9: numbers far behind the counter, not only next-1 / next-2)
        for n in 0..=4u64 {
            for req in [format!("signredundant {} {} 1", n, n % 4), format!("signholder {}", n), format!("hsigncommit 6 {}", n),
                        format!("getsecret {}", n), format!("hgetpoint 4 {}", n + 2), format!("validate {} {} 1 1 2", n, n % 4), format!("revoke {}", n)] {
                v.push(f(&format!("setup|validate 0 0 1 1 2|activate|validate 1 1 1 1 2|revoke 1|validate 2 2 1 1 2|revoke 2|validate 3 3 1 1 2|revoke 3|{}|restart|{}|getsecret 3|signholder 3", req, req)));
            }
        }
        // all 6 orders of {validate n+1, sign n, revoke n} × sign variants × a restart point
        let steps = |sign: &str| vec!["validate 1 1 1 1 2".to_string(), sign.to_string(), "revoke 1".to_string()];
        for sign in ["signholder 0", "signrecovery", "signredundant 0 0 1", "signredundant 1 1 1", "mutualclose 1 2"] {
            for perm in [[0, 1, 2], [0, 2, 1], [1, 0, 2], [1, 2, 0], [2, 0, 1], [2, 1, 0]] {
                for rp in 0..3 {
                    let st = steps(sign);
                    let mut ops = vec!["setup".to_string(), "validate 0 0 1 1 2".into(), "activate".into(), "signcp 0 1000 0 1 2".into()];
                    for (i, k) in perm.iter().enumerate() {
                        if i == rp {
                            ops.push("restart".into());
                        }
                        ops.push(st[*k].clone());
                    }
                    ops.push("getsecret 0".into());
                    ops.push("getsecretnone 0".into());
                    ops.push("hrevoke 6 0".into());
                    ops.push("signholder 1".into());
                    v.push(ops);
                }
            }
        }
        v
    }
    fn gen_case(&self, rng: &mut Rng, tier: Tier) -> Vec<String> {
        // deployment configuration of the monitor-only group (round 9): the demoted tag — one unrelated tag, or `*` = every
        // tag except the guard tags C01-C03 rest on —, the validator factory (Simple / vlsd's default Onchain wrapper, whose
        // funding-depth gate `policy-commitment-spends-active-utxo` has to be demoted for the state to advance without a
        // chain) and the network (testnet / regtest)
        let demoted: Option<String> = if self.free && rng.chance(5, 6) {
            let onchain = rng.chance(1, 3);
            let tag = if rng.chance(1, 3) { "*".to_string() }
                      else if onchain { "policy-commitment-spends-active-utxo".to_string() }
                      else { rng.pick(&DEMOTABLE_TAGS).to_string() };
            let net = if rng.chance(1, 3) { "@regtest" } else { "" };
            Some(format!("{}{}{}", tag, if onchain { "@onchain" } else { "" }, net))
        } else { None };
        let backup = self.free && rng.chance(1, 3);
        let mut w = World::new_cfg2(demoted.clone(), backup);
        let mut ops = Vec::new();
        if let Some(t) = &demoted {
            ops.push(format!("filter {}", t));
        }
        if backup {
            ops.push("store backup".into());
        }
        let len = rng.range(4, if tier == Tier::Quick { 14 } else { 32 }) as usize;
        // a few requests against the stub in some cases, then setup
        if rng.chance(1, 4) {
            for _ in 0..rng.range(1, 3) {
                let op = if w.dead { "restart".to_string() } else { self.gen_op(rng, &w) };
                w.apply(&op);
                ops.push(op);
            }
        }
        if w.dead {
            ops.push("restart".into());
            w.apply("restart");
        }
        ops.push("setup".into());
        w.apply("setup");
        // usually get the channel going first (initial commitment on both sides)
        if rng.chance(4, 5) {
            for op in ["validate 0 0 1 1 2", "activate"] {
                ops.push(op.into());
                w.apply(op);
            }
            if rng.chance(1, 2) {
                let op = "signcp 0 1000 0 1 2";
                ops.push(op.into());
                w.apply(op);
            }
        }
        for _ in 0..len {
            // steer: with some probability do the "right next thing" so that long histories advance
            let e = w.estate().unwrap();
            // scenario steering: a staged commitment with an outgoing HTLC → let its approval expire; a refused
            // revocation → retry it, restart, force-close with the current commitment
            let staged_out = e.next_holder_commit_info.as_ref().map(|x| !x.0.offered_htlcs.is_empty()).unwrap_or(false);
            let last = ops.last().cloned().unwrap_or_default();
            let last_refused_revoke = (last.starts_with("revoke ") || last.starts_with("hrevoke ")) && last.ends_with(" 0");
            let op = if w.dead {
                "restart".to_string()
            } else if staged_out && w.outgoing_ok(&e.next_holder_commit_info.as_ref().unwrap().0.offered_htlcs) && rng.chance(1, 3) {
                "tick 61".to_string()
            } else if last_refused_revoke && rng.chance(2, 3) {
                last.clone()
            } else if ops.len() >= 2 && last == ops[ops.len() - 2] && last_refused_revoke && rng.chance(2, 3) {
                "restart".to_string()
            } else if last == "restart" && staged_out && e.next_holder_commit_num >= 1 && rng.chance(1, 2) {
                if rng.chance(1, 2) { format!("signholder {}", e.next_holder_commit_num - 1) } else { format!("hsigncommit 6 {}", e.next_holder_commit_num - 1) }
            } else if rng.chance(1, 4) {
                if self.prop == "C03" {
                    let (cc, cr) = (e.next_counterparty_commit_num, e.next_counterparty_revoke_num);
                    if cc >= 2 && cr + 2 == cc {
                        let (p0, _) = w.mon.cp_signed.get(&cr).copied().unwrap_or((cp_point_id(cr, 0), 0));
                        let (sn, k) = ((p0 - 1000) / 4, (p0 - 1000) % 4);
                        format!("revokecp {} {} {}", cr, hex::encode(cp_secret(w.cp_keys.as_ref().unwrap(), sn, k)), p0)
                    } else {
                        format!("signcp {} {} {} 1 {}", cc, cp_point_id(cc, 0), rng.below(4), rng.range(1, 2))
                    }
                } else if e.next_holder_commit_info.is_some() {
                    if e.next_holder_commit_num == 0 { "activate".to_string() } else { format!("revoke {} {}", e.next_holder_commit_num, if w.outgoing_ok(&e.next_holder_commit_info.as_ref().unwrap().0.offered_htlcs) { 1 } else { 0 }) }
                } else {
                    let nn = e.next_holder_commit_num;
                    let c = if nn > 0 && rng.chance(1, 2) { 4 + rng.below(5) } else { rng.below(4) };
                    format!("validate {} {} 1 1 {} 1", nn, c, rng.range(1, 2))
                }
            } else {
                let op = self.gen_op(rng, &w);
                let op = handlerize(rng, op);
                // free mode: the store refuses every write during one state-changing request
                let k = op.split(' ').next().unwrap_or("");
                if self.free && rng.chance(1, 8) && matches!(k, "validate" | "hvalidate" | "hvalidate1" | "revoke" | "hrevoke" | "activate" | "signholder" | "hsignholder" | "hsigncommit" | "signrecovery" | "signredundant" | "mutualclose" | "hmutualclose" | "signcp" | "hsigncp" | "revokecp" | "hrevokecp") {
                    format!("{} {}", if backup && rng.chance(1, 3) { "failb" } else if !backup && rng.chance(1, 3) { "failr" } else { "failw" }, op)
                } else {
                    op
                }
            };
            let before = w.digest();
            let line = w.apply(&op);
            let changed = line.starts_with("ok") && w.digest() != before;
            ops.push(op);
            // crash point: a restart directly after a request that changed the state (a dropped or misplaced
            // persist shows exactly here)
            // a transient store error (`failr`) that made the request fail: the node usually retries the same request on the
            // running signer, sometimes the signer is restarted afterwards
            if ops.last().map(|o| o.starts_with("failr ")).unwrap_or(false) && !line.starts_with("failr ok") && !w.dead {
                if rng.chance(2, 3) {
                    let retry = ops.last().unwrap()["failr ".len()..].to_string();
                    w.apply(&retry);
                    ops.push(retry);
                }
                if rng.chance(1, 2) {
                    w.apply("restart");
                    ops.push("restart".into());
                }
            }
            let acked_failw = ops.last().map(|o| o.starts_with("failw ") || o.starts_with("failb ")).unwrap_or(false) && (line.starts_with("failw ok") || line.starts_with("failb ok"));
            if (changed && !w.dead && rng.chance(1, 6)) || (acked_failw && rng.chance(2, 3)) {
                w.apply("restart");
                ops.push("restart".into());
            }
        }
        ops
    }
    fn exec_case(&self, ops: &[String]) -> CaseOut {
        let mut co = CaseOut::default();
        let demoted = ops.first().and_then(|o| o.strip_prefix("filter ")).map(|t| t.to_string());
        let backup = ops.iter().take(2).any(|o| o == "store backup");
        let mut w = World::new_cfg2(demoted, backup);
        let (mut accepted, mut refused) = (false, false);
        for op in ops {
            let before = w.digest();
            let line = w.apply(op);
            let after = w.digest();
            if line.starts_with("ok") && before != after {
                accepted = true;
            }
            if line.starts_with("err") || line.starts_with("panic") {
                refused = true;
            }
            co.out.push(line);
        }
        let pre = format!("{}-", self.prop.to_lowercase());
        for v in w.mon.violations.drain(..) {
            if v.kind.starts_with(&pre) {
                co.violations.push(v);
            }
        }
        co.tags = w.tags.clone();
        if let Some(e) = w.estate() {
            if e.channel_closed && e.next_holder_commit_info.is_some() {
                co.tags.insert("state:closed-with-pending-next".into());
            }
            if e.next_holder_commit_num >= 3 {
                co.tags.insert("state:holder>=3".into());
            }
            if e.next_counterparty_revoke_num >= 2 {
                co.tags.insert("state:cp-revoked>=2".into());
            }
            if !w.mon.revoked.is_empty() {
                co.tags.insert("state:secret-disclosed".into());
            }
            if !w.mon.signed.is_empty() {
                co.tags.insert("state:holder-signed".into());
            }
        }
        co.nontrivial = accepted && refused;
        co
    }
}

pub fn groups() -> Vec<Box<dyn Group>> {
    vec![Box::new(EnfGroup { prop: "C01", free: false }), Box::new(EnfGroup { prop: "C01", free: true })]
}
