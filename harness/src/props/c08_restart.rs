//! C08, fee velocity across restarts: a real `Node` with a real persister (`KVVPersister<MemoryKVVStore>`) and a
//! `ManualClock` checks and signs wallet sweeps that each burn a fee within the per-transaction feerate bound;
//! between any two requests the signer may be restarted (`Node::restore_node` from what was persisted).  The
//! monitor keeps the log of (time, fee) of every SIGNED transaction across restarts and evaluates the sliding
//! window bound of the fee velocity policy on it (same oracle as C12).  No Lean model here: the model-level
//! statement is `C08_velocity` + C12's restart theorem; this group ties the persistence of the *fee* control.
//!
//!   rnode <limit_msat> <h|d>
//!   sweep <now> <fee_sat> <sign 0|1>
//!   restart
use super::NET;
use crate::common::*;
use lightning_signer::bitcoin::absolute::LockTime;
use lightning_signer::bitcoin::bip32::{ChildNumber, DerivationPath};
use lightning_signer::bitcoin::transaction::Version;
use lightning_signer::bitcoin::Transaction;
use lightning_signer::node::{Node, NodeConfig, NodeServices, SpendType};
use lightning_signer::persist::Persist;
use lightning_signer::policy::simple_validator::{make_default_simple_policy, SimpleValidatorFactory};
use lightning_signer::signer::derive::KeyDerivationStyle;
use lightning_signer::util::clock::ManualClock;
use lightning_signer::util::test_utils::*;
use lightning_signer::util::velocity::{VelocityControlIntervalType, VelocityControlSpec};
use std::sync::Arc;
use std::time::Duration;
use vls_persist::kvv::memory::MemoryKVVStore;
use vls_persist::kvv::{JsonFormat, KVVPersister};

pub struct C08FeeRestart;

fn services(persister: Arc<dyn Persist>, clock: Arc<ManualClock>, limit: u64, ty: &str, onchain: bool) -> NodeServices {
    let mut policy = make_default_simple_policy(NET);
    policy.fee_velocity_control = VelocityControlSpec {
        limit_msat: limit,
        interval_type: if ty == "h" { VelocityControlIntervalType::Hourly } else { VelocityControlIntervalType::Daily },
    };
    NodeServices {
        validator_factory: super::validator_factory(policy, onchain),
        starting_time_factory: make_genesis_starting_time_factory(NET),
        persister,
        clock,
        trusted_oracle_pubkeys: vec![],
    }
}

fn window_violation(log: &[(u64, u64)], w: u64, limit: u64) -> Option<(u64, u128)> {
    for (t0, _) in log.iter() {
        let sum: u128 = log.iter().filter(|(t, _)| *t >= *t0 && *t - *t0 <= w).map(|(_, a)| *a as u128).sum();
        if sum > limit as u128 {
            return Some((*t0, sum));
        }
    }
    None
}

impl Group for C08FeeRestart {
    fn property(&self) -> &'static str { "C08" }
    fn model(&self) -> Option<&'static str> { None }
    fn rule(&self) -> &'static str {
        "fee velocity across restarts: real Node with KVVPersister<MemoryKVVStore> and ManualClock, Hourly/Daily fee velocity limits of \
         a few sweeps' worth, wallet sweeps with fees up to the per-tx feerate bound through check_onchain_tx (+ unchecked_sign_onchain_tx), \
         restarts through Node::restore_node between any two requests; monitor = sliding-window bound on the fees of all signed \
         transactions across restarts; non-trivial = a signed sweep, a refused one and a restart"
    }
    fn budget(&self, tier: Tier) -> usize { if tier == Tier::Quick { 400 } else { 10000 } }
    fn corpus(&self) -> Vec<Vec<String>> {
        let c = |s: &str| s.split('|').map(|x| x.to_string()).collect::<Vec<String>>();
        vec![
            // three sweeps use up 300_000 sat/day; after a restart at the same time the fourth is still refused
            c("rnode 300000000 d|sweep 1700000000 100000 1|sweep 1700000000 100000 1|sweep 1700000000 100000 1|sweep 1700000000 100000 1|restart|sweep 1700000000 100000 1|sweep 1700000100 1 1"),
        ]
    }
    fn gen_case(&self, rng: &mut Rng, tier: Tier) -> Vec<String> {
        let ty = *rng.pick(&["h", "d"]);
        let limit = *rng.pick(&[300_000_000u64, 250_000_000, 100_000_000, 1_000_000_000]);
        let bi: u64 = if ty == "h" { 300 } else { 3600 };
        let mut ops = vec![format!("rnode {} {}{}", limit, ty, if rng.chance(1, 3) { " o" } else { "" })];
        let mut now = 1_700_000_000u64 + rng.below(10_000);
        let n = rng.range(4, if tier == Tier::Quick { 10 } else { 20 });
        for _ in 0..n {
            if rng.chance(1, 3) {
                ops.push("restart".into());
            }
            now += match rng.below(6) { 0 | 1 | 2 => 0, 3 => rng.below(bi), 4 => bi, _ => rng.below(3 * bi) };
            let fee = match rng.below(6) { 0 => 1, 1 => 140_000, 2 => limit / 1000 / 2, 3 => limit / 1000 / 3 + 1, _ => rng.range(10_000, 140_000) }.min(140_000);
            ops.push(format!("sweep {} {} {}", now, fee, if rng.chance(5, 6) { 1 } else { 0 }));
        }
        ops
    }
    fn exec_case(&self, ops: &[String]) -> CaseOut {
        let mut co = CaseOut::default();
        let persister: Arc<dyn Persist> = Arc::new(KVVPersister(MemoryKVVStore::new([8u8; 16]), JsonFormat));
        let clock = Arc::new(ManualClock::new(Duration::from_secs(1_700_000_000)));
        let seed = [7u8; 32];
        let config = NodeConfig { network: NET, key_derivation_style: KeyDerivationStyle::Native, use_checkpoints: false, allow_deep_reorgs: false };
        let mut node: Option<Arc<Node>> = None;
        let mut spec: (u64, String) = (0, "d".into());
        let mut onchain = false;
        let mut log: Vec<(u64, u64)> = vec![];
        let mut ctr: u32 = 0;
        let (mut signed_any, mut refused_any, mut restarted) = (false, false, false);
        for (i, op) in ops.iter().enumerate() {
            let t: Vec<&str> = op.split_whitespace().collect();
            let line = match t.as_slice() {
                ["rnode", l, ty] | ["rnode", l, ty, _] => {
                    onchain = t.get(3) == Some(&"o");
                    spec = (l.parse().unwrap_or(0), ty.to_string());
                    let n = Arc::new(Node::new(config, &seed, vec![], services(persister.clone(), clock.clone(), spec.0, &spec.1, onchain)));
                    n.add_allowlist(&[]).unwrap();
                    persister.new_node(&n.get_id(), &config, &*n.get_state()).unwrap();
                    persister.new_tracker(&n.get_id(), &n.get_tracker()).unwrap();
                    node = Some(n);
                    log.clear();
                    "ok".to_string()
                }
                ["restart"] => {
                    restarted = true;
                    drop(node.take());
                    let (node_id, entry) = persister.get_nodes().unwrap().into_iter().next().unwrap();
                    match Node::restore_node(&node_id, entry, &seed, services(persister.clone(), clock.clone(), spec.0, &spec.1, onchain)) {
                        Ok(n) => { node = Some(n); "ok".to_string() }
                        Err(e) => format!("restore-failed {}", e.message()),
                    }
                }
                ["sweep", now, fee, sign] => {
                    let n = node.as_ref().expect("rnode first").clone();
                    let (now, fee): (u64, u64) = (now.parse().unwrap_or(0), fee.parse().unwrap_or(0));
                    clock.set(Duration::from_secs(now));
                    ctr += 1;
                    let ndx = ctr % 50;
                    let value = 1_000_000 + ctr as u64;
                    let (prev_tx, txin) = make_test_funding_wallet_input(&n, SpendType::P2wpkh, ndx, value);
                    let txout = make_test_funding_wallet_output(&n, ndx, value - fee.min(value), SpendType::P2wpkh);
                    let path: DerivationPath = vec![ChildNumber::from_normal_idx(ndx).unwrap()].into();
                    let tx = Transaction { version: Version::TWO, lock_time: LockTime::ZERO, input: vec![txin], output: vec![txout] };
                    let prev_outs = vec![prev_tx.output[0].clone()];
                    match n.check_onchain_tx(&tx, &[true], &prev_outs, &[None], &[path.clone()]) {
                        Err(ve) => { refused_any = true; co.tags.insert(format!("sweep:err:{}", ve.tag)); format!("err:{}", ve.tag) }
                        Ok(()) => {
                            if *sign == "1" {
                                match n.unchecked_sign_onchain_tx(&tx, &[path], &prev_outs, vec![None]) {
                                    Ok(w) if w.iter().any(|x| !x.is_empty()) => {
                                        signed_any = true;
                                        co.tags.insert("sweep:signed".into());
                                        log.push((now, fee * 1000));
                                        // limit and window from the configured policy spec, not from the node's control
                                        let (limit, wlen): (u64, u64) = (spec.0, if spec.1 == "h" { 11 * 300 } else { 23 * 3600 });
                                        if limit != u64::MAX {
                                            if let Some((t0, sum)) = window_violation(&log, wlen, limit) {
                                                co.violations.push(Violation {
                                                    kind: "fee-velocity-exceeded".into(),
                                                    desc: format!("fees of {} msat signed for within window [{}, {}] (across restarts: {}) with limit {}", sum, t0, t0 + wlen, restarted, limit),
                                                    at: i,
                                                });
                                            }
                                        }
                                        "signed".to_string()
                                    }
                                    Ok(_) => "signed-nothing".to_string(),
                                    Err(e) => format!("sign-error {}", e.message()),
                                }
                            } else {
                                co.tags.insert("sweep:checked-only".into());
                                "ok".to_string()
                            }
                        }
                    }
                }
                _ => "bad-op".into(),
            };
            co.out.push(line);
        }
        co.nontrivial = signed_any && refused_any && restarted;
        co
    }
}
