//! Rust side of the translator fixtures (`fn_gen_fixture.rs`): argument generators and callers, in the line format of
//! `lean/VlsModel/Drv/FnCodec.lean` (arguments: structs = their fields in declaration order, data enums = the variant
//! index followed by the components, maps = the number of entries followed by key/value pairs in iteration order;
//! results: tuples are right-nested pairs `(a,(b,c))`, data enums `V(a,b)` / `V`).
use super::fixture::*;
use super::{arg_list, arg_opt, edge32, edge64, enc_list, enc_opt, near, Args, F};
use crate::common::Rng;
use std::collections::{BTreeMap, BTreeSet, HashMap, VecDeque};

const U32M: u64 = u32::MAX as u64;

fn tup(parts: &[String]) -> String {
    match parts.len() {
        0 => "()".into(),
        1 => parts[0].clone(),
        _ => format!("({},{})", parts[0], tup(&parts[1..])),
    }
}
fn l32(v: &[u32]) -> String {
    enc_list(&v.iter().map(|x| *x as u64).collect::<Vec<_>>())
}
fn l8(v: &[u8]) -> String {
    enc_list(&v.iter().map(|x| *x as u64).collect::<Vec<_>>())
}
fn o32(o: Option<u32>) -> String {
    enc_opt(o.map(|x| x as u64))
}
fn small_or_edge32(r: &mut Rng) -> u64 {
    if r.chance(1, 3) {
        edge32(r)
    } else {
        r.below(12)
    }
}

// ---- Acc / Change
fn acc_from(a: &mut Args) -> Acc {
    let height = a.u() as u32;
    let total = a.u();
    let log = a.list().into_iter().map(|x| x as u32).collect();
    let closed = a.opt().map(|x| x as u32);
    Acc { height, total, log, closed }
}
fn acc_enc(x: &Acc) -> String {
    format!("{{{} {} {} {}}}", x.height, x.total, l32(&x.log), o32(x.closed))
}
fn gen_acc(r: &mut Rng) -> String {
    let log: Vec<u64> = (0..r.below(3)).map(|_| r.below(9)).collect();
    let closed = if r.chance(1, 2) { None } else { Some(edge32(r)) };
    let total = match r.below(4) {
        0 => 0,
        1 => edge64(r),
        _ => r.below(100),
    };
    format!("{} {} {} {}", small_or_edge32(r), total, arg_list(&log), arg_opt(closed))
}
fn change_from(a: &mut Args) -> Change {
    match a.u() {
        0 => Change::Add(a.u() as u32),
        1 => {
            let v = a.u() as u32;
            Change::Move(v, a.u())
        }
        2 => {
            let height = a.u() as u32;
            Change::Close { height, swept: a.b() }
        }
        _ => Change::Reset,
    }
}
fn change_enc(c: &Change) -> String {
    match c {
        Change::Add(v) => format!("Add({})", v),
        Change::Move(v, a) => format!("Move({},{})", v, a),
        Change::Close { height, swept } => format!("Close({},{})", height, swept),
        Change::Reset => "Reset".into(),
    }
}
fn gen_change(r: &mut Rng) -> String {
    match r.below(4) {
        0 => format!("0 {}", small_or_edge32(r)),
        1 => format!("1 {} {}", r.below(9), if r.chance(1, 2) { edge64(r) } else { r.below(200) }),
        2 => format!("2 {} {}", small_or_edge32(r), r.below(2)),
        _ => "3".into(),
    }
}
fn gen_bytes(r: &mut Rng, n: u64) -> Vec<u64> {
    (0..n)
        .map(|_| match r.below(5) {
            0 => 0,
            1 => 255,
            2 => 0xfd + r.below(3),
            _ => r.below(256),
        })
        .collect()
}
fn bytes_from(a: &mut Args) -> Vec<u8> {
    a.list().into_iter().map(|x| x as u8).collect()
}

// ---- Outs / Holder
fn outs_from(a: &mut Args) -> Outs {
    let s = a.t[a.i].clone();
    a.i += 1;
    let ours = if s == "-" {
        None
    } else {
        let v = a.u() as u32;
        Some((v, a.b()))
    };
    let spent = a.list().into_iter().map(|x| x == 1).collect();
    Outs { ours, spent }
}
fn outs_enc(o: &Outs) -> String {
    let ours = match o.ours {
        None => "none".to_string(),
        Some((v, b)) => format!("some(({},{}))", v, b),
    };
    format!("{{{} [{}]}}", ours, o.spent.iter().map(|b| b.to_string()).collect::<Vec<_>>().join(","))
}
fn gen_outs(r: &mut Rng) -> String {
    let ours = if r.chance(1, 3) { "-".to_string() } else { format!("+ {} {}", r.below(4), r.below(2)) };
    let n = r.below(4);
    let spent: Vec<u64> = (0..n).map(|_| r.below(2)).collect();
    format!("{} {}", ours, arg_list(&spent))
}

fn map_from(a: &mut Args) -> Vec<(u64, u64)> {
    let n = a.u();
    (0..n)
        .map(|_| {
            let k = a.u();
            (k, a.u())
        })
        .collect()
}
fn map_enc<'x>(it: impl Iterator<Item = (&'x u32, &'x u64)>) -> String {
    format!("[{}]", it.map(|(k, v)| format!("({},{})", k, v)).collect::<Vec<_>>().join(","))
}
/// distinct ascending keys (as a BTreeMap iterates)
fn gen_map(r: &mut Rng) -> String {
    let mut s = String::new();
    let mut n = 0;
    for k in [0u64, 1, 2, 5, 9, U32M] {
        if r.chance(1, 3) {
            let v = match r.below(4) {
                0 => u64::MAX,
                1 => 0,
                _ => r.below(50),
            };
            s += &format!(" {} {}", k, v);
            n += 1;
        }
    }
    format!("{}{}", n, s)
}
fn gen_set(r: &mut Rng) -> String {
    let ks: Vec<u64> = [0u64, 1, 2, 5, 9, U32M].iter().copied().filter(|_| r.chance(1, 3)).collect();
    arg_list(&ks)
}
fn key(r: &mut Rng) -> u64 {
    *r.pick(&[0u64, 1, 2, 3, 5, 9, 10, U32M])
}

// ---- Gauge / Meter (round 9)
fn gen_gauge(r: &mut Rng) -> String {
    let parent = if r.chance(1, 5) { "-".to_string() } else { format!("+ {}", if r.chance(1, 4) { edge64(r) } else { r.below(20) }) };
    let cells: Vec<u64> = (0..r.below(4)).map(|_| if r.chance(1, 5) { edge64(r) } else { r.below(30) }).collect();
    format!("{} {} {}", parent, arg_list(&cells), if r.chance(1, 4) { edge64(r) } else { r.below(60) })
}
fn gauge_from(a: &mut Args) -> (Gauge, Option<std::sync::Arc<Parent>>) {
    let s = a.t[a.i].clone();
    a.i += 1;
    let keep = if s == "-" { None } else { Some(std::sync::Arc::new(Parent { base: a.u() })) };
    let parent = match &keep {
        None => std::sync::Weak::new(),
        Some(p) => std::sync::Arc::downgrade(p),
    };
    let cells = a.list();
    let cap = a.u();
    (Gauge { parent, meter: std::sync::Mutex::new(Meter { cells, cap }) }, keep)
}
fn gauge_enc(g: &Gauge) -> String {
    let p = match g.parent.upgrade() {
        None => "none".to_string(),
        Some(p) => format!("some({{{}}})", p.base),
    };
    let m = g.meter.lock().unwrap();
    format!("{{{} {{{} {}}}}}", p, enc_list(&m.cells), m.cap)
}

pub(crate) fn table() -> Vec<F> {
    vec![
        F { key: "Fixture.Acc.apply", prop: "FIX", gen: |r| format!("{} {} {}", gen_acc(r), arg_list(&[r.below(5)][..r.below(2) as usize]), gen_change(r)),
            call: |a| { let mut x = acc_from(a); let mut adds: Vec<u32> = a.list().into_iter().map(|v| v as u32).collect();
                        let c = change_from(a); x.apply(&mut adds, c); format!("ok ({},{})", acc_enc(&x), l32(&adds)) } },
        F { key: "Fixture.Acc.apply_all", prop: "FIX",
            gen: |r| { let n = r.below(5); let cs: Vec<String> = (0..n).map(|_| gen_change(r)).collect();
                       format!("{} {} {}", gen_acc(r), n, cs.join(" ")) },
            call: |a| { let mut x = acc_from(a); let n = a.u(); let cs: Vec<Change> = (0..n).map(|_| change_from(a)).collect();
                        let adds = x.apply_all(cs); format!("ok ({},{})", acc_enc(&x), l32(&adds)) } },
        F { key: "Fixture.Acc.summary", prop: "FIX", gen: |r| gen_acc(r),
            call: |a| format!("ok {}", change_enc(&acc_from(a).summary())) },
        F { key: "Fixture.classify", prop: "FIX", gen: |r| format!("{} {}", gen_acc(r), small_or_edge32(r)),
            call: |a| { let x = acc_from(a); let v = a.u() as u32; format!("ok {}", classify(&x, v)) } },
        F { key: "Fixture.guard_opt", prop: "FIX",
            gen: |r| { let l = small_or_edge32(r); let o = if r.chance(1, 4) { None } else { Some(near(r, l).min(U32M)) };
                       let o = if r.chance(1, 5) { Some(0) } else { o }; format!("{} {}", arg_opt(o), l) },
            call: |a| { let o = a.opt().map(|v| v as u32); let l = a.u() as u32; format!("ok {}", guard_opt(o, l)) } },
        F { key: "Fixture.first_big", prop: "FIX",
            gen: |r| { let n = r.below(5); let lim = match r.below(3) { 0 => u64::MAX, 1 => 20, _ => r.below(12) };
                       let v: Vec<u64> = (0..n).map(|_| match r.below(6) { 0 => 7, 1 => 9, 2 => edge64(r), _ => r.below(12) }).collect();
                       format!("{} {}", arg_list(&v), lim) },
            call: |a| { let v = a.list(); let lim = a.u();
                        match first_big(&v, lim) { Ok(x) => format!("ok {}", x), Err(()) => "err ()".into() } } },
        F { key: "Fixture.find_pair", prop: "FIX",
            gen: |r| { let x: Vec<u64> = (0..r.below(4)).map(|_| small_or_edge32(r)).collect();
                       let y: Vec<u64> = (0..r.below(4)).map(|_| small_or_edge32(r)).collect();
                       let t = if !x.is_empty() && !y.is_empty() && r.chance(2, 3) {
                           (*r.pick(&x) as u32).wrapping_add(*r.pick(&y) as u32) as u64 } else { small_or_edge32(r) };
                       format!("{} {} {}", arg_list(&x), arg_list(&y), t) },
            call: |a| { let x: Vec<u32> = a.list().into_iter().map(|v| v as u32).collect();
                        let y: Vec<u32> = a.list().into_iter().map(|v| v as u32).collect(); let t = a.u() as u32;
                        match find_pair(&x, &y, t) { None => "ok none".into(), Some((i, j)) => format!("ok some(({},{}))", i, j) } } },
        F { key: "Fixture.encode_bigsize", prop: "FIX",
            gen: |r| match r.below(4) { 0 => near(r, 0xfd), 1 => near(r, 0xffff), 2 => near(r, 0xffff_ffff), _ => edge64(r) }.to_string(),
            call: |a| format!("ok {}", l8(&encode_bigsize(a.u()))) },
        F { key: "Fixture.decode_bigsize", prop: "FIX",
            gen: |r| { let b = if r.chance(1, 2) { let x = match r.below(4) { 0 => near(r, 0xfd), 1 => near(r, 0xffff), 2 => near(r, 0xffff_ffff), _ => edge64(r) };
                                                   let mut e: Vec<u64> = encode_bigsize(x).into_iter().map(|b| b as u64).collect();
                                                   if r.chance(1, 4) { e.pop(); } if r.chance(1, 4) { e.push(r.below(256)); } e }
                               else { let n = r.below(10); gen_bytes(r, n) };
                       arg_list(&b) },
            call: |a| { let b = bytes_from(a); match decode_bigsize(&b) { Ok((v, n)) => format!("ok ({},{})", v, n), Err(()) => "err ()".into() } } },
        F { key: "Fixture.slices", prop: "FIX",
            gen: |r| { let n = match r.below(4) { 0 => r.below(4), _ => 4 + r.below(5) }; let b = gen_bytes(r, n);
                       let x = near(r, n).min(20); let y = near(r, n).min(20);
                       let (x, y) = if r.chance(2, 3) { (x.min(y), x.max(y)) } else { (x, y) };
                       format!("{} {} {}", arg_list(&b), if r.chance(1, 4) { r.below(3) } else { x }, y) },
            call: |a| { let b = bytes_from(a); let x = a.u() as usize; let y = a.u() as usize; let (p, q, t, h, m) = slices(&b, x, y);
                        format!("ok {}", tup(&[p.to_string(), q.to_string(), t.to_string(), h.to_string(), l8(&m)])) } },
        F { key: "Fixture.bits", prop: "FIX",
            gen: |r| format!("{} {} {}", edge32(r), edge32(r), match r.below(5) { 0 => 31, 1 => 32, 2 => 33, 3 => edge32(r), _ => r.below(32) }),
            call: |a| { let (x, y, s) = (a.u() as u32, a.u() as u32, a.u() as u32); let t = bits(x, y, s);
                        format!("ok {}", tup(&[t.0.to_string(), t.1.to_string(), t.2.to_string(), t.3.to_string(), t.4.to_string(), t.5.to_string()])) } },
        F { key: "Fixture.bytes16", prop: "FIX",
            gen: |r| format!("{} {}", *r.pick(&[0u64, 1, 0x0fff, 0x1000, 0x8000, 0xf000, 0xffff, 0x1234]), edge64(r)),
            call: |a| { let x = a.u() as u16; let y = a.u(); let (p, q, m) = bytes16(x, y);
                        format!("ok {}", tup(&[l8(&p), l8(&q), m.to_string()])) } },
        F { key: "Fixture.window", prop: "FIX",
            gen: |r| { let q: Vec<u64> = (0..r.below(4)).map(|_| r.below(9)).collect(); format!("{} {} {}", arg_list(&q), r.below(9), near(r, q.len() as u64)) },
            call: |a| { let mut q: VecDeque<u32> = a.list().into_iter().map(|v| v as u32).collect(); let x = a.u() as u32; let cap = a.u() as usize;
                        let (d, f, b, n) = window(&mut q, x, cap);
                        format!("ok ({},{})", l32(&q.iter().copied().collect::<Vec<_>>()), tup(&[o32(d), o32(f), o32(b), n.to_string()])) } },
        F { key: "Fixture.window_rev", prop: "FIX",
            gen: |r| { let q: Vec<u64> = (0..r.below(3)).map(|_| r.below(9)).collect(); format!("{} {}", arg_list(&q), r.below(9)) },
            call: |a| { let mut q: VecDeque<u32> = a.list().into_iter().map(|v| v as u32).collect(); let x = a.u() as u32;
                        let o = window_rev(&mut q, x); format!("ok ({},{})", l32(&q.iter().copied().collect::<Vec<_>>()), o32(o)) } },
        F { key: "Fixture.tally", prop: "FIX",
            gen: |r| format!("{} {} {} {}", gen_map(r), gen_set(r), key(r), match r.below(4) { 0 => 0, 1 => u64::MAX, _ => r.below(9) }),
            call: |a| { let mut m: BTreeMap<u32, u64> = map_from(a).into_iter().map(|(k, v)| (k as u32, v)).collect();
                        let mut s: BTreeSet<u32> = a.list().into_iter().map(|v| v as u32).collect(); let k = a.u() as u32; let v = a.u();
                        let (f, o, n, c) = tally(&mut m, &mut s, k, v);
                        format!("ok {}", tup(&[map_enc(m.iter()), l32(&s.iter().copied().collect::<Vec<_>>()),
                                               tup(&[f.to_string(), enc_opt(o), n.to_string(), c.to_string()])])) } },
        F { key: "Fixture.sum_map", prop: "FIX", gen: |r| gen_map(r),
            call: |a| { let m: BTreeMap<u32, u64> = map_from(a).into_iter().map(|(k, v)| (k as u32, v)).collect();
                        let (s, ks) = sum_map(&m); format!("ok ({},{})", s, l32(&ks)) } },
        F { key: "Fixture.bump", prop: "FIX",
            gen: |r| { let mut s = String::new(); let mut n = 0;
                       for k in [7u64, 1, u64::MAX, 3] { if r.chance(1, 2) { s += &format!(" {} {}", k, if r.chance(1, 4) { U32M } else { r.below(5) }); n += 1; } }
                       format!("{}{} {}", n, s, *r.pick(&[7u64, 1, u64::MAX, 3, 4])) },
            call: |a| { let es = map_from(a); let k = a.u(); let mut m: HashMap<u64, u32> = es.iter().map(|(k, v)| (*k, *v as u32)).collect();
                        let c = bump(&mut m, k);
                        // a HashMap has no order: print in the order of the argument list, a new key last (= the model's list)
                        let mut keys: Vec<u64> = es.iter().map(|e| e.0).collect(); if !keys.contains(&k) { keys.push(k); }
                        let body: Vec<String> = keys.iter().map(|k| format!("({},{})", k, m[k])).collect();
                        format!("ok ([{}],{})", body.join(","), c) } },
        F { key: "Fixture.drain_sum", prop: "FIX",
            gen: |r| { let v: Vec<u64> = (0..r.below(5)).map(|_| match r.below(4) { 0 => 0, 1 => U32M, _ => r.below(9) }).collect(); arg_list(&v) },
            call: |a| { let mut v: Vec<u32> = a.list().into_iter().map(|x| x as u32).collect(); let s = drain_sum(&mut v);
                        format!("ok ({},{})", l32(&v), s) } },
        F { key: "Fixture.Outs.new", prop: "FIX", gen: |r| format!("{} {}", arg_opt(if r.chance(1, 3) { None } else { Some(r.below(5)) }), r.below(4)),
            call: |a| { let o = a.opt().map(|v| v as u32); let n = a.u() as usize; format!("ok {}", outs_enc(&Outs::new(o, n))) } },
        F { key: "Fixture.Outs.set_ours", prop: "FIX", gen: |r| format!("{} {} {}", gen_outs(r), r.below(4), r.below(2)),
            call: |a| { let mut o = outs_from(a); let v = a.u() as u32; let s = a.b(); o.set_ours(v, s); format!("ok {}", outs_enc(&o)) } },
        F { key: "Fixture.Outs.set_spent", prop: "FIX", gen: |r| format!("{} {} {}", gen_outs(r), r.below(5), r.below(2)),
            call: |a| { let mut o = outs_from(a); let i = a.u() as usize; let s = a.b(); o.set_spent(i, s); format!("ok {}", outs_enc(&o)) } },
        F { key: "Fixture.Outs.all_spent", prop: "FIX", gen: |r| gen_outs(r),
            call: |a| format!("ok {}", outs_from(a).all_spent()) },
        F { key: "Fixture.summarize", prop: "FIX",
            gen: |r| { let n = r.below(5); let mut s = n.to_string();
                       for _ in 0..n { s += &format!(" {} {}", r.below(3), match r.below(5) { 0 => u64::MAX, 1 => u64::MAX / 2 + 1, _ => r.below(9) }); } s },
            call: |a| { let n = a.u(); let hs: Vec<Pay> = (0..n).map(|_| { let hash = a.u() as u32; Pay { hash, value: a.u() } }).collect();
                        format!("ok {}", map_enc(summarize(&hs).iter())) } },
        F { key: "Fixture.merge_max", prop: "FIX",
            gen: |r| { let m = |r: &mut Rng| { let mut s = String::new(); let mut n = 0;
                           for k in [3u64, 1, 9, 2, u64::MAX] { if r.chance(1, 2) { s += &format!(" {} {}", k, *r.pick(&[0u64, 5, 7, 8, u64::MAX])); n += 1; } }
                           format!("{}{}", n, s) };
                       format!("{} {} {} {}", m(r), m(r), m(r), *r.pick(&[3u64, 1, 9, 2, 4])) },
            call: |a| { let ea = map_from(a); let eb = map_from(a); let ec = map_from(a); let probe = a.u();
                        let mut m: HashMap<u64, u64> = ea.iter().copied().collect();
                        let (n, o) = merge_max(&mut m, eb.iter().copied().collect(), ec.iter().copied().collect(), probe);
                        // print in the model's list order: the keys of `a` in argument order, then the new keys of `b`
                        let mut keys: Vec<u64> = ea.iter().map(|e| e.0).collect();
                        for e in eb.iter() { if !keys.contains(&e.0) { keys.push(e.0); } }
                        let body: Vec<String> = keys.iter().filter(|k| m.contains_key(k)).map(|k| format!("({},{})", k, m[k])).collect();
                        format!("ok ([{}],({},{}))", body.join(","), n, enc_opt(o)) } },
        F { key: "Fixture.ChanId.from_parts", prop: "FIX",
            gen: |r| { let n = match r.below(4) { 0 => 3, 1 => 5, _ => 4 }; let b = gen_bytes(r, n); format!("{} {}", arg_list(&b), edge64(r)) },
            call: |a| { let p = bytes_from(a); let o = a.u(); format!("ok {}", l8(&ChanId::from_parts(&p, o).0)) } },
        F { key: "Fixture.ChanId.oid", prop: "FIX",
            gen: |r| { let n = match r.below(4) { 0 => 7, 1 => 8, 2 => r.below(7), _ => 12 }; let b = gen_bytes(r, n); arg_list(&b) },
            call: |a| format!("ok {}", ChanId(bytes_from(a)).oid()) },
        F { key: "Fixture.ChanId.into_len", prop: "FIX",
            gen: |r| { let n = r.below(6); let b = gen_bytes(r, n); arg_list(&b) },
            call: |a| format!("ok {}", ChanId(bytes_from(a)).into_len()) },
        F { key: "Fixture.Guarded.height_plus", prop: "FIX", gen: |r| format!("{} {}", gen_acc(r), small_or_edge32(r)),
            call: |a| { let g = Guarded { st: std::sync::Mutex::new(acc_from(a)) }; let d = a.u() as u32; format!("ok {}", g.height_plus(d)) } },
        F { key: "Fixture.Guarded.total", prop: "FIX", gen: |r| gen_acc(r),
            call: |a| { let g = Guarded { st: std::sync::Mutex::new(acc_from(a)) }; format!("ok {}", g.total()) } },
        F { key: "Fixture.scale_all", prop: "FIX",
            gen: |r| { let v: Vec<u64> = (0..r.below(5)).map(|_| match r.below(4) { 0 => 0, 1 => u64::MAX, _ => r.below(9) }).collect();
                       format!("{} {}", arg_list(&v), match r.below(5) { 0 => 100, 1 => 101, 2 => 7, 3 => u64::MAX, _ => r.below(12) }) },
            call: |a| { let mut v = a.list(); let k = a.u();
                        match scale_all(&mut v, k) { Ok(x) => format!("ok ({},{})", enc_list(&v), x), Err(()) => "err ()".into() } } },
        F { key: "Fixture.Holder.mark", prop: "FIX",
            gen: |r| format!("{} {} {} {}", if r.chance(1, 4) { "-".to_string() } else { format!("+ {}", gen_outs(r)) },
                             if r.chance(1, 4) { U32M } else { r.below(9) }, r.below(4), arg_list(&[r.below(3)][..r.below(2) as usize])),
            call: |a| { let s = a.t[a.i].clone(); a.i += 1; let outs = if s == "-" { None } else { Some(outs_from(a)) };
                        let mut h = Holder { outs, h: a.u() as u32 }; let i = a.u() as usize;
                        let mut adds: Vec<usize> = a.list().into_iter().map(|v| v as usize).collect(); h.mark(i, &mut adds);
                        let o = match &h.outs { None => "none".to_string(), Some(o) => format!("some({})", outs_enc(o)) };
                        format!("ok ({{{} {}}},{})", o, h.h, enc_list(&adds.iter().map(|v| *v as u64).collect::<Vec<_>>())) } },
        // round 9 (b1819): atomics (wrap at both widths), byte-string / literal-bound &str, let-bound try_into
        F { key: "Fixture.Ctr.next", prop: "FIX",
            gen: |r| format!("{} {} {}", edge32(r), if r.chance(1, 3) { u64::MAX - r.below(2) } else { r.below(9) }, if r.chance(1, 2) { edge32(r) } else { r.below(3) }),
            call: |a| { use std::sync::atomic::{AtomicU32, AtomicUsize, Ordering};
                        let c = Ctr { n: AtomicU32::new(a.u() as u32), k: AtomicUsize::new(a.u() as usize) }; let d = a.u() as u32;
                        let old = c.next(d);
                        format!("ok ({{{} {}}},{})", c.n.load(Ordering::SeqCst), c.k.load(Ordering::SeqCst), old) } },
        F { key: "Fixture.Ctr.shuffle", prop: "FIX",
            gen: |r| format!("{} {} {}", edge32(r), r.below(9), if r.chance(1, 3) { edge64(r) } else { r.below(20) }),
            call: |a| { use std::sync::atomic::{AtomicU32, AtomicUsize, Ordering};
                        let c = Ctr { n: AtomicU32::new(a.u() as u32), k: AtomicUsize::new(a.u() as usize) }; let v = a.u() as usize;
                        let (x, y) = c.shuffle(v);
                        format!("ok ({{{} {}}},({},{}))", c.n.load(Ordering::SeqCst), c.k.load(Ordering::SeqCst), x, y) } },
        F { key: "Fixture.tagged", prop: "FIX",
            gen: |r| { let n = r.below(8); let b = gen_bytes(r, n); format!("{} {}", arg_list(&b), if r.chance(1, 5) { u64::MAX - 1 } else { r.below(6) }) },
            call: |a| { let b = bytes_from(a); let i = a.u() as usize; let (o, c) = tagged(&b, i); format!("ok ({},{})", l8(&o), l8(&c)) } },
        // ---- round 9 (bfn): Weak / iter_mut / lock writes / impl Into / Box
        F { key: "Fixture.Gauge.base_plus", prop: "FIX",
            gen: |r| format!("{} {}", gen_gauge(r), if r.chance(1, 3) { edge64(r) } else { r.below(9) }),
            call: |a| { let (g, _keep) = gauge_from(a); let d = a.u(); format!("ok {}", g.base_plus(d)) } },
        F { key: "Fixture.Gauge.feed", prop: "FIX",
            gen: |r| format!("{} {} {} {}", gen_gauge(r), r.below(4), if r.chance(1, 4) { edge64(r) } else { r.below(40) }, r.below(2)),
            call: |a| { let (g, _keep) = gauge_from(a); let i = a.u() as usize; let x = a.u(); let manual = a.u() != 0;
                        let ok = g.feed(i, x, manual); format!("ok ({},{})", gauge_enc(&g), ok) } },
        F { key: "Fixture.Gauge.replace", prop: "FIX",
            gen: |r| { let c: Vec<u64> = (0..r.below(4)).map(|_| r.below(50)).collect(); format!("{} {}", gen_gauge(r), arg_list(&c)) },
            call: |a| { let (g, _keep) = gauge_from(a); let c = a.list(); let w = g.replace(c); format!("ok ({},{})", gauge_enc(&g), w) } },
        F { key: "Fixture.Meter.clear", prop: "FIX",
            gen: |r| { let c: Vec<u64> = (0..r.below(5)).map(|_| edge64(r)).collect(); format!("{} {}", arg_list(&c), r.below(100)) },
            call: |a| { let mut m = Meter { cells: a.list(), cap: a.u() }; m.clear(); format!("ok {{{} {}}}", enc_list(&m.cells), m.cap) } },
        F { key: "Fixture.tag_into", prop: "FIX", gen: |r| format!("{} {}", ["a", "node", "x9"][r.below(3) as usize], edge64(r)),
            call: |a| { let p = a.t[a.i].clone(); a.i += 1; let n = a.u(); format!("ok {}", tag_into(p, n)) } },
        F { key: "Fixture.boxed_inc", prop: "FIX", gen: |r| format!("{}", match r.below(4) { 0 => 0, 1 => u64::MAX, _ => r.below(9) }),
            call: |a| { let x = a.u(); match boxed_inc(x) { Ok(b) => format!("ok {}", *b), Err(()) => "err ()".to_string() } } },
    ]
}
